"""Rule templates shared by the property modules (forwarding, literal configuration, dominance, role checks)."""
from .. import q as Q
from .. import roles
from ..terms import callee, canon, const, is_const, show, walk, NONE


def roles_rule(ctx, rule, quals, with_return=True, skip_kinds=(), only_kinds=None, require=None):
    """require: {function: [set of sink kinds, ...]} - see roles.check_paths"""
    n = 0
    for qn in quals:
        paths = ctx.paths(qn)
        ret = roles.RETURNS.get(qn) if with_return else None
        req = list((require or {}).get(qn, ()))
        if ret is not None:
            req.append({"return"})
        n += roles.check_paths(ctx, rule, qn, paths, ret, skip_kinds=skip_kinds, only_kinds=only_kinds, require=req)
        # the role table is keyed by parameter names: the function's own docstring must state the same order (DESIGN 3.1)
        from .. import contracts
        f = ctx.pkg.functions.get(qn)
        if f is not None:
            for par, st, txt in contracts.docstring_contract(f):
                if st == "silent":
                    continue
                ctx.check(rule, "%s|docstring-contract|%s" % (qn, par), True if st == "confirmed" else None,
                          "the docstring states the order assumed for '%s' (%s)" % (par, txt), fn=qn, nontrivial=False,
                          undecided="specification drift: the docstring of %s declares '%s : %s', which is not the order the role table assumes" % (qn.rsplit(".", 1)[1], par, txt))
    return n


def calls_in(ctx, qn, name, normal_only=False):
    """[(path, event)] of calls to `name` in function qn"""
    out = []
    for p in ctx.paths(qn):
        if normal_only and not p.normal:
            continue
        for e in p.events:
            if e.kind == "call" and callee(e.data[0]) == name:
                out.append((p, e))
    return out


def forwarding(ctx, rule, qn, cal, want, key=None, absent_ok=()):
    """every call of `cal` in `qn` receives, for each parameter in `want`, exactly the given term (or satisfies the predicate).
    absent/constant/another-listed-value -> VIOLATED; anything else unexpected -> UNDECIDED."""
    hits = calls_in(ctx, qn, cal)
    short = cal.rsplit(".", 1)[-1].lstrip(".")
    if not hits:
        ctx.add(rule, "%s|forwards|%s" % (qn, short), "UNDECIDED", "no call to %s found" % cal, fn=qn)
        return
    for nm, w in want.items():
        verdict, why, line = "DISCHARGED", "", None
        for p, e in hits:
            g = Q.arg(ctx, e.data[0], nm)
            ok = w(g) if callable(w) else (g == w or (g is not None and g != "unknown" and canon(g) == canon(w)))
            if ok is True:
                continue
            if g is None:
                if nm in absent_ok:
                    continue
                verdict, why, line = "VIOLATED", "%s is not passed to %s" % (nm, short), e.line
            elif g == "unknown":
                if verdict == "DISCHARGED":
                    verdict, why, line = "UNDECIDED", "%s may travel through *args/**kwargs" % nm, e.line
            elif ok is False and callable(w):
                verdict, why, line = "VIOLATED", "%s receives %s=%s" % (short, nm, show(g)[:80]), e.line
            elif not callable(w) and Q.is_self_attr(w) and Q.is_self_attr(g) and g != w and not _is_property(ctx, qn, g[2]):
                # configured from attribute X, but another attribute of the object is passed: typically a value cached by an earlier call
                verdict, why, line = "VIOLATED", "%s receives %s=%s instead of %s (state kept from elsewhere, not the configured value)" % (short, nm, show(g)[:60], show(w)[:60]), e.line
            elif is_const(g) or any(canon(g) == canon(o) for o in want.values() if not callable(o)):
                verdict, why, line = "VIOLATED", "%s receives %s=%s instead of %s" % (short, nm, show(g)[:60], show(w)[:60] if not callable(w) else "the expected value"), e.line
            elif verdict == "DISCHARGED":
                verdict, why, line = "UNDECIDED", "%s=%s is not recognisably %s" % (nm, show(g)[:60], show(w)[:60] if not callable(w) else "the expected value"), e.line
        ctx.add(rule, "%s|%s|%s=" % (qn, key or short, nm), verdict,
                why or "%s receives %s=%s on every path" % (short, nm, show(w)[:60] if not callable(w) else "the expected value"), fn=qn, line=line)


def _is_property(ctx, qn, name):
    f = ctx.pkg.functions.get(qn)
    if f is None or f.cls is None:
        return False
    m = ctx.pkg.find_method(f.cls.qual, name)
    return m is not None and m.is_property


def literal_kw(ctx, rule, qn, cal, nm, value, default=None, family=None):
    """keyword/positional `nm` of every call to `cal` is the literal `value` (default = callee's default when absent)"""
    hits = calls_in(ctx, qn, cal)
    short = cal.rsplit(".", 1)[-1].lstrip(".")
    key = "%s|%s|%s=%r" % (qn, short, nm, value)
    if not hits:
        ctx.add(rule, key, "UNDECIDED", "no call to %s found" % cal, fn=qn)
        return
    verdict, why, line = "DISCHARGED", "", None
    for p, e in hits:
        g = Q.arg(ctx, e.data[0], nm)
        if g is None:
            g = const(default)
        if g == "unknown":
            verdict, why, line = "UNDECIDED", "%s may travel through **kwargs" % nm, e.line
        elif g == const(value) or (g[0] == "glob" and g[1] == value):
            continue
        elif is_const(g) or g[0] == "glob":
            verdict, why, line = "VIOLATED", "%s is called with %s=%s, not %r" % (short, nm, show(g), value), e.line
            break
        else:
            verdict, why, line = "UNDECIDED", "%s=%s is not a literal" % (nm, show(g)[:60]), e.line
    ctx.add(rule, key, verdict, why or "%s is called with %s=%r on every path" % (short, nm, value), fn=qn, line=line)


def precedes(ctx, rule, qn, first, second, key, what, require_second=True):
    """on every path, an event satisfying `first` occurs before the first event satisfying `second`"""
    paths = ctx.paths(qn)
    seen = False
    verdict, why, line = "DISCHARGED", "", None
    for p in paths:
        i2 = Q.first_index(p, second)
        if i2 is None:
            continue
        seen = True
        i1 = Q.first_index(p, first)
        if i1 is None or i1 > i2:
            verdict, why, line = "VIOLATED", "a path reaches %s" % key.split("|")[-1] + " without first passing the required step", p.events[i2].line
            break
    if not seen and require_second:
        verdict, why = "UNDECIDED", "the guarded use was not found"
    ctx.add(rule, "%s|%s" % (qn, key), verdict, why or what, fn=qn, line=line)


def is_call(name):
    return lambda e: e.kind == "call" and callee(e.data[0]) == name


def raises_when(ctx, rule, qn, key, pred, what):
    """some raising path's last decision satisfies pred(cond, value)"""
    ok = False
    for p in ctx.paths(qn):
        if p.exit == "raise" and p.conds and pred(p.conds[-1][0], p.conds[-1][1]):
            ok = True
    ctx.check(rule, "%s|raises|%s" % (qn, key), ok, what, bad="no raising path for: " + what, fn=qn)
    return ok


def returns(ctx, qn, normal=True):
    return [p for p in ctx.paths(qn) if p.exit == "return"]


def _mentions_param(fa, name):
    tgt = ("param", name)
    todo = [fa] + list(fa.nested.values())
    for f in todo:
        for p in f.paths:
            for e in p.events:
                for d in e.data:
                    if isinstance(d, tuple) and any(x == tgt for x in walk(d)):
                        return True
            for c, _v in p.conds:
                if any(x == tgt for x in walk(c)):
                    return True
            if isinstance(p.value, tuple) and any(x == tgt for x in walk(p.value)):
                return True
    return False


def dead_parameters(ctx, rule="RP"):
    """every parameter of the functions this property is anchored in, and every constructor attribute of their classes, is
    consumed somewhere: a documented parameter that influences nothing (typically a dropped forwarding) is a definite defect,
    whatever idiom the code uses.  Functions the repository marks with `# noqa: U100` (intentionally unused arguments) are exempt."""
    pkg = ctx.pkg
    quals = sorted(q for q in ctx.consulted if q in pkg.functions)
    classes = set()
    for qn in quals:
        f = pkg.functions[qn]
        if f.cls is not None:
            classes.add(f.cls.qual)
        if (f.module.qual, f.name) in pkg.unused_ok or f.name.startswith("__") and f.name != "__init__":
            continue
        from ..paths import known_functions
        if f.name.startswith("_") and qn not in (known_functions() or {qn}):
            continue          # a private helper added later: an unused parameter of it changes nothing for its callers
        fa = ctx.an.fa(qn)
        if not fa.ok or not fa.paths:
            continue
        if all(p.exit == "raise" for p in fa.paths) and not any(e.kind != "call" for p in fa.paths for e in p.events):
            continue          # abstract placeholder (raise NotImplementedError)
        for prm in list(f.params) + ([("**" + f.kwarg)] if f.kwarg else []):
            if prm in ("self", "cls"):
                continue
            if prm.startswith("**"):
                # **kwargs that are accepted and then dropped: documented pass-through options silently stop working
                import ast as _ast
                used = any(isinstance(n, _ast.Name) and n.id == f.kwarg and isinstance(n.ctx, _ast.Load) for n in _ast.walk(f.node))
                ctx.check(rule, "%s|parameter-consumed|%s" % (qn, prm), True if used else False, "the extra keyword arguments are consumed",
                          bad="%s accepts **%s and never uses it: extra keyword arguments (documented as passed on) are silently dropped" % (qn.split(".", 1)[1], f.kwarg), fn=qn, nontrivial=False)
                continue
            used = _mentions_param(fa, prm)
            ctx.check(rule, "%s|parameter-consumed|%s" % (qn, prm), True if used else False, "parameter '%s' is consumed (it reaches a call, a condition, a store or the result)" % prm,
                      bad="parameter '%s' of %s is never used: it has no effect on the result (dropped forwarding?)" % (prm, qn.split(".", 1)[1]), fn=qn, nontrivial=False)
    for cq in sorted(classes):
        c = pkg.classes[cq]
        init = c.methods.get("__init__")
        if init is None:
            continue
        fa = ctx.an.fa(init.qual)
        if not fa.ok:
            continue
        stored = set()
        for p in fa.paths:
            for e in p.events:
                if e.kind == "setattr" and e.data[0] == Q.SELF and e.data[1] in init.params:
                    stored.add(e.data[1])
        family = set(pkg.mro(cq)) | set(pkg.subclasses(cq))
        readers = [f for f in pkg.functions.values() if f.cls is not None and f.cls.qual in family and f.name != "__init__"]
        for a in sorted(stored):
            read = False
            for f in readers:
                fa2 = ctx.an.fa(f.qual)
                if not fa2.ok:
                    read = True
                    break
                for fx in [fa2] + list(fa2.nested.values()):
                    for p in fx.paths:
                        if any(e.kind == "getattr" and e.data[0] == Q.SELF and e.data[1] == a for e in p.events) or \
                                any(e.kind == "call" and callee(e.data[0]) in ("builtins.getattr", "builtins.hasattr") and len(e.data[0][2]) > 1 and e.data[0][2][1] == const(a) for e in p.events):
                            read = True
            ctx.check(rule, "%s|constructor-attribute-consumed|%s" % (cq, a), True if read else False, "constructor parameter '%s' is read by a method of the class" % a,
                      bad="constructor parameter '%s' of %s is stored but never read by any method: it has no effect" % (a, cq.rsplit(".", 1)[1]), nontrivial=False)


def point_order_contract(ctx, rule):
    """The callee-side half of every "index i of the tree / of the raveled arrays is point i of the input" argument
    (assume/guarantee, DESIGN 8.2): n_1d_arrays flattens in C order, and verde.utils.kdtree indexes the points in that order.
    Every property whose rule relies on per-point alignment through these helpers re-checks them under its own rule id."""
    from ..terms import kw
    qn = "verde.base.utils.n_1d_arrays"
    for p in ctx.paths(qn):
        if p.exit != "return":
            continue
        calls = [x for x in walk(p.value) if isinstance(x, tuple) and x and x[0] == "call"]
        bad = [x for x in calls if callee(x) in ("numpy.ravel", ".ravel", ".flatten", "numpy.reshape", ".reshape") and kw(x, "order") not in (None, const("C"))]
        bad += [x for x in calls if callee(x) in (".ravel", ".flatten") and x[2] and x[2][0] != const("C")]
        bad += [x for x in calls if callee(x) == "numpy.ravel" and len(x[2]) > 1 and x[2][1] != const("C")]
        flat = any(Q.ravel_of(x) is not None for x in calls)
        ctx.check(rule, qn + "|C-order", False if bad else (True if flat else None), "n_1d_arrays ravels each array in C order (the order in which data, weights and index results are flattened)",
                  bad="n_1d_arrays flattens with %s: for arrays that are not C-contiguous the points are numbered in another order than the data / the unravelled indices" % (show(bad[0])[:60] if bad else ""), fn=qn)
    qn = "verde.utils.kdtree"
    n1d = Q.call(ctx, "verde.base.utils.n_1d_arrays", ("param", "coordinates"), const(2))
    for p in ctx.paths(qn):
        if p.exit != "return":
            continue
        v = p.value
        ok = None
        if v[0] == "call" and v[2]:
            pts = v[2][0]
            if pts[0] == "call" and callee(pts) == "numpy.transpose" and pts[2] and canon(pts[2][0]) == canon(n1d):
                ok = True
            elif pts[0] == "call" and callee(pts) == "numpy.transpose" and pts[2] and pts[2][0][0] == "call" and callee(pts[2][0]) == "verde.base.utils.n_1d_arrays" and pts[2][0][2][:1] == (("param", "coordinates"),):
                nn = Q.arg(ctx, pts[2][0], "n")
                ok = True if nn in (const(2), ("call", ("glob", "builtins.len"), (("param", "coordinates"),), (), 0)) or (nn is not None and canon(nn) == canon(("call", ("glob", "builtins.len"), (("param", "coordinates"),), (), 0))) else None
        ctx.check(rule, "%s|points-in-n_1d_arrays-order|%s" % (qn, Q.tags(p.conds)), ok, "the tree indexes the points as rows of transpose(n_1d_arrays(coordinates, 2))", fn=qn)


PERMUTATION_SOURCES = {"numpy.argsort", "numpy.lexsort", "numpy.random.permutation", ".argsort", ".permutation"}


def _is_permutation(t):
    t = Q.unwrap(t)
    while t[0] == "sub" and t[2][0] == "slice":
        t = Q.unwrap(t[1])
    return t[0] == "call" and callee(t) in PERMUTATION_SOURCES


def _order_of(seq):
    """the iterable whose order a sequence built element by element follows: [f(x) for x in P] -> P, [f(y) for y in [g(x) for x in P]] -> P"""
    seq = Q.unseq(seq)
    seen = 0
    while seq[0] == "comp" and seen < 4:
        it = Q.unseq(seq[3])
        if it[0] != "comp":
            return it
        seq, seen = it, seen + 1
    return None


def permutation_gather(ctx, rule="RG"):
    """A sequence L built in the order of a permutation P (L[k] belongs to item P[k]) is put back into the original order with the
    INVERSE of P (argsort(P), or a scatter out[P[k]] = L[k]).  Gathering it with P itself - [L[i] for i in P] - returns, at position
    j, the entry that belongs to P[P[j]]: right only for permutations that are their own inverse (a classic argsort slip that tests
    with sorted, reversed or two-element inputs cannot see)."""
    for qn in scope(ctx):
        fa = ctx.an.fa(qn)
        if not fa.ok:
            continue
        found = None
        for fx in [fa] + list(fa.nested.values()):
            for p in fx.paths:
                terms = [p.value] if isinstance(p.value, tuple) else []
                terms += [d for e in p.events for d in e.data if isinstance(d, tuple)]
                for t in terms:
                    for x in walk(t):
                        if isinstance(x, tuple) and x and x[0] == "comp" and x[2][0] == "sub" and x[2][2] == ("elem", x[3], x[4]) and _is_permutation(x[3]):
                            src = _order_of(x[2][1])
                            if src is not None and canon(src) == canon(Q.unseq(x[3])):
                                found = found or (show(x)[:120], p.line)
        if found is not None:
            ctx.add(rule, qn + "|results-restored-with-the-inverse-permutation", "VIOLATED",
                    "a sequence computed in the order of a sort permutation is gathered with the permutation itself instead of its inverse: %s" % found[0], fn=qn, line=found[1])


def shared_contracts(ctx, rule="RO"):
    """Every property whose anchored functions flatten points through n_1d_arrays / index them through utils.kdtree relies on the
    callee-side ordering contract; it is re-checked here under the generic rule id RO unless the property's own rules already did."""
    if any(o.construct == "verde.base.utils.n_1d_arrays|C-order" for o in ctx.obs.values()):
        return
    if "verde.base.utils.n_1d_arrays" not in ctx.pkg.functions or "verde.utils.kdtree" not in ctx.pkg.functions:
        return
    uses = False
    for qn in sorted(q for q in ctx.consulted if q in ctx.pkg.functions):
        fa = ctx.an.fa(qn)
        if not fa.ok:
            continue
        for fx in [fa] + list(fa.nested.values()):
            for p in fx.paths:
                if any(e.kind == "call" and callee(e.data[0]) in ("verde.base.utils.n_1d_arrays", "verde.utils.kdtree") for e in p.events):
                    uses = True
    if uses:
        point_order_contract(ctx, rule)


# ---------------------------------------------------------------------------------------------------------------------
# RK: library semantics the rules were written against.  Every call into numpy / scipy / pandas / xarray / sklearn (and every
# method call on a value whose class the analyser does not know) made by an anchored function is recorded, per function, with the
# parameter names it binds (positional arguments are named through contracts.SIGNATURES where known).  A keyword that was not bound
# when the rules were confirmed changes what the library call does (endpoint=False, unpack=True, as_index=False, order="F",
# furthest_site=True ...) in a way no rule models: that is UNDECIDED (exit 2), never a silent pass - unless the keyword is given
# its documented default.
LIB_PREFIXES = ("numpy.", "scipy.", "pandas.", "xarray.", "sklearn.", "pykdtree.", "numba.", "dask.")
from ..contracts import LIB_DEFAULTS  # noqa: E402


def library_calls(ctx, qn):
    """{"callee|name"} for every library call (and unknown-receiver method call) on the paths of qn, helpers looked through"""
    from .. import contracts
    fa = ctx.an.fa(qn)
    out = {}
    if not fa.ok:
        return None
    for fx in [fa] + list(fa.nested.values()):
        for p in fx.paths:
            for e in p.events:
                if e.kind != "call":
                    continue
                t = e.data[0]
                c = callee(t)
                if not (c.startswith(LIB_PREFIXES) or (c.startswith(".") and t[1][0] == "attr" and t[1][1] != Q.SELF)):
                    continue
                names = contracts.SIGNATURES.get(c)
                if c.startswith("numpy.") and names is None and t[1][0] == "glob":
                    names = None
                for i, a in enumerate(t[2]):
                    if a[0] == "star":
                        continue
                    nm = names[i] if names is not None and i < len(names) else "#%d" % i
                    out.setdefault("%s|%s" % (c, nm), a)
                for k, v in t[3]:
                    if k is not None:
                        out.setdefault("%s|%s" % (c, k), v)
    return out


def library_keywords(ctx, rule="RK"):
    import json
    from ..report import VERIF
    f = VERIF / "baseline" / "libcalls.json"
    if not f.exists():
        return
    base = json.loads(f.read_text())
    for qn in sorted(q for q in ctx.consulted if q in ctx.pkg.functions and q in base):
        cur = library_calls(ctx, qn)
        if cur is None:
            continue
        known = set(base[qn])
        callees_known = {k.split("|")[0] for k in known}
        news = []
        for key, val in sorted(cur.items()):
            if key in known:
                continue
            c, nm = key.split("|", 1)
            if c not in callees_known:
                continue                      # a library function this code did not call before: the property rules decide (or not) what it means
            if nm.startswith("#"):
                continue
            d = LIB_DEFAULTS.get((c, nm), "<none>")
            if d != "<none>" and (val == const(d) or (d is None and val == NONE)):
                continue
            news.append("%s(%s=%s)" % (c, nm, show(val)[:40]))
        ctx.check(rule, qn + "|library-keywords-modelled", None if news else True, "every library call binds only the parameters that were bound when the rules were confirmed (or explicit defaults)",
                  fn=qn, nontrivial=False, undecided="library semantics outside the model: %s - a keyword that the rules for this function never saw changes what the call returns" % ", ".join(news[:3]))


def accumulate_uninitialised(ctx, rule="RA"):
    """`buf += x` / `buf[i] += x` where buf was allocated with np.empty / np.empty_like and never assigned as a whole: the sum starts from
    whatever the allocator returned (often zeros in a fresh process - which is why tests pass)."""
    for qn in scope(ctx):
        fa = ctx.an.fa(qn)
        if not fa.ok:
            continue
        bad = None
        for fx in [fa] + list(fa.nested.values()):
            for p in fx.paths:
                written = set()
                for e in p.events:
                    if e.kind == "store" and e.data[0][0] == "call":
                        written.add(e.data[0])
                    elif e.kind == "aug":
                        cur = e.data[0]
                        base = cur
                        while base[0] == "sub":
                            base = base[1]
                        while base[0] in ("prev", "mu"):
                            base = base[3]
                        if base[0] == "call" and callee(base) in ("numpy.empty", "numpy.empty_like") and base not in written:
                            bad = bad or (show(base)[:60], e.line)
        ctx.check(rule, qn + "|accumulators-initialised", False if bad else True, "no in-place accumulation into a buffer from np.empty / np.empty_like", fn=qn, nontrivial=False,
                  bad="%s is accumulated into (+=) without ever being initialised: the result contains whatever memory the allocator returned" % (bad[0] if bad else ""), line=bad[1] if bad else None)


def scope(ctx):
    """the functions a generic rule looks at: those the property's rules consulted, plus every method that was ADDED (not in the function
    inventory) to a class one of them belongs to - a new override (filter, predict, ...) is an entry point no rule names"""
    from ..paths import known_functions
    inv = known_functions() or set()
    out = {q for q in ctx.consulted if q in ctx.pkg.functions}
    classes = {ctx.pkg.functions[q].cls.qual for q in out if ctx.pkg.functions[q].cls is not None}
    family = set()
    for cq in classes:
        family |= set(ctx.pkg.mro(cq)) | set(ctx.pkg.subclasses(cq))
    for q, f in ctx.pkg.functions.items():
        if f.cls is not None and f.cls.qual in family and q not in inv:
            out.add(q)
    # new module-level functions (not in the inventory) that the consulted functions refer to by name, transitively: a step moved into a
    # helper is still part of what the property's functions do
    import ast
    new_by_name = {}
    for q, f in ctx.pkg.functions.items():
        if q not in inv and f.cls is None and "<locals>" not in q:
            new_by_name.setdefault(f.name, []).append(q)
    if new_by_name:
        todo = list(out)
        while todo:
            q = todo.pop()
            f = ctx.pkg.functions.get(q)
            if f is None:
                continue
            for n in ast.walk(f.node):
                nm = n.id if isinstance(n, ast.Name) else (n.attr if isinstance(n, ast.Attribute) else None)
                for q2 in new_by_name.get(nm, ()):
                    if q2 not in out:
                        out.add(q2)
                        todo.append(q2)
    return sorted(out)


def _occurs_outside(value, a, t):
    """term a occurs in value somewhere that is not inside the call term t"""
    stack = [value]
    while stack:
        x = stack.pop()
        if not isinstance(x, tuple) or not x or x == t:
            continue
        if x == a:
            return True
        stack.extend(e for e in x if isinstance(e, tuple))
    return False


def use_after_clobber(ctx, rule="RW"):
    """A package function that transforms one of its ARGUMENTS in place (not an output buffer it fills by subscript stores, but an input
    it rescales, sorts, cleans ... - e.g. least_squares scales the Jacobian unless copy_jacobian=True) leaves the caller with a
    value that no longer means what its name says.  Any later use of that value in the caller is a defect."""
    from ..effects import Effects
    ef = getattr(ctx, "_effects", None)
    if ef is None:
        ef = ctx._effects = Effects(ctx.an)
    clobbers = {}
    for q, w in ef.writes.items():
        for prm, (how, _line) in w.items():
            if not how.startswith("subscript store") and not how.startswith("out="):
                clobbers.setdefault(q, {})[prm] = how
    for qn in scope(ctx):
        fa = ctx.an.fa(qn)
        if not fa.ok:
            continue
        bad = None
        for fx in ([fa] + list(fa.nested.values())) if clobbers else []:
            for p in fx.paths:
                dirty = []          # (term, callee, how)
                for e in p.events:
                    datas = [d for d in e.data if isinstance(d, tuple)]
                    if e.kind == "call" and callee(e.data[0]) in clobbers:
                        t = e.data[0]
                        # uses inside this very call are the hand-over itself
                        for prm, how in clobbers[callee(t)].items():
                            a = Q.arg(ctx, t, prm)
                            guard = Q.arg(ctx, t, "copy_" + prm)
                            if isinstance(a, tuple) and a[0] in ("call", "sub", "attr", "param") and guard != const(True):
                                dirty.append((a, callee(t), how, t))
                        continue
                    for d in datas:
                        for a, c, how, t in dirty:
                            if d != t and any(x == a for x in walk(d)) and not any(x == t for x in walk(d) if x is not d):
                                bad = bad or ("%s is used after %s modified it in place (%s)" % (show(a)[:60], c.rsplit(".", 1)[1], how[:60]), e.line)
                from ..paths import known_functions
                private_new = qn.rsplit(".", 1)[1].startswith("_") and qn not in (known_functions() or {qn})
                if isinstance(p.value, tuple) and not private_new:      # what a new private helper returns is judged where its callers use it
                    for a, c, how, t in dirty:
                        if _occurs_outside(p.value, a, t):          # the hand-over inside the call itself is not a later use
                            bad = bad or ("%s is returned after %s modified it in place (%s)" % (show(a)[:60], c.rsplit(".", 1)[1], how[:60]), p.line)
        ctx.check(rule, qn + "|no-use-after-in-place-modification", False if bad else True, "no value is used after a callee transformed it in place", fn=qn, nontrivial=False,
                  bad=bad[0] if bad else "", line=bad[1] if bad else None)


def first_appearance_numbering(p):
    """a call on path p that numbers groups in order of first appearance (pd.factorize without sort=True, pd.unique, dict.fromkeys), or None.
    Block coordinates are produced in the order of the SORTED labels (np.unique / groupby's default sort): results numbered by first
    appearance are attached to the wrong blocks unless the points happen to arrive in block order."""
    for e in p.events:
        if e.kind == "call":
            c = callee(e.data[0])
            if c == "pandas.factorize" and Q.arg_kw(e.data[0], "sort") != const(True):
                return e.data[0]
            if c in ("pandas.unique", "builtins.dict.fromkeys"):
                return e.data[0]
    return None


DISTANCE_FUNCS = {"numpy.hypot", "math.hypot", "numpy.linalg.norm", "math.dist"}


def unguarded_distance_division(p, term):
    """a denominator inside `term` that is a Euclidean distance between caller-supplied points (hypot / norm / sqrt of a sum of squares of
    differences) - zero when the points coincide - on a path whose decisions never compare that distance with zero; returns it or None"""
    def is_distance(d):
        d = Q.unwrap(d)
        if d[0] == "call" and callee(d) in DISTANCE_FUNCS:
            return True
        if d[0] == "call" and callee(d) in ("numpy.sqrt", "math.sqrt") and d[2] and any(x[0] == "binop" and x[1] == "**" for x in walk(d[2][0]) if isinstance(x, tuple) and x):
            return True
        return False
    dens = [x[3] for x in walk(term) if isinstance(x, tuple) and x and x[0] == "binop" and x[1] in ("/", "//", "%") and is_distance(x[3])]
    for d in dens:
        guarded = any(any(y == d for y in walk(c)) for c, _v in p.conds)
        if not guarded:
            return d
    return None


LIKE_ALLOC = {"numpy.empty_like", "numpy.zeros_like", "numpy.ones_like", "numpy.full_like"}


def inherited_dtype_stores(ctx, rule="RD"):
    """A buffer allocated with np.*_like(x) and no dtype takes the dtype of x.  Storing into it a value computed from OTHER arrays (a
    difference with a prediction, a quotient, ...) silently converts that value to x's dtype: for integer x the fractional part is cut
    off.  (An allocation that names a floating dtype, or the promoted np.result_type, is fine.)"""
    for qn in scope(ctx):
        fa = ctx.an.fa(qn)
        if not fa.ok:
            continue
        bad = None
        for fx in [fa] + list(fa.nested.values()):
            for p in fx.paths:
                for e in p.events:
                    if e.kind != "store":
                        continue
                    base, val = e.data[0], e.data[2]
                    while base[0] == "sub":
                        base = base[1]
                    while base[0] in ("prev", "mu"):
                        base = base[3]
                    alloc = base
                    if base[0] == "elem":                     # an element of a comprehension of allocations
                        seq = Q.unseq(base[1])
                        alloc = seq[2] if seq[0] == "comp" else base
                    if not (alloc[0] == "call" and callee(alloc) in LIKE_ALLOC and alloc[2]):
                        continue
                    dt = Q.arg_kw(alloc, "dtype")
                    if dt is None and len(alloc[2]) > (2 if callee(alloc) == "numpy.full_like" else 1):
                        dt = alloc[2][2 if callee(alloc) == "numpy.full_like" else 1]
                    if dt is not None:
                        continue
                    proto = Q.unwrap(alloc[2][0])
                    # the prototype must be (derived from) a caller's array, and the stored value must involve something else than it
                    if not any(x[0] == "param" for x in walk(proto) if isinstance(x, tuple) and x):
                        continue
                    others = [x for x in walk(val) if isinstance(x, tuple) and x and x[0] == "call" and x[1][0] == "attr" and x[1][1] == Q.SELF]
                    divides = any(x[0] == "binop" and x[1] == "/" for x in walk(val) if isinstance(x, tuple) and x)
                    if (others or divides) and not is_const(val):
                        bad = bad or ("%s takes the dtype of %s but receives %s" % (show(alloc)[:50], show(proto)[:40], show(val)[:60]), e.line)
        ctx.check(rule, qn + "|no-store-into-a-buffer-of-inherited-dtype", False if bad else True, "no computed value is stored into a *_like buffer that inherits a caller's dtype", fn=qn, nontrivial=False,
                  bad=(bad[0] + ": for integer input the values are truncated") if bad else "", line=bad[1] if bad else None)


def foreign_dtype_casts(ctx, rule="RT"):
    """A value computed from the caller's coordinates / data / parameters that is converted to the dtype of ANOTHER array
    (np.array(x, dtype=y.dtype), x.astype(y.dtype)) silently takes over y's precision: when y is integer-typed (a legal input everywhere
    in this library) the fractional part of x is cut off, so the result depends on the dtype of an unrelated input.  The conversion to the
    value's own dtype, to a floating literal, or to np.result_type(...) including the value are fine (Q.cast_kind)."""
    for qn in scope(ctx):
        fa = ctx.an.fa(qn)
        if not fa.ok:
            continue
        bad = None
        for fx in [fa] + list(fa.nested.values()):
            for p in fx.paths:
                terms = [e.data[0] for e in p.events if e.kind == "call"]
                for t in terms:
                    c = Q.cast_of(t)
                    if c is None:
                        continue
                    val, d = c
                    if not (isinstance(d, tuple) and d[0] == "attr" and d[2] == "dtype"):
                        continue
                    src = Q.unwrap(d[1])
                    uval = Q.unwrap(val)
                    if src == uval or uval[0] in ("cmp", "const"):
                        continue
                    lv = {x for x in walk(uval) if isinstance(x, tuple) and x and x[0] in ("param", "attr") and (x[0] == "param" or x[1] == Q.SELF)}
                    ls = {x for x in walk(src) if isinstance(x, tuple) and x and x[0] in ("param", "attr") and (x[0] == "param" or x[1] == Q.SELF)}
                    if not lv or not ls or (lv & ls):
                        continue            # the dtype comes from (something derived from) the value itself, or nothing can be said
                    if any(isinstance(x, tuple) and x and x[0] == "call" and str(callee(x)).split(".")[-1] in INDEX_PRODUCERS for x in walk(uval)):
                        continue            # positions / counts: integers whatever the target
                    bad = bad or ("%s is converted to the dtype of %s" % (show(val)[:60], show(d[1])[:50]), None)
        ctx.check(rule, qn + "|no-conversion-to-another-array's-dtype", False if bad else True, "no value is converted to the dtype of an unrelated array", fn=qn, nontrivial=False,
                  bad=(bad[0] + ": for an integer-typed array the values are truncated (the result depends on the dtype of an unrelated input)") if bad else "")


INDEX_PRODUCERS = {"argsort", "argmin", "argmax", "where", "nonzero", "flatnonzero", "arange", "searchsorted", "unravel_index", "ravel_multi_index", "bincount", "digitize",
                   "query", "query_ball_point", "unique", "len", "range", "cumsum", "lexsort", "indices"}


def fills_through_a_copy(ctx, rule="RV"):
    """An output buffer allocated with np.*_like(prototype) keeps the prototype's memory layout (order='K').  Handing `buffer.ravel()` /
    `np.ravel(buffer)` / `buffer.reshape(-1)` to a function that FILLS its argument (subscript stores, out=) fills the buffer only if
    that flattening is a view; for a Fortran-ordered or transposed prototype it is a copy, the stores go to a temporary and the buffer that is used
    afterwards keeps uninitialised memory.  (np.empty(shape) is C-ordered: its ravel is always a view.)"""
    from ..effects import Effects
    ef = getattr(ctx, "_effects", None)
    if ef is None:
        ef = ctx._effects = Effects(ctx.an)
    fills = {}
    for q, w in ef.writes.items():
        for prm, (how, _line) in w.items():
            if how.startswith("subscript store") or how.startswith("out="):
                fills.setdefault(q, set()).add(prm)

    def like_buffer(b):
        b0 = b
        while b0[0] == "sub":
            b0 = b0[1]
        alloc = b0
        if b0[0] == "elem":
            seq = Q.unseq(b0[1])
            alloc = seq[2] if seq[0] == "comp" else b0
        if not (alloc[0] == "call" and callee(alloc) in LIKE_ALLOC and alloc[2]):
            return None
        order = Q.arg_kw(alloc, "order")
        if order is not None and order in (const("C"), const("F")):
            return None if order == const("C") else alloc
        proto = Q.unwrap(alloc[2][0])
        if not any(x[0] == "param" for x in walk(proto) if isinstance(x, tuple) and x):
            return None
        return alloc

    def flat_of(a):
        r = Q.ravel_of(a)
        if r is not None:
            return r[0] if r[1] and not (a[1][0] == "attr" and a[1][2] == "flatten") else None
        r = Q.reshape_of(a)
        if r is not None and r[1] in (const(-1), ("tuple", (const(-1),))):
            return r[0]
        return None

    for qn in scope(ctx):
        fa = ctx.an.fa(qn)
        if not fa.ok:
            continue
        bad = None
        for fx in [fa] + list(fa.nested.values()):
            for p in fx.paths:
                for e in p.events:
                    cands = []
                    if e.kind == "call":
                        t = e.data[0]
                        cq = callee(t)
                        for q2 in ([cq] if cq in fills else []):
                            for prm in fills[q2]:
                                a = Q.arg(ctx, t, prm)
                                if isinstance(a, tuple):
                                    cands.append((a, "%s fills its argument %s" % (q2.rsplit(".", 1)[1], prm), t))
                    elif e.kind == "store" and e.data[3] != "container":
                        base = e.data[0]
                        cands.append((base, "a subscript store", None))
                    for a, how, t in cands:
                        inner = flat_of(a)
                        if inner is None:
                            continue
                        alloc = like_buffer(inner)
                        if alloc is None:
                            continue
                        used = isinstance(p.value, tuple) and any(x == alloc for x in walk(p.value) if isinstance(x, tuple))
                        if used:
                            bad = bad or ("%s through a flattened %s, which keeps the memory layout of %s: for a Fortran-ordered or transposed argument the flattening "
                                          "is a copy and the returned buffer stays unfilled" % (how, show(alloc)[:50], show(alloc[2][0])[:40]), e.line)
        ctx.check(rule, qn + "|output-buffers-are-filled-through-views", False if bad else True, "no output buffer is filled through a flattening that may be a copy", fn=qn, nontrivial=False,
                  bad=bad[0] if bad else "", line=bad[1] if bad else None)


def flatten_orders(ctx, rule="RF"):
    """Every flattening / reshaping in the package is in C order; a function the property consults that flattens or reshapes with another
    order (order='K', 'F', 'A') enumerates its elements differently from the C-order flattenings and reshapes it is combined with (C04.R1
    scans the whole package; this is the same scan restricted to the functions of this property, reported under its own id)."""
    from . import c04
    finds = {}
    for qn, line, what in c04.nonc_orders(ctx.pkg, ctx.an):
        if not what.startswith("UNDECIDED"):
            finds.setdefault(qn.split(".<locals>")[0], (what, line))
    for qn in scope(ctx):
        bad = finds.get(qn)
        ctx.check(rule, qn + "|flattens-in-C-order", False if bad else True, "no flattening or reshaping in another order than C", fn=qn, nontrivial=False,
                  bad=("%s: the element order differs from the C-order flattenings / reshapes of the same points elsewhere" % bad[0]) if bad else "", line=bad[1] if bad else None)


SHAPE_EQUALISERS = {"verde.base.utils.check_coordinates", "verde.base.utils.n_1d_arrays", "numpy.broadcast_arrays", "numpy.meshgrid", "numpy.ravel", "numpy.atleast_1d",
                    "verde.base.utils.check_fit_input", "numpy.broadcast_to"}


def in_place_cannot_broadcast(ctx, rule="RB"):
    """`a = f(easting); a *= g(northing)`: an in-place operation writes into its LEFT operand, whose shape cannot grow.  When the left operand was
    computed from one raw element of a coordinate tuple only and the right operand from another raw element, the result has the broadcast
    shape of both only for the out-of-place form; in place it raises (or, for a scalar on the left, silently differs) for every query whose
    arrays broadcast against each other (a row against a column).  Raw = not passed through a function that equalises shapes."""
    def raw_elements(t):
        """{(param, index)} of raw elements P[i] the term depends on; None if something else array-like (another call result) is involved"""
        out = set()
        stack = [t]
        while stack:
            x = stack.pop()
            if not isinstance(x, tuple) or not x:
                continue
            if x[0] == "call" and callee(x) in SHAPE_EQUALISERS:
                return None
            if x[0] == "sub" and x[1][0] == "param" and is_const(x[2]) and isinstance(x[2][1], int):
                out.add((x[1][1], x[2][1]))
                continue
            if x[0] == "attr" and x[1] == Q.SELF:
                continue            # configuration scalars
            if x[0] == "param":
                return None
            stack.extend(e for e in x if isinstance(e, tuple))
        return out

    for qn in scope(ctx):
        fa = ctx.an.fa(qn)
        if not fa.ok:
            continue
        bad = None
        for fx in [fa] + list(fa.nested.values()):
            for p in fx.paths:
                for e in p.events:
                    if e.kind != "aug" or e.data[1] not in ("*", "+", "-", "/", "**"):
                        continue
                    tgt, val = e.data[0], e.data[2]
                    if tgt[0] not in ("call", "binop"):
                        continue
                    a, b = raw_elements(tgt), raw_elements(val)
                    if a and b and not (b <= a) and {x[0] for x in a} == {x[0] for x in b}:
                        bad = bad or ("%s is updated in place with %s: the left operand was computed from %s only and cannot take the broadcast shape of both"
                                      % (show(tgt)[:50], show(val)[:50], ", ".join("%s[%d]" % x for x in sorted(a))), e.line)
        ctx.check(rule, qn + "|in-place-updates-do-not-need-to-broadcast-the-left-operand", False if bad else True, "no in-place update whose left operand would have to be broadcast", fn=qn, nontrivial=False,
                  bad=bad[0] if bad else "", line=bad[1] if bad else None)


def popped_keywords(ctx, rule="RJ"):
    """`v = kwargs.pop("name", default)` followed by `callee(..., **kwargs)`: the popped keyword no longer travels with the spread.  When the
    callee has a parameter of that name and the call does not pass it explicitly (from the popped value), the caller's argument is silently
    dropped and the callee runs with its default."""
    for qn in scope(ctx):
        fa = ctx.an.fa(qn)
        if not fa.ok:
            continue
        bad = None
        for fx in [fa] + list(fa.nested.values()):
            for p in fx.paths:
                pops = {}
                for e in p.events:
                    if e.kind != "call":
                        continue
                    t = e.data[0]
                    if t[1][0] == "attr" and t[1][2] == "pop" and t[1][1][0] == "param" and t[1][1][1].startswith("**") and t[2] and is_const(t[2][0]) and isinstance(t[2][0][1], str):
                        pops[t[2][0][1]] = (t[1][1], t)
                        continue
                    cq = callee(t)
                    f2 = ctx.pkg.functions.get(cq) if isinstance(cq, str) else None
                    if f2 is None or not pops:
                        continue
                    spreads = [v for k, v in t[3] if k is None]
                    for name, (kwparam, popterm) in pops.items():
                        if kwparam in spreads and name in f2.params and not any(k == name for k, _v in t[3]):
                            pos = f2.call_params.index(name) if name in f2.call_params else None
                            if pos is not None and pos < len(t[2]):
                                continue
                            bad = bad or ("%r is popped from %s before %s(..., %s) is called and is not passed on: %s runs with its own default for %r whatever the caller asked for"
                                          % (name, kwparam[1], cq.rsplit(".", 1)[1], kwparam[1], cq.rsplit(".", 1)[1], name), e.line)
        ctx.check(rule, qn + "|popped-keywords-are-passed-on", False if bad else True, "no keyword is popped from **kwargs and then lost before the spread to a callee that accepts it", fn=qn, nontrivial=False,
                  bad=bad[0] if bad else "", line=bad[1] if bad else None)


LOSSY_KEY_PARTS = {"size", "shape", "ndim", "dtype"}
LOSSY_KEY_CALLS = {"mean", "std", "var", "min", "max", "sum", "len", "id", "float", "int", "round", "ptp", "median", "amin", "amax", "nanmin", "nanmax", "nanmean", "hash"}


def lossy_cache_reads(ctx, rule="RH"):
    """A result taken from a module-level container that the package itself fills (a cache) under a key built only from SUMMARIES of the
    arrays it stands for (size, shape, mean, std, min, max, id ...): finitely many statistics cannot identify an array, so a later call with
    other data and the same statistics is answered with the earlier call's result.  (A key that contains the array's bytes is not lossy.)"""
    import ast
    filled = set()
    for q, f in ctx.pkg.functions.items():
        fa = ctx.an.fa(q)
        if not fa.ok:
            continue
        for p in fa.paths:
            for e in p.events:
                if e.kind == "store" and e.data[0][0] == "glob" and e.data[0][1].startswith(ctx.pkg.name + "."):
                    filled.add(e.data[0][1])
    for qn in scope(ctx):
        fa = ctx.an.fa(qn)
        if not fa.ok:
            continue
        bad = None
        for fx in ([fa] + list(fa.nested.values())) if filled else []:
            for p in fx.paths:
                terms = [p.value] if isinstance(p.value, tuple) else []
                terms += [d for e in p.events if e.kind == "call" for d in e.data if isinstance(d, tuple)]
                for t in terms:
                    for x in walk(t):
                        if not (isinstance(x, tuple) and x and x[0] == "sub" and x[1][0] == "glob" and x[1][1] in filled):
                            continue
                        key = x[2]
                        arr_parts = [y for y in walk(key) if isinstance(y, tuple) and y and y[0] in ("param", "elem")]
                        if not arr_parts:
                            continue
                        def lossy(k):
                            if k[0] in ("const",):
                                return True
                            if k[0] == "attr" and k[2] in LOSSY_KEY_PARTS:
                                return True
                            if k[0] == "call" and str(callee(k)).rsplit(".", 1)[-1] in LOSSY_KEY_CALLS:
                                return True
                            if k[0] in ("tuple", "list"):
                                return all(lossy(i[1] if i[0] == "star" else i) for i in k[1])
                            if k[0] == "comp":
                                return lossy(k[2])
                            if k[0] == "call" and callee(k) in ("builtins.tuple", "builtins.list") and k[2]:
                                return lossy(k[2][0])
                            return False
                        if lossy(key):
                            bad = bad or ("a result is read from the module-level cache %s under a key made only of summaries of the arrays (%s): another data set with the same summaries gets the "
                                          "earlier result" % (x[1][1], show(key)[:70]), p.line)
        ctx.check(rule, qn + "|no-result-from-a-cache-keyed-by-summaries", False if bad else True, "no result is read from a module-level cache under a lossy key", fn=qn, nontrivial=False,
                  bad=bad[0] if bad else "", line=bad[1] if bad else None)


class _Sentinel:
    kind, data, line = "end", (), None


def aliased_results(ctx, rule="RX"):
    """Two cooperating sites: a package function that returns the SAME object at two positions of its result (`return a, a, b` - one name
    twice in one return statement) and a caller that modifies one of those positions in place (`x *= f`, `x += ...` on the unpacked element)
    and reads the other afterwards.  Each site looks right alone; together the second element has silently been modified as well."""
    import ast
    twins = {}          # callee -> {(i, j)} positions that are one object on some return statement
    for q, f in ctx.pkg.functions.items():
        for node in ast.walk(f.node):
            if isinstance(node, ast.Return) and isinstance(node.value, ast.Tuple):
                names = [(k, e.id) for k, e in enumerate(node.value.elts) if isinstance(e, ast.Name)]
                for a in range(len(names)):
                    for b in range(a + 1, len(names)):
                        if names[a][1] == names[b][1] and names[a][1] not in f.params:
                            twins.setdefault(q, set()).add((names[a][0], names[b][0]))
    for qn in scope(ctx):
        fa = ctx.an.fa(qn)
        if not fa.ok:
            continue
        bad = None
        for fx in ([fa] + list(fa.nested.values())) if twins else []:
            for p in fx.paths:
                touched = []        # (call term, position modified in place)
                last = _Sentinel()
                for e in list(p.events) + [last]:
                    if e.kind == "aug":
                        tgt = e.data[0]
                        if tgt[0] == "sub" and tgt[1][0] == "call" and callee(tgt[1]) in twins and is_const(tgt[2]) and isinstance(tgt[2][1], int):
                            touched.append((tgt[1], tgt[2][1], e.line))
                            continue
                    if not touched:
                        continue
                    datas = [d for d in e.data if isinstance(d, tuple)]
                    if e is last and isinstance(p.value, tuple):
                        datas.append(p.value)
                    for call_t, i, line in touched:
                        for (a, b) in twins[callee(call_t)]:
                            other = b if i == a else (a if i == b else None)
                            if other is None:
                                continue
                            ot = ("sub", call_t, const(other))
                            if any(x == ot for d in datas for x in walk(d) if isinstance(x, tuple)):
                                bad = bad or ("%s can return one and the same array at positions %d and %d; position %d is modified in place here and position %d is read afterwards"
                                              % (callee(call_t).rsplit(".", 1)[1], a, b, i, other), line)
        ctx.check(rule, qn + "|no-in-place-update-of-a-result-that-is-returned-twice", False if bad else True, "no element of a callee's result is modified in place while the callee may return the same object at another position",
                  fn=qn, nontrivial=False, bad=bad[0] if bad else "", line=bad[1] if bad else None)


def late_binding_closures(ctx, rule="RL"):
    """A lambda / nested function created once per iteration of a comprehension or loop, whose body reads the iteration variable as a free
    variable and which is kept as an element of the container being built (dict / list / set value) or appended to one, sees the LAST value
    of that variable when it is finally called: every stored function behaves like the one of the last iteration."""
    import ast

    def free_reads(fn_node):
        bound = {a.arg for a in fn_node.args.args + fn_node.args.kwonlyargs + fn_node.args.posonlyargs}
        if fn_node.args.vararg:
            bound.add(fn_node.args.vararg.arg)
        if fn_node.args.kwarg:
            bound.add(fn_node.args.kwarg.arg)
        body = fn_node.body if isinstance(fn_node.body, list) else [fn_node.body]
        out = set()
        for b in body:
            for x in ast.walk(b):
                if isinstance(x, ast.Name) and isinstance(x.ctx, ast.Load) and x.id not in bound:
                    out.add(x.id)
        return out

    def targets(t):
        return {x.id for x in ast.walk(t) if isinstance(x, ast.Name)}

    for qn in scope(ctx):
        f = ctx.pkg.functions[qn]
        bad = None
        for node in ast.walk(f.node):
            kept = []
            if isinstance(node, (ast.DictComp, ast.ListComp, ast.SetComp)):
                loopvars = set().union(*[targets(g.target) for g in node.generators])
                elts = [node.value] if isinstance(node, ast.DictComp) else [node.elt]
                for e in elts:
                    cands = [e] if isinstance(e, ast.Lambda) else ([x for x in e.elts if isinstance(x, ast.Lambda)] if isinstance(e, (ast.Tuple, ast.List)) else [])
                    kept += [(c, loopvars) for c in cands]
            elif isinstance(node, ast.For):
                loopvars = targets(node.target)
                for st in ast.walk(node):
                    if isinstance(st, ast.Assign) and isinstance(st.targets[0], ast.Subscript) and isinstance(st.value, ast.Lambda):
                        kept.append((st.value, loopvars))
                    if isinstance(st, ast.Call) and isinstance(st.func, ast.Attribute) and st.func.attr in ("append", "add", "setdefault") and st.args and isinstance(st.args[-1], ast.Lambda):
                        kept.append((st.args[-1], loopvars))
            for lam, loopvars in kept:
                late = free_reads(lam) & loopvars
                if late:
                    bad = bad or ("a lambda stored per iteration reads the iteration variable %s when it is called: every stored function uses the value of the last iteration" % sorted(late), lam.lineno)
        ctx.check(rule, qn + "|no-late-binding-closure", False if bad else True, "no function stored per iteration closes over the iteration variable", fn=qn, nontrivial=False,
                  bad=bad[0] if bad else "", line=bad[1] if bad else None)


def set_iteration_order(ctx, rule="RS"):
    """A loop or comprehension that runs over a set (set(...), a set literal / comprehension, a difference or union of sets, or a local name
    bound to one) and builds an ordered result (appends, yields, fills a list / dict) takes its order from the hash table: for strings that
    order changes from one interpreter run to the next (hash randomisation), so the same call returns differently ordered output."""
    import ast

    def is_set_expr(n, local_sets):
        if isinstance(n, (ast.Set, ast.SetComp)):
            return True
        if isinstance(n, ast.Call) and isinstance(n.func, ast.Name) and n.func.id in ("set", "frozenset"):
            return True
        if isinstance(n, ast.BinOp) and isinstance(n.op, (ast.Sub, ast.BitOr, ast.BitAnd, ast.BitXor)):
            return is_set_expr(n.left, local_sets) or is_set_expr(n.right, local_sets)
        if isinstance(n, ast.Call) and isinstance(n.func, ast.Attribute) and n.func.attr in ("difference", "union", "intersection", "symmetric_difference") and is_set_expr(n.func.value, local_sets):
            return True
        if isinstance(n, ast.Name) and n.id in local_sets:
            return True
        return False

    for qn in scope(ctx):
        f = ctx.pkg.functions[qn]
        local_sets = set()
        for n in ast.walk(f.node):
            if isinstance(n, ast.Assign) and len(n.targets) == 1 and isinstance(n.targets[0], ast.Name):
                if is_set_expr(n.value, local_sets):
                    local_sets.add(n.targets[0].id)
                elif n.targets[0].id in local_sets:
                    local_sets.discard(n.targets[0].id)
        bad = None
        for n in ast.walk(f.node):
            its = []
            if isinstance(n, ast.For):
                its = [(n.iter, n)]
            elif isinstance(n, (ast.ListComp, ast.GeneratorExp, ast.DictComp)):
                its = [(g.iter, n) for g in n.generators]
            for it, node in its:
                if is_set_expr(it, local_sets):
                    bad = bad or ("the iteration over %s builds an ordered result" % ast.unparse(it)[:50], node.lineno)
        ctx.check(rule, qn + "|no-order-taken-from-a-set", False if bad else True, "no ordered result is built by iterating over a set", fn=qn, nontrivial=False,
                  bad=(bad[0] + ": the order of a set of strings depends on the interpreter's hash seed, so repeated runs return differently ordered output (wrap it in sorted(...))") if bad else "",
                  line=bad[1] if bad else None)


MEMO_DECORATORS = ("lru_cache", "functools.lru_cache", "functools.cache", "cache", "cached_property", "functools.cached_property", "memoize", "memory.cache")


def memoised_results(ctx, rule="RM"):
    """A memoising decorator (functools.lru_cache / cache / cached_property ...) on a function makes every call with equal arguments return
    the SAME object and keeps it alive between calls.  For a function that hands out arrays or other mutable containers, what one caller does
    to its result (an in-place unit conversion, a sort) is then seen by every later caller: the result no longer depends on the arguments
    alone.  (It also turns unhashable arguments - lists, arrays - into a TypeError.)"""
    for qn in scope(ctx):
        f = ctx.pkg.functions[qn]
        memo = [d for d in f.decorators if any(d == m or d.startswith(m + "(") for m in MEMO_DECORATORS)]
        if not memo:
            ctx.check(rule, qn + "|not-memoised", True, "results are computed afresh on every call", fn=qn, nontrivial=False)
            continue
        fa = ctx.an.fa(qn)
        mutable = None
        if fa.ok:
            vals = [p.value for p in fa.paths if p.exit == "return" and isinstance(p.value, tuple)]
            immutable = lambda t: is_const(t) or (t[0] == "tuple" and all(immutable(x) for x in t[1])) or (t[0] == "call" and callee(t) in ("builtins.int", "builtins.float", "builtins.len", "builtins.round", "builtins.str", "builtins.bool"))  # noqa: E731
            mutable = not all(immutable(v) for v in vals) if vals else None
        ctx.check(rule, qn + "|not-memoised", False if mutable else None, "results are computed afresh on every call", fn=qn,
                  bad="@%s: calls with equal arguments return one and the same mutable object, kept between calls - a caller that modifies its result in place changes what every later call returns" % memo[0])


def falsy_defaults(ctx, rule="RZ"):
    """`value = parameter or DEFAULT` replaces every FALSY argument by the default, not only None.  For a parameter the docstring declares
    as a number (float / int / scalar) the legal value 0 is silently replaced (mindist=0, extra_coords=0, random_state=0 ...)."""
    import ast
    import re
    from .. import contracts
    for qn in scope(ctx):
        fa = ctx.an.fa(qn)
        if not fa.ok:
            continue
        f = ctx.pkg.functions[qn]
        docs = dict(contracts.numpydoc_params(f.docstring()))
        cdocs = contracts.numpydoc_params(ast.get_docstring(f.cls.node) or "") if f.cls is not None else {}
        bad = None
        for p in fa.paths:
            terms = [d for e in p.events for d in e.data if isinstance(d, tuple)] + ([p.value] if isinstance(p.value, tuple) else [])
            for t in terms:
                for x in walk(t):
                    if not (isinstance(x, tuple) and x and x[0] == "boolop" and x[1] == "Or" and len(x[2]) >= 2):
                        continue
                    first = x[2][0]
                    if first[0] == "param":
                        nm, entry = first[1], docs.get(first[1].lstrip("*"))
                    elif Q.is_self_attr(first):
                        nm, entry = "self." + first[2], cdocs.get(first[2])
                    elif first[0] == "sub" and is_const(first[2]):
                        # an ELEMENT of a numeric-or-tuple parameter (`pad_north, pad_east = pad` ... `pad_east or pad_north`): (5, 0) is legal
                        root = first
                        while root[0] == "sub":
                            root = root[1]
                        if root[0] in ("tuple", "list"):
                            ps_ = {x for x in walk(root) if isinstance(x, tuple) and x and x[0] == "param"}
                            root = next(iter(ps_)) if len(ps_) == 1 else root
                        if root[0] != "param":
                            continue
                        nm, entry = "%s[%s]" % (root[1], first[2][1]), docs.get(root[1].lstrip("*"))
                    else:
                        continue
                    if entry and re.search(r"\b(float|int|integer|number|scalar)\b", entry.split("\n")[0]) and not (is_const(x[2][1]) and x[2][1][1] in (0, 0.0, False)):
                        bad = bad or ("`%s or %s`: a %s of 0 is a legal value (documented as `%s`) but is replaced by the default like None" % (nm, show(x[2][1])[:30], nm, entry.split("\n")[0][:40]), p.line)
        ctx.check(rule, qn + "|zero-is-not-treated-as-missing", False if bad else True, "no numeric parameter is defaulted with `or`", fn=qn, nontrivial=False,
                  bad=bad[0] if bad else "", line=bad[1] if bad else None)
        # a loop-carried "best so far" variable that starts as None and is tested by TRUTHINESS (`if not best or x < best`): the legal value
        # 0 (a perfect score, a zero distance) counts as "nothing yet" and is overwritten by a worse candidate
        bad2 = None
        for fx in [fa] + list(fa.nested.values()):
            bare, ordered = {}, {}
            for p in fx.paths:
                for c, _v in p.conds:
                    if c[0] in ("prev", "mu") and c[3] == NONE:
                        bare[(c[1], c[2])] = p.line
                    if c[0] == "cmp" and c[1] in ("<", ">", "<=", ">="):
                        for a, b in ((c[2], c[3]), (c[3], c[2])):
                            if a[0] in ("prev", "mu") and a[3] == NONE:
                                ub = Q.unwrap(b)
                                if (ub[0] == "call" and str(callee(ub)).rsplit(".", 1)[-1] in ("abs", "absolute", "fabs", "hypot", "norm")) or (ub[0] == "binop" and ub[1] == "-"):
                                    ordered[(a[1], a[2])] = show(ub)[:50]
            for k in bare:
                if k in ordered:
                    bad2 = bad2 or ("`%s` starts as None, is compared by size with %s and is tested by truthiness: a value of exactly 0 counts as 'not set yet' and is replaced by a worse candidate"
                                    % (k[1], ordered[k]), bare[k])
        ctx.check(rule, qn + "|none-sentinel-is-not-tested-by-truthiness", False if bad2 else True, "no None-or-number sentinel is tested by truthiness", fn=qn, nontrivial=False,
                  bad=bad2[0] if bad2 else "", line=bad2[1] if bad2 else None)


def chunked_loops(ctx, rule="RC"):
    """`for k in range(n // b): ... x[k * b:(k + 1) * b] ...` visits the n // b FULL blocks only: unless the remainder is handled (a ceiling
    count, a tail slice, a test on n % b) the last n % b elements are never processed - silently, and only for sizes that are not a multiple
    of the block size."""
    import ast

    def has_floor_count(e):
        """the expression is a floor-division count: N // B, possibly inside max(1, .) / int(.)"""
        if isinstance(e, ast.BinOp) and isinstance(e.op, ast.FloorDiv):
            # ceiling idioms: -(-n // b), (n + b - 1) // b
            if isinstance(e.left, ast.UnaryOp) and isinstance(e.left.op, ast.USub):
                return None
            if isinstance(e.left, ast.BinOp) and isinstance(e.left.op, (ast.Add, ast.Sub)):
                return None
            return e
        if isinstance(e, ast.Call) and isinstance(e.func, ast.Name) and e.func.id in ("max", "int") and e.args:
            for a in e.args:
                r = has_floor_count(a)
                if r is not None:
                    return r
        return None

    for qn in scope(ctx):
        f = ctx.pkg.functions[qn]
        assigns = {}
        for n in ast.walk(f.node):
            if isinstance(n, ast.Assign) and len(n.targets) == 1 and isinstance(n.targets[0], ast.Name):
                assigns.setdefault(n.targets[0].id, []).append(n.value)
        bad = und = None
        for loop in [n for n in ast.walk(f.node) if isinstance(n, ast.For)]:
            it = loop.iter
            if not (isinstance(it, ast.Call) and isinstance(it.func, ast.Name) and it.func.id == "range" and len(it.args) == 1 and isinstance(loop.target, ast.Name)):
                continue
            cnt = it.args[0]
            if isinstance(cnt, ast.Name) and len(assigns.get(cnt.id, ())) == 1:
                cnt = assigns[cnt.id][0]
            fd = has_floor_count(cnt)
            if fd is None:
                continue
            bsrc = ast.unparse(fd.right)
            k = loop.target.id
            # a slice whose lower bound is k * b
            local = {n.targets[0].id: n.value for b in loop.body for n in ast.walk(b) if isinstance(n, ast.Assign) and len(n.targets) == 1 and isinstance(n.targets[0], ast.Name)}

            def is_kb(e):
                if isinstance(e, ast.Name) and e.id in local:
                    e = local[e.id]          # start = k * b; x[start:start + b]
                return isinstance(e, ast.BinOp) and isinstance(e.op, ast.Mult) and {ast.unparse(e.left), ast.unparse(e.right)} == {k, bsrc}
            sliced = any((isinstance(n, ast.Slice) and n.lower is not None and is_kb(n.lower)) or
                         (isinstance(n, ast.Call) and isinstance(n.func, ast.Name) and n.func.id == "slice" and n.args and is_kb(n.args[0])) for b in loop.body for n in ast.walk(b))
            if not sliced:
                continue
            inside = {id(n) for b in loop.body for n in ast.walk(b)}
            tail = any(isinstance(n, ast.Slice) and n.upper is None and n.lower is not None and id(n) not in inside for n in ast.walk(f.node))
            rem = any(isinstance(n, ast.BinOp) and isinstance(n.op, ast.Mod) and ast.unparse(n.right) == bsrc for n in ast.walk(f.node)) or \
                any(isinstance(n, ast.Call) and isinstance(n.func, ast.Name) and n.func.id == "divmod" for n in ast.walk(f.node))
            cnt_names = {ast.unparse(it.args[0]), ast.unparse(fd)}
            covered = any(isinstance(n, ast.Slice) and n.upper is None and isinstance(n.lower, ast.BinOp) and isinstance(n.lower.op, ast.Mult) and id(n) not in inside
                          and ({ast.unparse(n.lower.left), ast.unparse(n.lower.right)} & cnt_names) and bsrc in (ast.unparse(n.lower.left), ast.unparse(n.lower.right)) for n in ast.walk(f.node))
            if covered:
                continue            # x[count * b:] after the loop: the remainder is processed
            if tail or rem:
                und = und or ("blocks of %s in a loop of %s iterations with separate remainder handling" % (bsrc, ast.unparse(fd)), loop.lineno)
            else:
                bad = bad or ("the loop runs %s times over blocks [k * %s:(k + 1) * %s]: when %s is not a multiple of %s the last %s %% %s elements are never visited" % (
                    ast.unparse(fd), bsrc, bsrc, ast.unparse(fd.left), bsrc, ast.unparse(fd.left), bsrc), loop.lineno)
        ctx.check(rule, qn + "|blocked-loops-cover-the-remainder", False if bad else (None if und else True), "no blocked loop drops a remainder", fn=qn, nontrivial=False,
                  bad=bad[0] if bad else "", undecided=und[0] if und else "", line=(bad or und or (None, None))[1])


def both_neither(ctx, qn, a, b, extra_raise=lambda p: True):
    """(both, neither): does function qn reject `both a and b given` / `neither given`?  True when a raising path decides exactly that; False
    only on positive evidence - a NORMAL path on which both (neither) are decided given (missing), or on which one is decided and the other is
    never looked at, or when no decision of the function looks at either parameter; None when the guards are written in a form the recorded
    decisions do not resolve (flags collected in a tuple, a count of the given arguments, ...)."""
    from ..paths import lookup
    paths = ctx.paths(qn)

    def state(p, nm):
        return lookup(p.decided, ("cmp", "is", ("param", nm), NONE))

    def mentions(p, nm):
        return any(("param", nm) in Q.leaves(c) for c, _v in p.conds)
    both = neither = None
    for p in paths:
        if p.exit == "raise" and extra_raise(p):
            na, nb = state(p, a), state(p, b)
            if na is False and nb is False:
                both = True
            if na is True and nb is True:
                neither = True
    for p in paths:
        if not p.normal:
            continue
        na, nb = state(p, a), state(p, b)
        for y, nx, ny in ((b, na, nb), (a, nb, na)):
            if both is None and nx is False and (ny is False or not mentions(p, y)):
                both = False
            if neither is None and nx is True and (ny is True or not mentions(p, y)):
                neither = False
    if not any(mentions(p, a) or mentions(p, b) for p in paths):
        both = False if both is None else both
        neither = False if neither is None else neither
    return both, neither
