"""C09 - BlockReduce returns one correctly reduced value per non-empty block (DESIGN §4 C09)."""
from .. import q as Q
from ..paths import lookup
from ..terms import callee, canon, const, is_const, is_int, kw, show, walk, NONE
from . import common as K

EXPLANATION = ("key-format agreement between the columns written and read, loop-index alignment of weights/values/components, grouping key and default (sorted) "
               "group order, centre lookup by the sorted unique labels, drop_coords slicing, return arity, forwarding of the block geometry")
RULES = {
    "R1": "one column per data component (C-order ravel, key fmt('data{}', i)) plus 'block' = labels of block_split for the same coordinates; grouped by 'block' with default (sorted) order",
    "R2": "with weights the reduction for key fmt('data{}', i) is attach_weights(self.reduction, weights[i]) - same i - and inside it reduction(values, weights=outer[values.index])",
    "R3": "outputs are read back with the same key format for every i of data",
    "R4": "block coordinates: same grouping/reduction of the coordinate columns; with center_coordinates column i = block_coordinates[i][np.unique(labels)], i in {0, 1}; drop_coords keeps coordinates[:2]",
    "R5": "check_fit_input(..., unpack=False) dominates; spacing/shape/adjust/region are forwarded to block_split from the same-named attributes",
    "R6": "one datum returns the bare array, several a tuple",
}
ASSUMPTIONS = ["pandas: default RangeIndex, groupby sorts keys, a group's .index are original row labels (library model)", "the numeric value of the reductions is declined"]
BF = "verde.blockreduce.BlockReduce.filter"
BC = "verde.blockreduce.BlockReduce._block_coordinates"
AW = "verde.blockreduce.attach_weights"
CFI = ("call", ("glob", "verde.base.utils.check_fit_input"), (("param", "coordinates"), ("param", "data"), ("param", "weights"), const(False)), (), 0)   # canonical (all positional)


def fmt_key(t):
    """(template, index term) of a fmt('data{}', i) key"""
    if t[0] == "fmt" and len(t[2]) == 1:
        return t[1][1], t[2][0]
    if t[0] == "elem":
        # name drawn from a list of such keys: [fmt('data{}', i) for i in ...]
        seq = Q.unseq(t[1])
        if seq[0] == "comp":
            return fmt_key(seq[2])
    return None, None


def groupby_info(t):
    """(frame term, by, kwargs, aggregate arg) for frame.groupby(by).aggregate(arg) / .apply(arg)"""
    if t[0] == "call" and t[1][0] == "attr" and t[1][2] in ("aggregate", "agg", "apply") and t[1][1][0] == "call" and t[1][1][1][0] == "attr" and t[1][1][1][2] == "groupby":
        g = t[1][1]
        by = g[2][0] if g[2] else kw(g, "by")
        return g[1][1], by, dict(g[3]), (t[2][0] if t[2] else None)
    return None, None, None, None


def frame_columns(frame):
    """{kind: ...} description of a DataFrame(dict) term"""
    if frame[0] != "call" or callee(frame) != "pandas.DataFrame" or not frame[2]:
        return None
    d = frame[2][0]
    if d[0] != "dict":
        return None
    return d[1]


def r_filter(ctx):
    qn = BF
    bs = ("call", ("glob", "verde.coordinates.block_split"), (Q.sub(CFI, 0),), (("spacing", Q.self_attr("spacing")), ("shape", Q.self_attr("shape")), ("adjust", Q.self_attr("adjust")), ("region", Q.self_attr("region"))), 0)
    K.forwarding(ctx, "R5", qn, "verde.coordinates.block_split", {"spacing": Q.self_attr("spacing"), "shape": Q.self_attr("shape"), "adjust": Q.self_attr("adjust"), "region": Q.self_attr("region")})
    n = 0
    for p in ctx.paths(qn):
        if p.exit != "return":
            continue
        n += 1
        weighted = lookup(p.decided, p.conds[0][0]) is False if p.conds else None
        single = None
        for c, _v in p.conds:
            if c[0] == "cmp" and c[1] in ("==", "!=") and c[3] == const(1) and c[2][0] == "call" and callee(c[2]) == "builtins.len":
                single = lookup(p.decided, ("cmp", "==", c[2], const(1)))
        tag = "%s,%s" % ("weights" if weighted else "noweights", "single" if single else "multi")
        cfi = [e.data[0] for e in p.events if e.kind == "call" and callee(e.data[0]) == "verde.base.utils.check_fit_input"]
        ctx.check("R5", "%s|check_fit_input-unpack-False|%s" % (qn, tag), True if cfi and canon(cfi[0]) == canon(CFI) else (False if cfi and Q.arg(ctx, cfi[0], "unpack") in (None, const(True)) else None),
                  "inputs are validated with unpack=False (tuples throughout)", bad="check_fit_input is called with unpack=True: single components are not tuples", fn=qn)
        aggs = [e.data[0] for e in p.events if e.kind == "call" and e.data[0][1][0] == "attr" and e.data[0][1][2] in ("aggregate", "agg")]
        if len(aggs) != 1:
            ctx.add("R1", "%s|one-aggregate|%s" % (qn, tag), "UNDECIDED", "expected one groupby().aggregate() call", fn=qn)
            continue
        frame, by, gkw, red = groupby_info(aggs[0])
        cols = frame_columns(frame) if frame is not None else None
        if cols is None:
            ctx.add("R1", "%s|frame|%s" % (qn, tag), "UNDECIDED", "the grouped frame is not a DataFrame(dict)", fn=qn)
            continue
        ctx.check("R1", "%s|grouped-by-block|%s" % (qn, tag), True if by == const("block") else (False if is_const(by) else None), "rows are grouped by the 'block' column", bad="rows are grouped by %s" % show(by), fn=qn)
        srt = gkw.get("sort")
        ctx.check("R1", "%s|sorted-groups|%s" % (qn, tag), True if srt in (None, const(True)) else (False if srt == const(False) else None),
                  "groups come out in ascending block order (pandas default sort=True)", bad="groupby(sort=False): output order no longer matches the sorted unique labels used for the centres", fn=qn)
        blk = [v for k, v in cols if k == const("block")]
        okb = None
        if blk:
            b = blk[0]
            okb = True if b[0] == "sub" and b[2] == const(1) and b[1][0] == "call" and callee(b[1]) == "verde.coordinates.block_split" and b[1][2] and b[1][2][0] == Q.sub(cfi[0], 0) else \
                (False if b[0] == "sub" and b[2] == const(0) else None)
        ctx.check("R1", "%s|block-column-is-labels|%s" % (qn, tag), okb, "'block' holds element 1 (labels) of block_split for the validated coordinates", bad="'block' holds the block centres, not the labels", fn=qn)
        datac = [v for k, v in cols if k is None and v[0] == "comp"]
        okd = None
        wkey = None
        if datac:
            c = datac[0]
            elt = c[2]
            if elt[0] == "tuple" and len(elt[1]) == 2:
                tmpl, ix = fmt_key(elt[1][0])
                wkey = tmpl
                val = elt[1][1]
                src = Q.unwrap(val)
                iter_ok = c[3][0] == "call" and callee(c[3]) == "builtins.enumerate" and c[3][2] == (Q.sub(cfi[0], 1),)
                okd = True if tmpl and ix == ("idx", c[4]) and src == ("elem", Q.sub(cfi[0], 1), c[4]) and iter_ok else None
                from .c18 import order_args
                if order_args(val):
                    okd = False
        ctx.check("R1", "%s|data-columns|%s" % (qn, tag), okd, "column fmt('data{}', i) is the C-order ravel of data[i]", bad="data columns are not C-order ravels of the components", fn=qn)
        # reduction
        if weighted:
            okw, why = None, ""
            if red is not None and red[0] == "comp" and red[2][0] == "tuple":
                k_t, v_t = red[2][1]
                tmpl, ix = fmt_key(k_t)
                if v_t[0] == "call" and callee(v_t) == AW and len(v_t[2]) == 2:
                    w = v_t[2][1]
                    same = ix == ("idx", red[4]) and w == ("elem", Q.sub(cfi[0], 2), red[4]) and red[3][0] == "call" and callee(red[3]) == "builtins.enumerate" and red[3][2] == (Q.sub(cfi[0], 2),)
                    if same and tmpl == wkey and v_t[2][0] == Q.self_attr("reduction"):
                        okw = True
                    elif tmpl is not None and wkey is not None and tmpl != wkey:
                        okw, why = False, "reduction keys use '%s' but the columns are named '%s'" % (tmpl, wkey)
                    elif red[3][0] == "call" and callee(red[3]) == "builtins.enumerate" and red[3][2] and red[3][2][0] != Q.sub(cfi[0], 2) and Q.leaves(red[3][2][0]) == Q.leaves(Q.sub(cfi[0], 2)):
                        okw, why = False, "weights are enumerated as %s: component i gets another component's weights" % show(red[3][2][0])[:60]
            ctx.check("R2", "%s|weighted-reduction-per-component|%s" % (qn, tag), okw, "key fmt('data{}', i) -> attach_weights(self.reduction, weights[i]) with the same i", bad=why, fn=qn)
        else:
            ctx.check("R2", "%s|plain-reduction|%s" % (qn, tag), True if red == Q.self_attr("reduction") else None, "without weights the reduction is self.reduction", fn=qn)
        # read back
        v = p.value
        okr = oka = None
        if v[0] == "tuple" and len(v[1]) == 2:
            out = v[1][1]
            if single:
                oka = True if out[0] == "sub" and out[2] == const(0) else False
                out = out[1] if out[0] == "sub" else out
            else:
                oka = True if out[0] != "sub" else False
            out = Q.unseq(out)
            if out[0] == "comp":
                src = Q.unwrap(out[2])
                if src[0] == "sub" and src[1] == aggs[0]:
                    tmpl, ix = fmt_key(src[2])
                    it_ok = out[3][0] == "call" and callee(out[3]) == "builtins.enumerate" and out[3][2] == (Q.sub(cfi[0], 1),)
                    okr = True if tmpl == wkey and ix == ("idx", out[4]) and it_ok else (False if tmpl is not None and wkey is not None and tmpl != wkey else None)
            ok1 = v[1][0][0] == "call" and v[1][0][1] == ("attr", Q.SELF, "_block_coordinates")
            if ok1:
                a = v[1][0][2]
                bsx = [e.data[0] for e in p.events if e.kind == "call" and callee(e.data[0]) == "verde.coordinates.block_split"]
                okbc = len(a) == 3 and a[0] == Q.sub(cfi[0], 0) and bsx and a[1] == Q.sub(bsx[0], 0) and a[2] == Q.sub(bsx[0], 1)
                ctx.check("R4", "%s|block-coordinates-arguments|%s" % (qn, tag), True if okbc else (False if len(a) == 3 and bsx and a[1] == Q.sub(bsx[0], 1) else None),
                          "_block_coordinates receives (coordinates, block centres, labels) of the same block_split", bad="block centres and labels are swapped", fn=qn)
        ctx.check("R3", "%s|outputs-read-with-the-written-keys|%s" % (qn, tag), okr, "component i is read back as blocked[fmt('data{}', i)] for every i of data", bad="outputs are read with a different key format than the columns were written with", fn=qn)
        ctx.check("R6", "%s|single-vs-tuple|%s" % (qn, tag), oka, "one component returns the bare array, several a tuple", bad="the single/multiple component return convention is inverted", fn=qn)
    if n < 4:
        ctx.add("R1", qn + "|paths", "UNDECIDED", "expected 4 return paths (weights x single/multi), found %d" % n, fn=qn)
    # attach_weights
    fa = ctx.an.fa(AW)
    inner = fa.nested.get("weighted_reduction")
    ok = None
    if inner is not None and inner.ok:
        for p in inner.paths:
            if p.exit == "return":
                v = p.value
                w = kw(v, "weights") if v[0] == "call" else None
                good = v[0] == "call" and v[1] == ("param", "reduction") and v[2] == (("param", "values"),) and w == ("sub", ("param", "weights"), ("attr", ("param", "values"), "index"))
                ok = True if good else (False if w is None or (w is not None and w[0] == "sub" and w[2][0] == "slice") or w == ("param", "weights") else None)
    ctx.check("R2", AW + "|weights-by-row-label", ok, "the closure calls reduction(values, weights=weights[values.index]): each value meets its own weight",
              bad="weights are not selected by the group's row labels", fn=AW)


def r_block_coordinates(ctx):
    qn = BC
    n = 0
    for p in ctx.paths(qn):
        if p.exit != "return":
            continue
        n += 1
        drop = lookup(p.decided, Q.self_attr("drop_coords"))
        center = lookup(p.decided, Q.self_attr("center_coordinates"))
        tag = "%s,%s" % ("drop" if drop else "keep", "center" if center else "reduce")
        aggs = [e.data[0] for e in p.events if e.kind == "call" and e.data[0][1][0] == "attr" and e.data[0][1][2] in ("aggregate", "agg")]
        if len(aggs) != 1:
            # positive contradiction: no aggregate(self.reduction) on a path that KEEPS the extra coordinates (drop_coords False), the grouped
            # table being reduced with a fixed pandas reduction instead - the extra coordinates are then not reduced with the configured
            # reduction (on a path that drops them and replaces the horizontal ones by the block centres nothing of the reduction survives)
            fixed = [e.data[0] for e in p.events if e.kind == "call" and e.data[0][1][0] == "attr" and e.data[0][1][2] in ("mean", "median", "first", "last", "min", "max", "sum")
                     and any(x[0] == "call" and x[1][0] == "attr" and x[1][2] == "groupby" for x in walk(e.data[0][1][1]) if isinstance(x, tuple) and x)]
            if not aggs and fixed and drop is False:
                ctx.add("R4", "%s|one-aggregate|%s" % (qn, tag), "VIOLATED", "the coordinates that are kept (extra coordinates, drop_coords=False) are reduced with the fixed groupby().%s() "
                        "instead of aggregate(self.reduction)" % fixed[0][1][2], fn=qn, line=p.line)
                continue
            ctx.add("R4", "%s|one-aggregate|%s" % (qn, tag), "UNDECIDED", "expected one aggregate call", fn=qn)
            continue
        frame, by, gkw, red = groupby_info(aggs[0])
        ctx.check("R4", "%s|same-grouping|%s" % (qn, tag), True if by == const("block") and gkw.get("sort") in (None, const(True)) and red == Q.self_attr("reduction") else
                  (False if gkw.get("sort") == const(False) or (is_const(by) and by != const("block")) else None), "coordinates are grouped by 'block' and reduced with self.reduction", bad="coordinate grouping differs from the data grouping", fn=qn)
        cols = frame_columns(frame) or ()
        co = ("param", "coordinates")
        if drop:
            ks = [(fmt_key(k)[1], Q.unwrap(v)) for k, v in cols if k is not None and k[0] == "fmt"]
            ok = True if ks == [(const(0), Q.sub(co, 0)), (const(1), Q.sub(co, 1))] else (False if len(ks) == 2 and all(i is not None for i, _ in ks) else None)
            ctx.check("R4", "%s|drop_coords-keeps-first-two|%s" % (qn, tag), ok, "with drop_coords only coordinates[:2] are reduced", bad="drop_coords keeps %s" % [show(v) for _i, v in ks], fn=qn)
        else:
            c = [v for k, v in cols if k is None and v[0] == "comp"]
            ok = True if c and c[0][3][0] == "call" and callee(c[0][3]) == "builtins.enumerate" and c[0][3][2] == (co,) else (False if len([k for k, _v in cols if k is not None and k[0] == "fmt"]) == 2 else None)
            ctx.check("R4", "%s|all-coordinates-reduced|%s" % (qn, tag), ok, "without drop_coords every coordinate (including extras) is reduced", bad="extra coordinates are dropped although drop_coords is False", fn=qn)
        lab = [v for k, v in cols if k == const("block")]
        ctx.check("R4", "%s|block-column|%s" % (qn, tag), True if lab and lab[0] == ("param", "labels") else None, "'block' holds the labels", fn=qn)
        if center:
            st = [e for e in p.events if e.kind == "store" and e.data[0] == aggs[0]]
            got = {}
            for e in st:
                _t, ix = fmt_key(e.data[1])
                val = Q.unwrap(e.data[2])
                if ix is not None and is_const(ix) and val[0] == "sub" and val[1][0] == "sub" and val[1][1] == ("param", "block_coordinates") and is_int(val[1][2]):
                    u = val[2]
                    how = "?"
                    if u[0] == "call" and callee(u) == "numpy.unique" and u[2] == (("param", "labels"),):
                        how = "unique"
                    elif u == ("param", "labels"):
                        how = "labels"
                    elif u[0] == "attr" and u[2] == "index" and groupby_info(u[1])[0] is not None:
                        # index of the aggregated frame: the sorted group keys (= np.unique(labels)) unless as_index=False (then 0..n-1)
                        _f, by_, gkw_, _r = groupby_info(u[1])
                        how = "unique" if gkw_.get("as_index") in (None, const(True)) and by_ == const("block") and gkw_.get("sort") in (None, const(True)) else \
                            ("positions" if gkw_.get("as_index") == const(False) else "?")
                    got[ix[1]] = (val[1][2][1], how)
            ok = True if got == {0: (0, "unique"), 1: (1, "unique")} else (False if got and all(v[1] in ("unique", "labels", "positions") for v in got.values()) else None)
            ctx.check("R4", "%s|centres-by-sorted-unique-labels|%s" % (qn, tag), ok, "column i = block_coordinates[i][np.unique(labels)] for i in {0, 1}: the centre of that very block, in group order",
                      bad="centre coordinates are looked up as %s" % got, fn=qn)
        v = Q.unseq(p.value)
        okr = None
        if v[0] == "comp":
            src = v[2]
            if src[0] == "attr" and src[2] == "values" and src[1][0] == "sub" and src[1][1] == aggs[0]:
                _t, ix = fmt_key(src[1][2])
                okr = True if ix == ("elem", v[3], v[4]) and v[3][0] == "call" and callee(v[3]) == "builtins.range" else None
        ctx.check("R4", "%s|returns-one-array-per-coordinate|%s" % (qn, tag), okr, "returns grouped[fmt('coordinate{}', i)].values for every reduced coordinate", fn=qn)
    if n < 4:
        ctx.add("R4", qn + "|paths", "UNDECIDED", "expected 4 return paths, found %d" % n, fn=qn)


def check(ctx):
    r_filter(ctx)
    r_block_coordinates(ctx)
    # the grouping key is block_split's labels: the function is part of what this property's functions do, so the generic rules (library
    # keywords outside the model, flatten order, conversions ...) look at it under this property as well (its own rules are C08's)
    ctx.paths("verde.coordinates.block_split")
    # callee-side contracts the alignment of points, data and weights rests on (assume/guarantee): check_fit_input returns the
    # validated values unreordered and C-raveled; n_1d_arrays / kdtree number the points in the same order
    from . import c02
    ctx.alias = {"R4": "R5"}
    try:
        c02.r4_check_fit_input(ctx)
    finally:
        ctx.alias = {}
    K.point_order_contract(ctx, "R5")
