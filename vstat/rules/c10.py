"""C10 - BlockMean outputs means and [0,1] weights by the documented rule (DESIGN §4 C10)."""
from .. import q as Q
from ..effects import Effects
from ..nf import Builder, Space, Undecided, compare
from ..paths import lookup
from ..terms import callee, canon, const, is_const, is_int, kw, show, walk, NONE
from . import common as K
from .c09 import fmt_key, groupby_info, frame_columns

EXPLANATION = ("guard-polarity analysis of the three aggregation paths, reader/writer agreement of column keys and tuple positions, normal forms of the "
               "weight formulas, store analysis of variance_to_weights, and alias/effect analysis for purity")
RULES = {
    "R1": "unweighted aggregation iff any(w is None); uncertainty propagation iff weights and self.uncertainty; weighted variance iff weights and not uncertainty; uncertainty without weights raises before block_split",
    "R2": "uncertainty: weight column i reduces with 1 / x.sum(), data column i with the weighted mean using weight column i; variance read from the weight columns, mean from the data columns",
    "R3": "unweighted: (('mean', self.reduction), ('variance', np.var)) read back as [..., 'mean'] -> mean and [..., 'variance'] -> variance",
    "R4": "weighted variance: slot i <- reduction(values_i, weights_i), slot i+ncomps <- reduction((values_i - slot_i)^2, weights_i); column names and readers agree with the writer",
    "R5": "weights = variance_to_weights(np.ravel(var)) per component; return order (coordinates, mean, weights)",
    "R6": "variance_to_weights: w = min(var[var > tol]) / var where var > tol, else 1, on nan_to_num(var); output shaped like the input; array in/array out, tuple in/tuple out",
    "R7": "neither function writes a parameter-aliased array",
}
ASSUMPTIONS = ["which variance estimator pandas applies for np.var (ddof) and the arithmetic consequences 'weights in (0, 1], some weight equals 1' are declined"]
BM = "verde.blockreduce.BlockMean"
VW = "verde.utils.variance_to_weights"


def _uses_weights(t):
    """the term depends on the caller's weights: the parameter itself or the weights slot of check_fit_input (the coordinates / data slots of
    that call do not count although the weights are among its arguments)"""
    stack = [t]
    while stack:
        x = stack.pop()
        if not isinstance(x, tuple) or not x:
            continue
        if x == ("param", "weights"):
            return True
        if x[0] == "sub" and x[1][0] == "call" and callee(x[1]) == "verde.base.utils.check_fit_input" and is_const(x[2]) and x[2][1] in (0, 1):
            for a in x[1][2][:2]:
                stack.append(a)
            continue
        stack.extend(e for e in x if isinstance(e, tuple))
    return False


def r1_paths(ctx):
    qn = BM + ".filter"
    ps = ctx.paths(qn)
    seen = set()
    for p in ps:
        if p.exit == "raise":
            # the rejecting decisions: (some weight is None) and self.uncertainty, in any of their spellings
            ok = True if Q.some_none(p) is True and lookup(p.decided, Q.self_attr("uncertainty")) is True else None
            early = not any(e.kind == "call" and callee(e.data[0]) == "verde.coordinates.block_split" for e in p.events)
            ctx.check("R1", qn + "|uncertainty-without-weights-raises", True if ok and early else (False if ok and not early else None),
                      "uncertainty=True without weights raises before any blocking work", bad="the rejection happens after block_split", fn=qn)
            seen.add("raise")
            continue
        if p.exit != "return":
            continue
        aggs = [callee(e.data[0]) for e in p.events if e.kind == "call" and e.data[0][1][0] == "attr" and e.data[0][1][1] == Q.SELF and e.data[0][1][2].startswith("_blocked")]
        anyn = Q.some_none(p)
        unc = lookup(p.decided, Q.self_attr("uncertainty"))
        mentions_unc = any(isinstance(x, tuple) and x and ((x[0] == "attr" and x[2] == "uncertainty") or x == const("uncertainty")) for c, _v in p.conds for x in walk(c))
        if anyn is True and (unc is True or (unc is None and not mentions_unc)):
            # positive contradiction: uncertainty propagation requested, some weight missing, and the call returns normally
            ctx.add("R1", qn + "|uncertainty-without-weights-raises", "VIOLATED", "a path on which some weight is None returns normally whether or not self.uncertainty is set: uncertainty=True without weights "
                    "is accepted (for example weights given as a tuple of Nones)", fn=qn, line=p.line)
            seen.add("no-weights")
            continue
        if not aggs and anyn is not True and unc is not False and p.value[0] == "tuple" and len(p.value[1]) == 3 and \
                not _uses_weights(p.value[1][2]) and not _uses_weights(p.value[1][1]):
            # positive contradiction: a normal path that never looked at the weights nor at self.uncertainty and whose outputs do not depend on
            # the input weights - with weights given and uncertainty=True the output weights must be the propagated input weights
            ctx.add("R1", "%s|aggregation|%s" % (qn, Q.tags(p.conds)), "VIOLATED", "a path on which weights may be given returns data and weights that do not depend on them, without having looked at self.uncertainty "
                    "(no aggregation is called): with weights and uncertainty=True the output weights are not the propagated input weights", fn=qn, line=p.line)
            continue
        if anyn is None or (not anyn and unc is None):
            ctx.add("R1", "%s|aggregation|%s" % (qn, Q.tags(p.conds)), "UNDECIDED", "the path does not decide whether weights were given / uncertainty is set in a recognised form", fn=qn)
            continue
        want = "._blocked_mean_variance" if anyn else ("._blocked_mean_uncertainty" if unc else "._blocked_mean_variance_weighted")
        key = "no-weights" if anyn else ("weights,uncertainty" if unc else "weights,variance")
        seen.add(key)
        ctx.check("R1", "%s|aggregation|%s" % (qn, key), True if aggs == [want] else (False if len(aggs) == 1 else None),
                  "%s selects %s" % (key, want[1:]), bad="%s selects %s instead of %s" % (key, aggs, want[1:]), fn=qn)
        # R5 outputs
        v = p.value
        if v[0] == "tuple" and len(v[1]) == 3:
            mean_var = [e.data[0] for e in p.events if e.kind == "call" and callee(e.data[0]) == want]
            coordinates, data, weights = v[1]
            okw = okd = None
            if mean_var:
                mv = mean_var[0]
                w = weights[1] if weights[0] == "sub" and weights[2] == const(0) else weights
                w = Q.unseq(w)
                if w[0] == "comp" and w[2][0] == "call" and callee(w[2]) == VW:
                    src = Q.unwrap(w[2][2][0]) if w[2][2] else None
                    okw = True if w[3] == Q.sub(mv, 1) and src == ("elem", w[3], w[4]) else (False if w[3] == Q.sub(mv, 0) else None)
                d = data[1] if data[0] == "sub" and data[2] == const(0) else data
                d = Q.unseq(d)
                if d[0] == "comp":
                    okd = True if d[3] == Q.sub(mv, 0) and Q.unwrap(d[2]) == ("elem", d[3], d[4]) else (False if d[3] == Q.sub(mv, 1) else None)
            ctx.check("R5", "%s|weights-from-variance|%s" % (qn, key), okw, "output weights = variance_to_weights(np.ravel(var)) for each variance (second result of the aggregation)",
                      bad="output weights are computed from the means", fn=qn)
            ctx.check("R5", "%s|data-from-mean|%s" % (qn, key), okd, "output data = raveled means (first result of the aggregation)", bad="output data are the variances", fn=qn)
            ctx.check("R5", "%s|coordinates-first|%s" % (qn, key), True if coordinates[0] == "call" and coordinates[1] == ("attr", Q.SELF, "_block_coordinates") else None, "block coordinates come first", fn=qn)
        else:
            ctx.add("R5", "%s|returns-three|%s" % (qn, key), "VIOLATED" if v[0] == "tuple" else "UNDECIDED", "filter returns %d values" % (len(v[1]) if v[0] == "tuple" else -1), fn=qn)
    for need in ("raise", "no-weights", "weights,uncertainty", "weights,variance"):
        if need not in seen:
            ctx.add("R1", "%s|path|%s" % (qn, need), "VIOLATED" if need != "raise" else "VIOLATED", "no %s path exists in BlockMean.filter" % need, fn=qn)
    K.forwarding(ctx, "R1", qn, "verde.coordinates.block_split", {"spacing": Q.self_attr("spacing"), "shape": Q.self_attr("shape"), "adjust": Q.self_attr("adjust"), "region": Q.self_attr("region")})
    # constructor wiring
    init = BM + ".__init__"
    sup = [e.data[0] for p in ctx.paths(init) for e in p.events if e.kind == "call" and callee(e.data[0]) == ".__init__"]
    red = kw(sup[0], "reduction") if sup else None
    ctx.check("R1", init + "|reduction-is-np.average", True if red == ("glob", "numpy.average") else (False if red is not None and red[0] == "glob" else None),
              "the block reduction is np.average (accepts weights=)", bad="the reduction is %s" % (show(red) if red else None), fn=init)


def r2_uncertainty(ctx):
    qn = BM + "._blocked_mean_uncertainty"
    for p in ctx.paths(qn):
        if p.exit != "return":
            continue
        v = p.value
        if v[0] != "tuple" or len(v[1]) != 2:
            ctx.add("R2", qn + "|returns-(mean, variance)", "UNDECIDED", "unexpected return", fn=qn)
            continue
        aggs = [e.data[0] for e in p.events if e.kind == "call" and e.data[0][1][0] == "attr" and e.data[0][1][2] in ("aggregate", "agg")]
        if len(aggs) != 1:
            ctx.add("R2", qn + "|one-aggregate", "UNDECIDED", "expected one aggregate", fn=qn)
            continue
        frame, by, gkw, red = groupby_info(aggs[0])
        ctx.check("R2", qn + "|grouped-by-block", True if frame == ("param", "table") and by == const("block") and gkw.get("sort") in (None, const(True)) else (False if gkw.get("sort") == const(False) else None),
                  "the table is grouped by 'block' in sorted order", bad="grouping differs", fn=qn)
        dred = wred = None
        if red is not None and red[0] == "dict":
            for k, c in red[1]:
                if k is None and c[0] == "comp" and c[2][0] == "tuple":
                    tmpl, ix = fmt_key(c[2][1][0])
                    if tmpl and tmpl.startswith("data"):
                        dred = (c, ix, c[2][1][1])
                    elif tmpl and tmpl.startswith("weight"):
                        wred = (c, ix, c[2][1][1])
        ok = why = None
        if dred:
            c, ix, val = dred
            if val[0] == "call" and callee(val) == "verde.blockreduce.attach_weights" and len(val[2]) == 2:
                w = val[2][1]
                wt, wix = fmt_key(w[2]) if w[0] == "sub" and w[1] == ("param", "table") else (None, None)
                lids = lambda t: {x[2] for x in walk(t) if isinstance(x, tuple) and x and x[0] == "elem"}
                # two index terms are definitely different only when they are read in the same loop(s) (or are constants); indices of two
                # separate loops over the same range may well be in step (zip)
                differ = wix != ix and wix is not None and ix is not None and lids(wix) == lids(ix)
                ok = True if wt and wt.startswith("weight") and wix == ix and val[2][0] == Q.self_attr("reduction") else (False if wt and (not wt.startswith("weight") or differ) else None)
                why = "data column i is averaged with column %s[%s]" % (wt, show(wix) if wix else None)
        ctx.check("R2", qn + "|data-weighted-by-own-weights", ok, "data column i is the weighted mean using weight column i", bad=why or "", fn=qn)
        okw = None
        if wred:
            c, ix, val = wred
            if val[0] == "lambda":
                sp = Space()
                try:
                    got = Builder(sp).nf(val[2])
                    x = ("lparam", val[1][0])
                    want = Builder(sp).nf(("binop", "/", const(1), ("call", ("attr", x, "sum"), (), (), 0)))
                    okw = compare(sp, got, want)
                except Undecided:
                    okw = None
        ctx.check("R2", qn + "|weight-column-is-1/sum", okw, "weight column i is reduced with 1 / sum(weights): the propagated variance of the weighted mean",
                  bad="the weight column is reduced with %s" % (show(wred[2])[:60] if wred else None), fn=qn)
        mean, var = (Q.unseq(x) for x in v[1])
        okm = okv = None
        for nm, t in (("mean", mean), ("variance", var)):
            if t[0] == "comp" and t[2][0] == "sub" and t[2][1] == aggs[0]:
                tmpl, _ix = fmt_key(t[2][2])
                if nm == "mean":
                    okm = True if tmpl and tmpl.startswith("data") else (False if tmpl and tmpl.startswith("weight") else None)
                else:
                    okv = True if tmpl and tmpl.startswith("weight") else (False if tmpl and tmpl.startswith("data") else None)
        ctx.check("R2", qn + "|mean-from-data-columns", okm, "the mean is read from the data columns", bad="the mean is read from the weight columns", fn=qn)
        ctx.check("R2", qn + "|variance-from-weight-columns", okv, "the variance is read from the weight columns", bad="the variance is read from the data columns", fn=qn)


def r3_unweighted(ctx):
    qn = BM + "._blocked_mean_variance"
    for p in ctx.paths(qn):
        if p.exit != "return":
            continue
        v = p.value
        aggs = [e.data[0] for e in p.events if e.kind == "call" and e.data[0][1][0] == "attr" and e.data[0][1][2] in ("aggregate", "agg")]
        if v[0] != "tuple" or len(v[1]) != 2 or len(aggs) != 1:
            fa_ = K.first_appearance_numbering(p)
            if fa_ is not None:
                ctx.add("R3", qn + "|structure", "VIOLATED", "block results are numbered in order of first appearance (%s) while the block coordinates follow the sorted block labels: "
                        "means and variances are attached to the wrong blocks unless the points arrive in block order" % show(fa_)[:50], fn=qn)
            else:
                ctx.add("R3", qn + "|structure", "UNDECIDED", "unexpected structure", fn=qn)
            continue
        frame, by, gkw, red = groupby_info(aggs[0])
        named = None
        if red is not None and red[0] == "comp" and red[2][0] == "tuple" and red[2][1][1][0] == "tuple":
            named = {k[1][0][1]: k[1][1] for k in red[2][1][1][1] if k[0] == "tuple" and is_const(k[1][0])}
        ok = True if named == {"mean": Q.self_attr("reduction"), "variance": ("glob", "numpy.var")} else (False if named and set(named) == {"mean", "variance"} else None)
        ctx.check("R3", qn + "|named-aggregations", ok, "'mean' -> self.reduction and 'variance' -> np.var", bad="the named aggregations are %s" % ({k: show(x) for k, x in (named or {}).items()}), fn=qn)
        for i, nm in ((0, "mean"), (1, "variance")):
            t = Q.unseq(v[1][i])
            okr = None
            if t[0] == "comp" and t[2][0] == "sub" and t[2][1] == aggs[0] and t[2][2][0] == "tuple" and len(t[2][2][1]) == 2:
                okr = True if t[2][2][1][1] == const(nm) else (False if is_const(t[2][2][1][1]) else None)
            ctx.check("R3", "%s|%s-reads-%s" % (qn, nm, nm), okr, "result #%d is read from the '%s' aggregation" % (i, nm), bad="result #%d (%s) is read from the other aggregation" % (i, nm), fn=qn)


def r4_weighted(ctx):
    qn = BM + "._blocked_mean_variance_weighted"
    fa = ctx.an.fa(qn)
    inner = fa.nested.get("weighted_average_variance") if fa.ok else None
    if inner is None or not inner.ok:
        ctx.add("R4", qn + "|closure", "UNDECIDED", "nested weighted_average_variance not analysable", fn=qn)
        return
    for p in inner.paths:
        if p.exit != "return":
            continue
        st = [e for e in p.events if e.kind == "store" and e.data[0][0] == "call" and callee(e.data[0]) in ("numpy.empty", "numpy.zeros")]
        slots = {}
        for e in st:
            idx, val = e.data[1], e.data[2]
            off = "i+ncomps" if idx[0] == "binop" and idx[1] == "+" and ("param", "ncomps") in Q.leaves(idx) else ("i" if idx[0] == "elem" else "?")
            slots[off] = (idx, val, e.data[0])
        ok_m = ok_v = None
        why_v = "the weighted variance is not the weighted mean of squared deviations from slot i"
        if "i" in slots:
            idx, val, buf = slots["i"]
            g = ("param", "group")
            if val[0] == "call" and val[1] == Q.self_attr("reduction") and len(val[2]) == 1:
                vt, vi = fmt_key(val[2][0][2]) if val[2][0][0] == "sub" and val[2][0][1] == g else (None, None)
                w = kw(val, "weights")
                wt, wi = fmt_key(w[2]) if w is not None and w[0] == "sub" and w[1] == g else (None, None)
                ok_m = True if vt and vt.startswith("data") and wt and wt.startswith("weight") and vi == wi == idx else (False if (wt and vi != wi) or w is None else None)
        ctx.check("R4", qn + "|slot-i-weighted-mean", ok_m, "slot i = reduction(data_i, weights=weight_i)", bad="the mean of component i uses another component's weights / no weights", fn=qn)
        if "i+ncomps" in slots and "i" in slots:
            idx, val, buf = slots["i+ncomps"]
            i_t = slots["i"][0]
            if val[0] == "call" and val[1] == Q.self_attr("reduction") and len(val[2]) == 1:
                a = val[2][0]
                w = kw(val, "weights")
                wt, wi = fmt_key(w[2]) if w is not None and w[0] == "sub" else (None, None)
                sq = a[0] == "binop" and a[1] == "**" and a[3] == const(2)
                inner_ok = sq and a[2][0] == "binop" and a[2][1] == "-" and a[2][3] == ("sub", buf, i_t) and a[2][2][0] == "sub" and fmt_key(a[2][2][2])[1] == i_t and (fmt_key(a[2][2][2])[0] or "").startswith("data")
                ok_v = True if inner_ok and wt and wt.startswith("weight") and wi == i_t else (False if sq is False or (wt and wi != i_t) or w is None else None)
                # deviations about another slot of the same buffer (a constant index, i + ncomps, ...) are about another component's mean
                if ok_v is None and sq and a[2][0] == "binop" and a[2][1] == "-" and a[2][3][0] == "sub" and a[2][3][1] == buf and a[2][3][2] != i_t:
                    ok_v, why_v = False, "the deviations of component i are taken about slot %s of the buffer, not about its own mean (slot i)" % show(a[2][3][2])
                elif ok_v is None and sq and a[2][0] == "binop" and a[2][1] == "-" and a[2][2][0] == "sub" and a[2][2][1] == ("param", "group") and a[2][3] == ("sub", buf, i_t) \
                        and fmt_key(a[2][2][2])[1] is not None and fmt_key(a[2][2][2])[1] != i_t:
                    ok_v, why_v = False, "the deviations of component i use the values of another component"
        ctx.check("R4", qn + "|slot-i+ncomps-weighted-variance", ok_v, "slot i+ncomps = reduction((data_i - slot_i)**2, weights=weight_i)",
                  bad=why_v, fn=qn)
    # column names and readers
    for p in fa.paths:
        if p.exit != "return":
            continue
        v = p.value
        ok = None
        if v[0] == "tuple" and len(v[1]) == 2:
            m, var = (Q.unseq(x) for x in v[1])

            def reads(t):
                if t[0] == "comp" and t[3][0] == "sub" and t[3][2][0] == "slice":
                    s = t[3][2]
                    return "first" if s[1] == NONE and s[2] == ("param", "ncomps") else ("second" if s[1] == ("param", "ncomps") and s[2] == NONE else "?")
                return None
            rm, rv = reads(m), reads(var)
            ok = True if (rm, rv) == ("first", "second") else (False if (rm, rv) == ("second", "first") else None)
            cols = m[3][1] if m[0] == "comp" and m[3][0] == "sub" else None
            okc = None
            if cols is not None and cols[0] == "list" and len(cols[1]) == 2:
                t0 = fmt_key(cols[1][0][1][2])[0] if cols[1][0][0] == "star" and cols[1][0][1][0] == "comp" else None
                t1 = fmt_key(cols[1][1][1][2])[0] if cols[1][1][0] == "star" and cols[1][1][1][0] == "comp" else None
                okc = True if t0 and t1 and t0.startswith("mean") and t1.startswith("variance") else (False if t0 and t1 else None)
            ctx.check("R4", qn + "|column-names-mean-then-variance", okc, "columns are named mean0.. then variance0.., matching slots [:ncomps] / [ncomps:]", bad="column names are in the opposite order of the slots", fn=qn)
        ctx.check("R4", qn + "|readers-match-writer", ok, "means are read from columns[:ncomps], variances from columns[ncomps:]", bad="means and variances are read from the wrong halves", fn=qn)


def r6_variance_to_weights(ctx):
    qn = VW
    n = 0
    for p in ctx.paths(qn):
        if p.exit != "return":
            continue
        n += 1
        nz = any(c[0] == "call" and callee(c) == "numpy.any" and v for c, v in p.conds)
        single = None
        for c, _v in p.conds:
            if c[0] == "cmp" and c[3] == const(1) and c[2][0] == "call" and callee(c[2]) == "builtins.len":
                single = lookup(p.decided, ("cmp", "==", c[2], const(1)))
        tag = "%s,%s" % ("nonzero" if nz else "allzero", "single" if single else "tuple")
        ones = [e.data[0] for e in p.events if e.kind == "call" and callee(e.data[0]) in ("numpy.ones_like", "numpy.ones")]
        if len(ones) != 1:
            ctx.add("R6", "%s|weights-start-at-one|%s" % (qn, tag), "VIOLATED" if any(callee(e.data[0]) in ("numpy.zeros_like", "numpy.empty_like") for e in p.events if e.kind == "call") else "UNDECIDED",
                    "weights are not initialised with ones (variances at or below tol must get weight 1)", fn=qn)
            continue
        w = ones[0]
        var = w[2][0] if w[2] else None
        clean = var is not None and var[0] == "call" and callee(var) == "numpy.nan_to_num" and Q.unwrap(var[2][0], funcs={"numpy.atleast_1d"}) == ("elem", ("call", ("glob", "verde.base.utils.check_data"), (("param", "variance"),), (), 0), var[2][0][2][0][2] if var[2][0][0] == "call" and var[2][0][2] and var[2][0][2][0][0] == "elem" else None)
        ctx.check("R6", "%s|weights-start-at-one|%s" % (qn, tag), True, "weights start as ones shaped like the (NaN-cleaned) variance", fn=qn)
        ctx.check("R6", "%s|nan-to-zero|%s" % (qn, tag), True if var is not None and var[0] == "call" and callee(var) == "numpy.nan_to_num" else
                  (False if var is not None and ("param", "variance") in Q.leaves(var) and not any(e.kind == "call" and callee(e.data[0]) in ("numpy.isnan", "numpy.nan_to_num", "numpy.isfinite") for e in p.events) else None),
                  "NaN variances are turned into 0 (hence weight 1)", bad="NaNs are not cleaned: NaN variances give NaN weights", fn=qn)
        st = [e for e in p.events if e.kind == "store" and e.data[0] == w]
        dt = kw(w, "dtype")
        if dt is None and callee(w) == "numpy.ones" and len(w[2]) > 1:
            dt = w[2][1]
        inherits = dt is None and callee(w) == "numpy.ones_like"
        okd = True if dt == ("param", "dtype") else None
        whyd = ""
        if inherits and any(any(x[0] == "binop" and x[1] == "/" for x in walk(e.data[2])) for e in st):
            okd, whyd = False, "the buffer %s inherits the dtype of the variances, and the ratio min(var)/var is stored into it: integer variances truncate every weight to 0 or 1" % show(w)[:50]
        elif dt is not None and is_const(dt) and dt != const("float64"):
            okd, whyd = False, "the weights buffer has the fixed dtype %s, the dtype argument is ignored" % show(dt)
        ctx.check("R6", "%s|dtype-forwarded|%s" % (qn, tag), okd, "the weights are computed in a buffer of the requested dtype", bad=whyd, fn=qn)
        if nz:
            ok, why = None, ""
            if len(st) == 1:
                mask, val = st[0].data[1], st[0].data[2]
                okm = mask[0] == "cmp" and mask[1] == ">" and mask[2] == var and mask[3] == ("param", "tol")
                strict_bad = mask[0] == "cmp" and mask[1] in (">=", "<", "<=") and mask[2] == var
                sel = ("sub", var, mask)
                if okm and val[0] == "binop" and val[1] == "/" and Q.minmax_of(val[2]) == ("min", sel) and val[3] == sel:
                    ok = True
                elif strict_bad:
                    ok, why = False, "the tolerance test is %s (documented: variance > tol)" % mask[1]
                elif okm and val[0] == "binop" and val[1] == "/":
                    num, den = val[2], val[3]
                    if num == sel and Q.minmax_of(den) is not None:
                        ok, why = False, "weights are var / %s(var) (inverted)" % Q.minmax_of(den)[0]
                    elif Q.minmax_of(num) is not None and Q.minmax_of(num)[0] == "max":
                        ok, why = False, "weights use the largest variance in the numerator"
                    elif Q.minmax_of(num) == ("min", var):
                        ok, why = False, "the minimum is taken over all variances including those at or below tol (can be 0)"
            ctx.check("R6", "%s|formula|%s" % (qn, tag), ok, "w[var > tol] = var[var > tol].min() / var[var > tol]", bad=why, fn=qn, undecided="store into the weights not recognised")
        else:
            ctx.check("R6", "%s|all-at-or-below-tol-keep-one|%s" % (qn, tag), True if not st else False, "when no variance exceeds tol every weight stays 1", bad="weights are modified although no variance exceeds tol", fn=qn)
        v = p.value
        is_tuple = v[0] == "tuple" or (v[0] == "comp" and v[1] == "tuple") or (v[0] == "call" and callee(v) == "builtins.tuple")
        is_list = v[0] == "list" or (v[0] == "comp" and v[1] in ("list", "gen"))
        if single is True:
            ok = True if v[0] == "sub" and v[2] == const(0) else (False if is_tuple or is_list else None)
            ctx.check("R6", "%s|single-array-out|%s" % (qn, tag), ok, "one array in gives one array out", bad="a single variance array returns a sequence", fn=qn)
        elif single is False:
            ok = True if is_tuple else (False if is_list or (v[0] == "sub" and is_const(v[2])) else None)
            ctx.check("R6", "%s|tuple-out|%s" % (qn, tag), ok, "several arrays in give a tuple out", bad="several variance arrays do not return a tuple", fn=qn)
    if n < 4:
        ctx.add("R6", qn + "|paths", "UNDECIDED", "expected 4 return paths, found %d" % n, fn=qn)


def r7_purity(ctx):
    ef = Effects(ctx.an)
    for qn in (VW, BM + ".filter", "verde.blockreduce.BlockReduce.filter"):
        w = ef.writes.get(qn, {})
        if w:
            a, (how, line) = sorted(w.items())[0]
            ctx.add("R7", qn + "|purity", "VIOLATED", "writes through an alias of parameter '%s': %s" % (a, how), fn=qn, line=line)
        else:
            ctx.add("R7", qn + "|purity", "DISCHARGED", "no store, out=, copy=False or mutating call reaches an alias of a parameter", fn=qn)


def check(ctx):
    from . import c02
    ctx.alias = {"R4": "R1"}          # check_fit_input contract (values, weights unreordered and C-raveled) re-checked under C10.R1
    try:
        c02.r4_check_fit_input(ctx)
    finally:
        ctx.alias = {}
    r1_paths(ctx)
    r2_uncertainty(ctx)
    r3_unweighted(ctx)
    r4_weighted(ctx)
    r6_variance_to_weights(ctx)
    r7_purity(ctx)
