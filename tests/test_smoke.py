"""Smoke tests of the analyser (run by MANIFEST.setup_cmd)."""
import pathlib
import sys
import unittest

sys.path.insert(0, str(pathlib.Path(__file__).resolve().parent.parent))


class Smoke(unittest.TestCase):
    def test_terms(self):
        from vstat.terms import mk_sub, const, fold_bin
        t = ("tuple", (const(1), const(2), const(3)))
        self.assertEqual(mk_sub(t, const(-1)), const(3))
        self.assertEqual(fold_bin("+", const(2), const(3)), const(5))

    def test_controls_parse(self):
        from vstat.loader import Package
        from vstat.paths import Analysis
        pkg = Package(pathlib.Path(__file__).resolve().parent.parent / "fixtures" / "controls", name="controls")
        an = Analysis(pkg)
        self.assertTrue(all(fa.ok for _q, fa in an.all()))

    def test_specs_parse(self):
        from vstat import spec
        self.assertTrue(spec.paths("kernels.biharmonic"))


if __name__ == "__main__":
    unittest.main()
