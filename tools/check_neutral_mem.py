"""Fast regression over the filed behaviour-preserving rewrites (neutral/*/patch.diff): each is applied IN MEMORY to /repo's current source and
all twenty quick checks run on it; any VIOLATION is a false alarm.  tools/check_neutral.py (which really applies the patches) is authoritative.
Usage: /venv/bin/python tools/check_neutral_mem.py"""
import sys, glob, multiprocessing as mp
sys.path.insert(0, '/verif'); sys.path.insert(0, '/verif/tools')
import try_mem
def one(path):
    try:
        res = try_mem.run(path, None, 3)
    except Exception as e:
        return path, "ERR " + repr(e)[:200]
    v = {p: r["reports"][:2] for p, r in res.items() if r["exit"] == 1}
    return path, v
if __name__ == "__main__":
    pats = sorted(glob.glob('/verif/neutral/*/patch.diff'))
    bad = 0
    with mp.Pool(10) as pool:
        for path, v in pool.imap_unordered(one, pats):
            if v:
                bad += 1
                print(path, v)
    print("neutral rewrites:", len(pats), "false alarms:", bad)
    sys.exit(1 if bad else 0)
