"""Apply a seeded change to /repo, run every quick check, undo the change, print which checks reported what.
Usage: /venv/bin/python tools/try_seeded.py <patch.diff> [--keep-json out.json]"""
import json
import pathlib
import subprocess
import sys

VERIF = pathlib.Path(__file__).resolve().parent.parent
sys.path.insert(0, str(VERIF))


def main():
    patch = sys.argv[1]
    out = sys.argv[3] if len(sys.argv) > 3 and sys.argv[2] == "--keep-json" else None
    st = subprocess.run(["git", "-C", "/repo", "status", "--porcelain"], capture_output=True, text=True).stdout.strip()
    if st:
        print("refusing: /repo has uncommitted changes:\n" + st)
        return 3
    r = subprocess.run(["git", "-C", "/repo", "apply", patch], capture_output=True, text=True)
    if r.returncode:
        print("patch does not apply:", r.stderr.strip())
        return 3
    res = {}
    try:
        from vstat import report
        for i in range(1, 21):
            pid = "C%02d" % i
            code, ctx, lines = report.run_property(pid, "quick", write=False, quiet=True)
            hits = [ln.strip() for ln in lines if ln.startswith(("  C", "ANALYSIS"))]
            if code:
                res[pid] = {"exit": code, "reports": hits[:6]}
    finally:
        subprocess.run(["git", "-C", "/repo", "checkout", "--", "."], check=True)
    for pid, r_ in res.items():
        print(pid, "exit", r_["exit"])
        for h in r_["reports"]:
            print("   ", h[:230])
    if not res:
        print("NOT DETECTED by any check")
    if out:
        pathlib.Path(out).write_text(json.dumps(res, indent=1))
    return 0


if __name__ == "__main__":
    sys.exit(main())
