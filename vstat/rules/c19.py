"""C19 - load_surfer returns the file's grid faithfully or refuses it (DESIGN §4 C19)."""
from .. import q as Q
from ..paths import lookup
from ..terms import callee, canon, const, is_const, is_int, kw, show, walk, NONE
from . import common as K

EXPLANATION = ("resource pairing over all paths including the exceptional one (open/close), call-instance ordinals of readline() for the header line order, "
               "role/axis typing of shape/region/coordinates, dominance of the integrity check over the DataArray construction, literal threshold/operator checks")
RULES = {
    "R1": "the handle is opened only for paths; every path from open to any exit (normal or exceptional) passes close(); a caller's file object is never closed; nothing that can raise lies between open and try",
    "R2": "header: line 1 id, line 2 (n_north, n_east) as ints, line 3 (south, north), line 4 (west, east), line 5 data range; region assembled as (W, E, S, N)",
    "R3": "body read with np.loadtxt(handle, dtype=dtype) after the header; blanks are field >= 1.70141e38 and are masked",
    "R4": "_check_surfer_integrity(field, shape, data_range) dominates the DataArray construction; shape and range mismatches each raise IOError",
    "R5": "dims ('northing', 'easting'); northing = linspace(S, N, shape[0]), easting = linspace(W, E, shape[1]); attrs carry the id and, for paths, the file name",
}
ASSUMPTIONS = ["numpy's parsing of whitespace/number formats and np.allclose's tolerance are library semantics (declined)"]
LS, HD, IC = "verde.io.load_surfer", "verde.io._read_surfer_header", "verde.io._check_surfer_integrity"


def ords(t, handle=None):
    return sorted({x[4] for x in walk(t) if x[0] == "call" and x[1][0] == "attr" and x[1][2] == "readline"})


def r1_pairing(ctx):
    qn = LS
    ps = ctx.paths(qn)
    n_open = 0
    with_managed = False
    for p in ps:
        opens = [(i, e) for i, e in enumerate(p.events) if e.kind == "call" and callee(e.data[0]) in ("builtins.open", "io.open")]
        ispath = None
        for c, v in p.conds:
            if any(x[0] == "call" and callee(x) == "builtins.hasattr" and x[2] and x[2][0] == ("param", "fname") for x in walk(c)):
                hv = lookup(p.decided, ("call", ("glob", "builtins.hasattr"), (("param", "fname"), const("readline")), (), 0))
                ispath = (not hv) if hv is not None else None
                break
        kind = "exception" if any(e.kind == "exception" for e in p.events) else p.exit
        tag = "%s,%s" % ("path" if ispath else "fileobj" if ispath is False else "?", kind)
        closes = [(i, e) for i, e in enumerate(p.events) if e.kind == "call" and callee(e.data[0]) == ".close"]
        if opens:
            n_open += 1
            i0, e0 = opens[0]
            h = e0.data[0]
            ctx.check("R1", "%s|opens-only-paths|%s" % (qn, tag), True if ispath is True else (False if ispath is False else None), "open() is reached only when fname has no readline",
                      bad="open() is called although fname is already a file object", fn=qn, line=e0.line)
            after = [c for i, c in closes if i > i0 and c.data[0][1][1] == h]
            # `with open(...) as f:` closes the handle on every way out of the block, exceptions included (language semantics)
            managed = any(e.kind == "with-enter" and e.data[0] == h for e in p.events)
            with_managed = with_managed or managed
            ctx.check("R1", "%s|close-on-every-exit|%s" % (qn, tag), True if after or managed else False, "the opened handle is closed before this exit",
                      bad="a path from open() to a %s exit never closes the handle" % kind, fn=qn, line=e0.line)
            tr = Q.first_index(p, lambda e: e.kind == "try-enter")
            between = [e for e in p.events[i0 + 1: tr if tr is not None else len(p.events)] if e.kind == "call"]
            ctx.check("R1", "%s|nothing-raises-between-open-and-try|%s" % (qn, tag), True if managed else ((False if between else True) if tr is not None else False),
                      "no call lies between open() and the try block", bad="%s can raise after open() and before the try: the handle leaks" % (callee(between[0].data[0]) if between else "code outside any try"), fn=qn)
        else:
            bad = [c for _i, c in closes if ("param", "fname") in Q.leaves(c.data[0][1][1])]
            ctx.check("R1", "%s|callers-file-not-closed|%s" % (qn, tag), False if bad else True, "a file object given by the caller is not closed",
                      bad="the caller's file object is closed", fn=qn, line=bad[0].line if bad else None)
    if n_open < 2 and not with_managed:
        ctx.add("R1", qn + "|open-paths", "UNDECIDED", "expected a normal and an exceptional path through open()", fn=qn)
    exc = [p for p in ps if any(e.kind == "exception" for e in p.events)]
    ctx.check("R1", qn + "|exceptional-path-analysed", True if exc or with_managed else False, "the try has a finally block (an exceptional path through it exists)",
              bad="there is no finally block: an exception in the body skips close()", fn=qn)


def _regex_tokeniser(ctx, qn, it):
    """the constant pattern when `it` is PATTERN.findall(record) / re.findall(pattern, record) - directly or inside a package helper the
    rules cannot name (looked at through its own return value); else None"""
    import ast
    mod = ctx.pkg.functions[qn].module

    def const_pattern(node):
        if isinstance(node, ast.Constant) and isinstance(node.value, str):
            return node.value
        if isinstance(node, ast.Name):
            for st in mod.tree.body:
                if isinstance(st, ast.Assign) and any(isinstance(t, ast.Name) and t.id == node.id for t in st.targets):
                    v = st.value
                    if isinstance(v, ast.Call) and ast.unparse(v.func) in ("re.compile", "compile") and v.args:
                        return const_pattern(v.args[0])
                    return const_pattern(v)
        return None

    def from_function(fnode):
        for n in ast.walk(fnode):
            if isinstance(n, ast.Call) and isinstance(n.func, ast.Attribute) and n.func.attr in ("findall", "finditer"):
                if ast.unparse(n.func.value) == "re" and n.args:
                    return const_pattern(n.args[0])
                return const_pattern(n.func.value)
        return None
    for x in walk(it):
        if isinstance(x, tuple) and x and x[0] == "call" and x[1][0] == "attr" and x[1][2] in ("findall", "finditer") and x[1][1][0] == "glob":
            return const_pattern(ast.Name(id=x[1][1][1].rsplit(".", 1)[-1]))
        if isinstance(x, tuple) and x and x[0] == "call" and x[1][0] == "glob" and x[1][1].rsplit(".", 1)[-1] in ("findall", "finditer") and x[1][1].startswith(ctx.pkg.name + "."):
            return const_pattern(ast.Name(id=x[1][1].rsplit(".", 2)[-2]))
        if isinstance(x, tuple) and x and x[0] == "call" and x[1] in (("glob", "re.findall"), ("glob", "re.finditer")) and x[2] and is_const(x[2][0]) and isinstance(x[2][0][1], str):
            return x[2][0][1]
    if it[0] == "call":
        cq = callee(it)
        f2 = ctx.pkg.functions.get(cq) if isinstance(cq, str) else None
        if f2 is not None:
            return from_function(f2.node)
    return from_function(ctx.pkg.functions[qn].node)


def r2_header(ctx):
    qn = HD
    for p in ctx.paths(qn):
        if p.exit != "return":
            continue
        v = p.value
        if v[0] != "tuple" or len(v[1]) != 4:
            ctx.add("R2", qn + "|returns-four", "VIOLATED" if v[0] == "tuple" else "UNDECIDED", "the header reader returns %d values instead of (id, shape, region, range)" % (len(v[1]) if v[0] == "tuple" else -1), fn=qn)
            continue
        gid, shape, region, rng = v[1]
        ctx.check("R2", qn + "|id-is-line-1", True if ords(gid) == [0] else (False if ords(gid) else None), "the grid id is the first line", bad="the grid id comes from line(s) %s" % [o + 1 for o in ords(gid)], fn=qn)
        ctx.check("R2", qn + "|id-stripped", True if gid[0] == "call" and gid[1][0] == "attr" and gid[1][2] == "strip" else None, "the id is stripped of whitespace", fn=qn)
        ctx.check("R2", qn + "|shape-is-line-2", True if ords(shape) == [1] else (False if ords(shape) else None), "the shape is the second line", bad="the shape comes from line(s) %s" % [o + 1 for o in ords(shape)], fn=qn)
        ints = any(x[0] == "call" and callee(x) == "builtins.int" for x in walk(shape))
        ctx.check("R2", qn + "|shape-as-ints", True if ints else (False if any(x[0] == "call" and callee(x) == "builtins.float" for x in walk(shape)) else None),
                  "shape entries are ints", bad="shape entries are floats (never equal to an array shape tuple of ints? they compare equal but linspace needs ints)", fn=qn)
        rev = shape[0] == "sub" and shape[2][0] == "slice" and shape[2][3] == const(-1) or (shape[0] == "call" and callee(shape) == "builtins.reversed")
        ctx.check("R2", qn + "|shape-order", False if rev else True, "the shape keeps the file order (n_north, n_east)", bad="the shape is reversed to (n_east, n_north)", fn=qn)
        ok = None
        detail = ""
        if region[0] == "tuple" and len(region[1]) == 4:
            want = [(3, 0), (3, 1), (2, 0), (2, 1)]      # (W, E, S, N) <- line 4 elements 0,1 ; line 3 elements 0,1   (0-based ordinals 3 and 2)
            got = []
            for el in region[1]:
                o = ords(el)
                k = el[2][1] if el[0] == "sub" and is_int(el[2]) else None
                got.append((o[0] if len(o) == 1 else None, k))
            ok = True if got == want else (False if all(g[0] is not None and g[1] is not None for g in got) else None)
            detail = "region elements come from (line, position) %s, documented %s" % ([(g[0] + 1 if g[0] is not None else None, g[1]) for g in got], [(w[0] + 1, w[1]) for w in want])
        ctx.check("R2", qn + "|region-assembly", ok, "region = (west, east, south, north): W/E from line 4, S/N from line 3", bad=detail, fn=qn)
        ctx.check("R2", qn + "|range-is-line-5", True if ords(rng) == [4] else (False if ords(rng) else None), "the data range is the fifth line", bad="the data range comes from line(s) %s" % [o + 1 for o in ords(rng)], fn=qn)
        # tokenisation of the numeric header records: each record is cut at white space (str.split()) and every token converted; a tokeniser
        # built on a regular expression is folded (the pattern is a constant of the source) against the spellings of a number that float()
        # and numpy accept - a legal spelling the pattern cannot match as ONE token is a positive contradiction
        toks = []
        for part in (shape, region, rng):
            for x in walk(part):
                if isinstance(x, tuple) and x and x[0] == "comp":
                    toks.append(x[3])
        verdict, why = (True if toks else None), ""
        for it in toks:
            it_u = Q.unwrap(it)
            if it_u[0] == "call" and it_u[1][0] == "attr" and it_u[1][2] == "split" and not it_u[2] and not it_u[3]:
                continue
            pat = _regex_tokeniser(ctx, qn, it_u)
            if pat is None:
                verdict = None if verdict else verdict
                why = "tokeniser %s" % show(it_u)[:60]
                continue
            import re as _re
            try:
                rx = _re.compile(pat)
            except _re.error:
                verdict = None if verdict else verdict
                continue
            miss = [w for w in (".5", "-.25", "5.", "1e3", "1.5E+03", "+2.5", "-7", "0.125") if rx.findall(w) != [w] and ["".join(g) for g in rx.findall(w) if isinstance(g, tuple)] != [w]]
            if miss:
                verdict, why = False, "the header numbers are extracted with the pattern %r, which does not match the legal spelling(s) %s as one number: such a header is read with other values" % (pat, ", ".join(miss))
                break
            verdict = None if verdict else verdict
            why = "regular-expression tokeniser %r accepts the witness spellings; not proved for all" % pat
        ctx.check("R2", qn + "|records-cut-at-white-space", verdict, "every numeric header record is cut at white space and each token converted", bad=why, undecided=why or None, fn=qn)
        n_lines = len([e for e in p.events if e.kind == "call" and callee(e.data[0]) == ".readline"])
        ctx.check("R2", qn + "|five-header-lines", True if n_lines == 5 else False, "exactly five header lines are consumed", bad="%d header lines are consumed: the body starts at the wrong line" % n_lines, fn=qn)


def r345_body(ctx):
    qn = LS
    K.roles_rule(ctx, "R5", [qn], with_return=False, require={qn: [{"linspace-args"}, {"dict-entry"}]})
    n = 0
    for p in ctx.paths(qn):
        if p.exit != "return":
            continue
        n += 1
        ispath = any(e.kind == "call" and callee(e.data[0]) == "builtins.open" for e in p.events)
        masked = any(c[0] == "call" and callee(c) == "numpy.any" and v for c, v in p.conds)
        tag = "%s,%s" % ("path" if ispath else "fileobj", "blanks" if masked else "noblanks")
        hd = [(i, e) for i, e in enumerate(p.events) if e.kind == "call" and callee(e.data[0]) == HD]
        lt = [(i, e) for i, e in enumerate(p.events) if e.kind == "call" and callee(e.data[0]) == "numpy.loadtxt"]
        ic = [(i, e) for i, e in enumerate(p.events) if e.kind == "call" and callee(e.data[0]) == IC]
        da = [(i, e) for i, e in enumerate(p.events) if e.kind == "call" and callee(e.data[0]) == "xarray.DataArray"]
        if len(hd) != 1 or len(lt) != 1 or len(da) != 1:
            ctx.add("R3", "%s|structure|%s" % (qn, tag), "UNDECIDED", "expected one header read, one loadtxt and one DataArray construction", fn=qn)
            continue
        h, l_, d = hd[0][1].data[0], lt[0][1].data[0], da[0][1].data[0]
        handle = h[2][0] if h[2] else None
        ctx.check("R3", "%s|header-before-body|%s" % (qn, tag), True if hd[0][0] < lt[0][0] else False, "the header is consumed before the body is parsed", bad="the body is parsed before the header is read", fn=qn)
        lf = Q.arg(ctx, l_, "fname")
        ctx.check("R3", "%s|same-handle|%s" % (qn, tag), True if lf == handle else (False if lf == ("param", "fname") and ispath else None), "loadtxt continues on the handle the header was read from",
                  bad="loadtxt re-reads the file from the start (header lines are parsed as data)", fn=qn)
        dt = Q.arg(ctx, l_, "dtype")
        ctx.check("R3", "%s|dtype-forwarded|%s" % (qn, tag), True if dt == ("param", "dtype") else (False if dt is None or (isinstance(dt, tuple) and is_const(dt)) else None), "dtype is forwarded", bad="dtype is not forwarded to loadtxt", fn=qn)
        # blank threshold
        thr = [c for c, _v in p.conds if c[0] == "call" and callee(c) == "numpy.any"]
        okb = None
        if thr:
            m = thr[0][2][0]
            if m[0] == "cmp" and m[2] == l_ and is_const(m[3]):
                okb = True if m[1] == ">=" and abs(m[3][1] - 1.70141e38) < 1e33 else False
        ctx.check("R3", "%s|blank-threshold|%s" % (qn, tag), okb, "blanks are field >= 1.70141e38", bad="the blank test is %s" % (show(thr[0][2][0])[-30:] if thr else None), fn=qn)
        field = Q.arg(ctx, d, "data")
        if masked:
            okm = isinstance(field, tuple) and field[0] == "call" and callee(field) == "numpy.ma.masked_where" and field[2] and field[2][0][0] == "cmp" and field[2][1] == l_
            ctx.check("R3", "%s|blanks-masked|%s" % (qn, tag), True if okm else (False if field == l_ else None), "the DataArray holds the array masked where blank", bad="blank sentinels are left in the data", fn=qn)
        else:
            ctx.check("R3", "%s|field-is-file-body|%s" % (qn, tag), True if field == l_ else None, "the DataArray holds the parsed body", fn=qn)
        # the checked / returned array is the body as parsed: reshaping it to the header's shape first makes the shape test vacuous
        reshaped = [x for x in walk(field) if isinstance(x, tuple) and x and x[0] == "call" and Q.reshape_of(x) is not None and any(y == l_ for y in walk(Q.reshape_of(x)[0]))
                    and any(y == h for y in walk(Q.reshape_of(x)[1]))] if isinstance(field, tuple) else []
        ctx.check("R4", "%s|body-not-reshaped-to-header|%s" % (qn, tag), False if reshaped else True, "the parsed body reaches the integrity check and the grid in the shape it has in the file",
                  bad="the body is reshaped to the header's (nrows, ncols) before the integrity check: a file whose body has another shape with the same number of values is re-arranged instead of refused", fn=qn)
        # integrity first
        oki = None
        if ic:
            c = ic[0][1].data[0]
            oki = True if ic[0][0] < da[0][0] else False
            a = c[2]
            ok_args = len(a) == 3 and a[0] == field and a[1] == Q.sub(h, 1) and a[2] == Q.sub(h, 3)
            ctx.check("R4", "%s|integrity-arguments|%s" % (qn, tag), True if ok_args else (False if len(a) == 3 and a[1] == Q.sub(h, 3) else None),
                      "the check receives (field, header shape, header data range)", bad="the integrity check receives the wrong header entries", fn=qn)
        ctx.check("R4", "%s|integrity-before-construction|%s" % (qn, tag), oki if ic else False, "_check_surfer_integrity precedes the DataArray construction",
                  bad="the grid is built %s the integrity check" % ("before" if ic else "without"), fn=qn)
        # assembly
        dims = Q.arg(ctx, d, "dims")
        ctx.check("R5", "%s|dims|%s" % (qn, tag), True if dims == ("tuple", (const("northing"), const("easting"))) else (False if dims == ("tuple", (const("easting"), const("northing"))) else None),
                  "dims are ('northing', 'easting')", bad="dims are ('easting', 'northing')", fn=qn)
        co = Q.arg(ctx, d, "coords")
        okc = None
        if isinstance(co, tuple) and co[0] == "dict":
            dd = {k[1]: v for k, v in co[1] if k is not None and is_const(k)}
            reg, shp = Q.sub(h, 2), Q.sub(h, 1)

            def lin(v):
                if v is None or v[0] != "call" or callee(v) != "numpy.linspace":
                    return None
                a = v[2]
                if len(a) == 2 and a[0][0] == "star" and a[0][1][0] == "sub" and a[0][1][1] == reg:
                    s = a[0][1][2]
                    rng = "SN" if s == ("slice", const(2), NONE, NONE) else ("WE" if s == ("slice", NONE, const(2), NONE) else None)
                    return rng, a[1]
                if len(a) == 3 and all(x[0] == "sub" and x[1] == reg and is_int(x[2]) for x in a[:2]):
                    ij = (a[0][2][1], a[1][2][1])
                    return {(0, 1): "WE", (2, 3): "SN"}.get(ij), a[2]
                return None
            ln, le = lin(dd.get("northing")), lin(dd.get("easting"))
            if ln and le and ln[0] and le[0]:
                okc = True if ln == ("SN", Q.sub(shp, 0)) and le == ("WE", Q.sub(shp, 1)) else False
        ctx.check("R5", "%s|coordinates|%s" % (qn, tag), okc, "northing = linspace(S, N, shape[0]) and easting = linspace(W, E, shape[1])",
                  bad="the coordinate vectors are built from the wrong bounds or counts", fn=qn)
        at = Q.arg(ctx, d, "attrs")
        oka = okf = None
        if isinstance(at, tuple) and at[0] == "dict":
            dd, opaque = {}, False
            def merge(pairs):
                nonlocal opaque
                for k, v in pairs:
                    if k is None and v[0] == "dict":
                        merge(v[1])            # {"gridID": id, **{"file": fname}}
                    elif k is None or not is_const(k):
                        opaque = True          # a spread / computed key the rule cannot see into
                    else:
                        dd[k[1]] = v
            merge(at[1])
            oka = True if dd.get("gridID") == Q.sub(h, 0) else (False if "gridID" not in dd and not opaque else None)
            if ispath:
                okf = True if dd.get("file") == ("param", "fname") else (False if not opaque and ("file" not in dd or is_const(dd["file"])) else None)
            else:
                okf = (True if "file" not in dd else False) if not opaque else (False if "file" in dd else None)
        ctx.check("R5", "%s|attrs-id|%s" % (qn, tag), oka, "attrs carry the grid id", bad="the grid id is missing from attrs", fn=qn)
        ctx.check("R5", "%s|attrs-file|%s" % (qn, tag), okf, "attrs carry the file name exactly when a path was given", bad="the 'file' attribute is %s" % ("missing for a path" if ispath else "set for a file object"), fn=qn)
    if n < 4:
        ctx.add("R3", qn + "|paths", "UNDECIDED", "expected 4 normal paths (path/fileobj x blanks/no blanks), found %d" % n, fn=qn)
    qn = IC
    ps = ctx.paths(qn)
    sh = any(p.exit == "raise" and p.conds and p.conds[-1][1] and p.conds[-1][0][0] == "cmp" and p.conds[-1][0][1] == "!=" and {canon(p.conds[-1][0][2]), canon(p.conds[-1][0][3])} == {("attr", ("param", "field"), "shape"), ("param", "shape")} for p in ps)
    rg = any(p.exit == "raise" and p.conds and any(x[0] == "call" and callee(x) == "numpy.allclose" and ("param", "data_range") in Q.leaves(x) for x in walk(p.conds[-1][0])) for p in ps)
    ioerr = all(p.value[0] == "call" and callee(p.value) in ("builtins.IOError", "builtins.OSError") for p in ps if p.exit == "raise")
    ctx.check("R4", qn + "|raises|shape", True if sh else False, "a body whose shape differs from the header raises", bad="a shape mismatch between header and body is accepted", fn=qn)
    ctx.check("R4", qn + "|raises|range", True if rg else False, "a body whose (min, max) differs from the header range raises", bad="a data-range mismatch is accepted", fn=qn)
    ctx.check("R4", qn + "|raises-IOError", True if ioerr and (sh or rg) else None, "mismatches raise IOError", fn=qn)
    # no way around the two comparisons: a normal exit on which the header shape / the header data range was never looked at accepts any
    # header value for that body
    for par, what in (("shape", "shape"), ("data_range", "data range")):
        skipping = [p for p in ps if p.normal and not any(("param", par) in Q.leaves(c) for c, _v in p.conds)]
        ctx.check("R4", "%s|no-exit-skips-the-%s-test" % (qn, par), False if skipping else True, "every normal exit has compared the %s with the header" % what,
                  bad="a path returns normally without ever comparing the %s with the header (decisions on that path: %s)" % (what, "; ".join(show(c)[:50] for c, _v in skipping[0].conds) if skipping else ""),
                  fn=qn, line=skipping[0].line if skipping else None)
    for p in ps:
        if p.exit == "raise" and rg:
            for x in walk(p.conds[-1][0]):
                if x[0] == "call" and callee(x) == "numpy.allclose":
                    fr = x[2][0]
                    mms = [Q.minmax_of(e) for e in fr[1]] if fr[0] in ("list", "tuple") else []
                    okr = mms == [("min", ("param", "field")), ("max", ("param", "field"))]
                    ctx.check("R4", qn + "|range-is-(min, max)", True if okr else (False if mms == [("max", ("param", "field")), ("min", ("param", "field"))] else None),
                              "the body range compared with the header is [field.min(), field.max()]", bad="the body range is assembled as (max, min)", fn=qn)


def check(ctx):
    r1_pairing(ctx)
    r2_header(ctx)
    r345_body(ctx)
