"""C20 - purity, no hidden state, history-free fit, constructor contract, typestate, rejection (DESIGN §4 C20)."""
import ast

from .. import q as Q
from ..effects import Effects
from ..loader import Package
from ..paths import Analysis
from ..report import VERIF
from ..terms import callee, canon, const, is_const, kw, show, walk, NONE
from . import common as K

EXPLANATION = ("effects/alias analysis (engine D) over every public callable, event-order (typestate) analysis of fit/predict, "
               "constructor-contract and who-may-call checks; each obligation is established on every enumerated path")
RULES = {
    "R1": "no public function/method writes an array that may alias a parameter or a constructor-given attribute; cross_val_score fits clones only, never the caller's estimator (C12.R1)",
    "R2": "no global-state RNG call, no global statement, no store into a module-level container",
    "R3": "fit assigns every fitted attribute on every normal path, reads none before assigning it, stores only *_ attributes; "
          "only __init__/fit assign self.*",
    "R4": "estimator constructors only store their parameters under their own names (or forward them by name)",
    "R5": "every concrete predict passes check_is_fitted(self, [attrs assigned by fit]) before reading fitted state",
    "R6": "validation is reached: check_fit_input first, its raise sites exist, both-or-neither shape/spacing guards",
}
ASSUMPTIONS = ["bit-identical repetition and behaviour after clone follow from R1-R4 plus deterministic libraries (declined, not checked)"]

# documented in-place effects: one symbol each, with the reason
PURITY_EXCEPTIONS = {
    ("verde.base.least_squares.least_squares", "jacobian"):
        "docstring: the Jacobian is scaled in place unless copy_jacobian=True; call sites must pass fresh matrices",
}
STATE_EXCEPTIONS = {
    ("verde.vector.VectorSpline2D", "force_coords"): "documented: the first fit fills force_coords and later fits reuse it",
}
MUTATORS = ("append", "extend", "update", "add", "insert", "pop", "clear", "setdefault", "remove", "sort", "reverse", "popitem")
GLOBAL_RNG_OK = {"numpy.random.RandomState", "numpy.random.default_rng", "numpy.random.Generator", "numpy.random.SeedSequence",
                 "random.Random"}


def public_callables(pkg):
    """exported functions and the public methods (own or inherited from package classes) of exported classes"""
    out = {}
    for cq, via in sorted(pkg.exported().items()):
        if cq in pkg.functions and not cq.rsplit(".", 1)[1].startswith("_"):
            out[cq] = via
        if cq in pkg.classes:
            for k in pkg.mro(cq):
                c = pkg.classes.get(k)
                if not c:
                    continue
                for mn, f in c.methods.items():
                    if mn.startswith("_") and mn != "__init__":
                        continue
                    if pkg.find_method(cq, mn) is f:
                        out[f.qual] = via
    return out


def r1_purity(ctx, ef):
    pub = public_callables(ctx.pkg)
    if len(pub) < 60:
        ctx.add("R1", "public-callables|count", "UNDECIDED", "only %d public callables found (expected >= 60)" % len(pub))
    for qn in sorted(pub):
        fa = ctx.an.fa(qn)
        ctx.consulted.add(qn)
        if not fa.ok:
            ctx.add("R1", qn + "|purity", "UNDECIDED", "unsupported construct: " + fa.unsupported, fn=qn)
            continue
        w = ef.writes.get(qn, {})
        bad = {a: h for a, h in w.items() if (qn, a) not in PURITY_EXCEPTIONS}
        if bad:
            a, (how, line) = sorted(bad.items(), key=lambda kv: (kv[1][0].startswith('passes'), kv[0]))[0]
            ctx.add("R1", qn + "|purity", "VIOLATED",
                    "writes through an alias of %s: %s" % ("parameter '%s'" % a if not a.startswith("self.") else "attribute " + a, how), fn=qn, line=line)
        else:
            exc = [a for a in w if (qn, a) in PURITY_EXCEPTIONS]
            ctx.add("R1", qn + "|purity", "DISCHARGED",
                    "no store, augmented assignment, out=, copy=False or mutating call reaches an alias of a parameter"
                    + (" (documented exception: %s)" % exc[0] if exc else ""), fn=qn, nontrivial=bool(fa.paths))
    # documented exception must still be documented
    f = ctx.pkg.fn("verde.base.least_squares.least_squares")
    doc = f.docstring()
    ctx.check("R1", "verde.base.least_squares.least_squares|documented-in-place", ("copy_jacobian" in doc and ("inplace" in doc.lower() or "in place" in doc.replace("-", " ").lower())) or None,
              "docstring documents the in-place scaling of the Jacobian (copy_jacobian)", fn=f.qual)


def hidden_state_findings(pkg, an):
    """[(module qual, function qual, line, what)] over a package"""
    out = []
    for mq, m in pkg.modules.items():
        for n in ast.walk(m.tree):
            if isinstance(n, (ast.Global, ast.Nonlocal)):
                out.append((mq, mq, n.lineno, "%s statement (%s)" % (type(n).__name__.lower(), ", ".join(n.names))))
    for qn, fa in an.all():
        mq = pkg.functions[qn].module.qual
        fas = [fa] + list(fa.nested.values())
        for f in fas:
            if not f.ok:
                out.append((mq, qn, 0, "UNDECIDED:" + f.unsupported))
                continue
            for p in f.paths:
                for e in p.events:
                    if e.kind == "call":
                        name = callee(e.data[0])
                        if (name.startswith("numpy.random.") or name.startswith("random.")) and name not in GLOBAL_RNG_OK:
                            out.append((mq, qn, e.line, "global-state RNG call " + name))
                        t = e.data[0]
                        if t[1][0] == "glob" and t[1][1].startswith(pkg.name + ".") and t[1][1].rsplit(".", 1)[1] in MUTATORS:
                            owner = t[1][1].rsplit(".", 1)[0]
                            om, _, on = owner.rpartition(".")
                            if om in pkg.modules and on in pkg.modules[om].assigns:
                                out.append((mq, qn, e.line, "mutates module-level object " + owner))
                        # a mutator called on an object REACHED FROM a module-level container (TABLE[key][1].update(...), an element of
                        # a module-level dict of (class, kwargs) pairs): the shared object changes for every later caller
                        if t[1][0] == "attr" and t[1][2] in MUTATORS:
                            base = t[1][1]
                            hops = 0
                            while base[0] in ("sub", "elem") and hops < 6:
                                base = base[1]
                                hops += 1
                            if hops and base[0] == "glob" and base[1].startswith(pkg.name + "."):
                                om, _, on = base[1].rpartition(".")
                                if om in pkg.modules and on in pkg.modules[om].assigns:
                                    out.append((mq, qn, e.line, "mutates an object held in the module-level container %s (.%s())" % (base[1], t[1][2])))
                    if e.kind == "store" and e.data[0][0] == "glob":
                        out.append((mq, qn, e.line, "stores into module-level object " + e.data[0][1]))
                    if e.kind == "setattr" and e.data[0][0] == "glob":
                        out.append((mq, qn, e.line, "sets attribute on module-level object " + e.data[0][1]))
    return out


def r2_hidden_state(ctx):
    finds = hidden_state_findings(ctx.pkg, ctx.an)
    by_mod = {}
    for mq, qn, line, what in finds:
        by_mod.setdefault(mq, []).append((qn, line, what))
    for mq in sorted(ctx.pkg.modules):
        fs = by_mod.get(mq, [])
        und = [f for f in fs if f[2].startswith("UNDECIDED")]
        bad = [f for f in fs if not f[2].startswith("UNDECIDED")]
        if bad:
            qn, line, what = bad[0]
            ctx.add("R2", mq + "|no-hidden-state", "VIOLATED", "%s in %s" % (what, qn), fn=qn if qn in ctx.pkg.functions else None, line=line)
        elif und:
            ctx.add("R2", mq + "|no-hidden-state", "UNDECIDED", "%s: %s" % (und[0][0], und[0][2]))
        else:
            ctx.add("R2", mq + "|no-hidden-state", "DISCHARGED", "no global RNG call, global statement or store into a module-level object in any function",
                    nontrivial=any(f.module.qual == mq for f in ctx.pkg.functions.values()))
    # positive control: the same scan must fire on the fixture
    fpkg = Package(VERIF / "fixtures" / "controls", name="controls")
    ffinds = hidden_state_findings(fpkg, Analysis(fpkg))
    kinds = {"global-state RNG call numpy.random.uniform", "global-state RNG call random.random", "global statement (COUNTER)",
             "stores into module-level object controls.state._CACHE", "mutates module-level object controls.state.COUNTER",
             "mutates an object held in the module-level container controls.state._TABLE (.update())"}
    got = {w for _m, _q, _l, w in ffinds}
    ctx.check("R2", "fixtures/controls/state.py|positive-control", True if kinds <= got else None,
              "the scan reports all %d seeded hidden-state constructs of the control fixture" % len(kinds),
              undecided="control fixture not fully detected: missing %s" % sorted(kinds - got))


def fit_attrs(ctx, cq):
    """attributes assigned to self by the fit method the class resolves to: {name} or None"""
    f = ctx.pkg.find_method(cq, "fit")
    if f is None:
        return None, None
    fa = ctx.an.fa(f.qual)
    if not fa.ok:
        return f, None
    names = set()
    for p in fa.paths:
        for e in p.events:
            if e.kind == "setattr" and e.data[0] == Q.SELF:
                names.add(e.data[1])
    return f, names


def properties_of(ctx, cq):
    out = set()
    for k in ctx.pkg.mro(cq):
        c = ctx.pkg.classes.get(k)
        if c:
            out |= {n for n, f in c.methods.items() if f.is_property}
    return out


def r3_history(ctx):
    n_fit = 0
    for cq, c in sorted(ctx.pkg.classes.items()):
        for mn, f in sorted(c.methods.items()):
            fa = ctx.an.fa(f.qual)
            ctx.consulted.add(f.qual)
            if not fa.ok:
                ctx.add("R3", f.qual + "|state-discipline", "UNDECIDED", fa.unsupported, fn=f.qual)
                continue
            normal = [p for p in fa.paths if p.normal]
            sets = [[e for e in p.events if e.kind == "setattr" and e.data[0] == Q.SELF] for p in fa.paths]
            from ..paths import known_functions
            inv = known_functions()
            if inv and f.qual not in inv and (mn.startswith("_") or mn == "filter"):
                # a private method added after the rules were written is part of whichever method calls it (engine A runs its body in
                # place there); an overriding filter() is, by the BaseGridder contract, a fit followed by the residuals
                ctx.add("R3", f.qual + "|state-discipline", "DISCHARGED", "new helper / filter override: judged at its call sites (looked through)", fn=f.qual, nontrivial=False)
                continue
            if mn not in ("__init__", "fit"):
                allw = sorted({e.data[1] for s in sets for e in s})
                if allw:
                    ctx.add("R3", f.qual + "|assigns-self-outside-init-fit", "VIOLATED",
                            "assigns self.%s outside __init__/fit (state depends on call history)" % allw, fn=f.qual)
                continue
            if mn != "fit" or not normal:
                continue
            n_fit += 1
            per_path = [[e.data[1] for e in p.events if e.kind == "setattr" and e.data[0] == Q.SELF] for p in normal]
            allw = set().union(*map(set, per_path))
            common = set.intersection(*map(set, per_path))
            props = properties_of(ctx, cq)
            for a in sorted(allw):
                key = "%s|fit-attr|%s" % (f.qual, a)
                if not a.endswith("_"):
                    if (cq, a) in STATE_EXCEPTIONS:
                        ctx.add("R3", key, "DISCHARGED", "non-fitted attribute stored by fit: documented exception (%s)" % STATE_EXCEPTIONS[(cq, a)], fn=f.qual)
                    else:
                        ctx.add("R3", key, "VIOLATED", "fit overwrites constructor parameter / non-fitted attribute self.%s" % a, fn=f.qual)
                    continue
                if a not in common:
                    ctx.add("R3", key, "VIOLATED", "self.%s is assigned on some normal paths of fit only: a refit can keep the previous fit's value" % a, fn=f.qual)
                else:
                    ctx.add("R3", key, "DISCHARGED", "assigned on every one of the %d normal paths of fit" % len(normal), fn=f.qual)
            # reads before writes (including hasattr(self, "x_"))
            early = None
            for p in normal:
                written = set()
                for e in p.events:
                    if e.kind == "setattr" and e.data[0] == Q.SELF:
                        written.add(e.data[1])
                    elif e.kind == "getattr" and e.data[0] == Q.SELF:
                        a = e.data[1]
                        if (a in allw or (a.endswith("_") and not a.startswith("_") and a not in props)) and a not in written \
                                and (cq, a) not in STATE_EXCEPTIONS:
                            early = early or (a, e.line)
                    elif e.kind == "call" and callee(e.data[0]) in ("builtins.hasattr", "builtins.getattr") and len(e.data[0][2]) >= 2:
                        o, nm = e.data[0][2][0], e.data[0][2][1]
                        if o == Q.SELF and is_const(nm) and isinstance(nm[1], str) and nm[1].endswith("_") and nm[1] not in written:
                            early = early or (nm[1], e.line)
            if early:
                ctx.add("R3", f.qual + "|no-read-before-write", "VIOLATED",
                        "fit reads/tests fitted attribute self.%s before assigning it (result depends on a previous fit)" % early[0], fn=f.qual, line=early[1])
            else:
                ctx.add("R3", f.qual + "|no-read-before-write", "DISCHARGED", "no fitted attribute is read or hasattr-tested before its assignment on any path", fn=f.qual)
    if n_fit < 9:
        ctx.add("R3", "fit-methods|count", "UNDECIDED", "only %d fit methods analysed (expected >= 9)" % n_fit)


def estimator_classes(ctx):
    exp = ctx.pkg.exported()
    out = []
    for cq in sorted(ctx.pkg.classes):
        if "sklearn.base.BaseEstimator" in ctx.pkg.mro(cq) or "sklearn.model_selection.BaseCrossValidator" in ctx.pkg.mro(cq):
            if cq in exp or any(s in exp for s in ctx.pkg.subclasses(cq)):
                out.append(cq)
    return out


def init_params(ctx, cq):
    """all constructor parameter names along the MRO"""
    names = set()
    for k in ctx.pkg.mro(cq):
        c = ctx.pkg.classes.get(k)
        if c and "__init__" in c.methods:
            f = c.methods["__init__"]
            names |= set(f.call_params) | set(f.kwonly)
    return names


def r4_constructor(ctx):
    n = 0
    for cq in estimator_classes(ctx):
        c = ctx.pkg.classes[cq]
        if "__init__" not in c.methods:
            continue
        f = c.methods["__init__"]
        n += 1
        fa = ctx.an.fa(f.qual)
        ctx.consulted.add(f.qual)
        if not fa.ok:
            ctx.add("R4", f.qual + "|constructor", "UNDECIDED", fa.unsupported, fn=f.qual)
            continue
        if f.kwarg or f.vararg:
            # scikit-learn discovers the parameters of an estimator from the SIGNATURE of __init__: *args is refused, **kwargs is skipped, so
            # whatever travels through it is invisible to get_params() and therefore lost by clone() and absent from repr()
            ctx.add("R4", f.qual + "|explicit-signature", "VIOLATED", "%s.__init__ takes %s: the parameters passed through it are not reported by get_params(), so clone() "
                    "silently resets them to their defaults" % (cq.rsplit(".", 1)[1], "**" + f.kwarg if f.kwarg else "*" + f.vararg), fn=f.qual)
        else:
            ctx.add("R4", f.qual + "|explicit-signature", "DISCHARGED", "every constructor parameter is an explicit keyword of __init__", fn=f.qual, nontrivial=False)
        params = f.call_params + f.kwonly
        allparams = init_params(ctx, cq)
        is_cv = "sklearn.model_selection.BaseCrossValidator" in ctx.pkg.mro(cq)
        verdict, why, line = "DISCHARGED", "", None
        for p in fa.paths:
            if not p.normal:
                if not is_cv and p.exit == "raise":
                    verdict, why, line = "UNDECIDED", "constructor raises (scikit-learn defers validation to fit)", p.line
                continue
            stored, forwarded = set(), set()
            for e in p.events:
                if e.kind == "setattr" and e.data[0] == Q.SELF:
                    a, v = e.data[1], e.data[2]
                    if a not in allparams:
                        verdict, why, line = "VIOLATED", "assigns self.%s which is not a constructor parameter" % a, e.line
                    elif v == ("param", a):
                        stored.add(a)
                    elif v[0] in ("const", "list", "tuple") and not Q.leaves(v) and _decided_none(p, a):
                        stored.add(a)        # documented None -> default
                    elif ("param", a) in Q.leaves(v) or Q.leaves(v):
                        verdict, why, line = "VIOLATED", "stores a transformed value in self.%s (%s): get_params/clone no longer round-trip" % (a, show(v)[:50]), e.line
                    else:
                        verdict, why, line = "VIOLATED", "self.%s is set to %s, not to the parameter" % (a, show(v)[:50]), e.line
                elif e.kind == "call":
                    t = e.data[0]
                    nm = callee(t)
                    if nm == ".__init__" and t[1][1][0] == "call" and callee(t[1][1]) == "builtins.super":
                        for k, v in t[3]:
                            if k is None:
                                forwarded |= set(params)
                            elif v == ("param", k):
                                forwarded.add(k)
                            elif Q.leaves(v):
                                verdict, why, line = "VIOLATED", "forwards %s=%s to super().__init__ (not its own parameter)" % (k, show(v)[:40]), e.line
                    elif nm in ("warnings.warn", "builtins.super", ".format") or t[1][0] == "attr" and t[1][2] == "format":
                        pass
                    elif verdict == "DISCHARGED":
                        verdict, why, line = "UNDECIDED", "constructor calls %s" % nm, e.line
            missing = [a for a in params if a not in stored | forwarded]
            if missing and verdict != "VIOLATED":
                verdict, why, line = "VIOLATED", "parameter(s) %s not stored under their own name on a normal path" % missing, p.line
        ctx.add("R4", f.qual + "|constructor", verdict,
                why or "every parameter (%s) is stored under its own name or forwarded by name; nothing else is assigned" % ", ".join(params), fn=f.qual, line=line)
    if n < 12:
        ctx.add("R4", "constructors|count", "UNDECIDED", "only %d estimator constructors analysed (expected >= 12)" % n)


def _decided_none(p, a):
    for c, v in p.conds:
        cc = canon(c)
        if cc == ("cmp", "is", ("param", a), NONE) and v is True:
            return True
        if cc == ("cmp", "isnot", ("param", a), NONE) and v is False:
            return True
    return False


def r5_typestate(ctx):
    n = 0
    for cq, c in sorted(ctx.pkg.classes.items()):
        if "predict" not in c.methods:
            continue
        f = c.methods["predict"]
        fa = ctx.an.fa(f.qual)
        ctx.consulted.add(f.qual)
        if not fa.ok:
            ctx.add("R5", f.qual + "|check_is_fitted", "UNDECIDED", fa.unsupported, fn=f.qual)
            continue
        normal = [p for p in fa.paths if p.normal]
        fitf, fitted = fit_attrs(ctx, cq)
        if not normal or fitf is None or not fitted or not any(a.endswith("_") for a in fitted):
            continue        # abstract predict, or a class without fitted state (CheckerBoard, DummyEstimator)
        if "sklearn.base.BaseEstimator" not in ctx.pkg.mro(cq):
            continue
        n += 1
        props = properties_of(ctx, cq)
        verdict, why, line = "DISCHARGED", "", None
        checked_all = None
        for p in fa.paths:
            checked = None
            for e in p.events:
                if e.kind == "call" and callee(e.data[0]) in ("sklearn.utils.validation.check_is_fitted", "sklearn.utils.check_is_fitted"):
                    t = e.data[0]
                    est = Q.arg(ctx, t, "estimator", ["estimator", "attributes"])
                    attrs = Q.arg(ctx, t, "attributes", ["estimator", "attributes"])
                    if est == Q.SELF:
                        if attrs is not None and attrs != "unknown" and attrs[0] in ("list", "tuple") and all(is_const(x) for x in attrs[1]):
                            checked = [x[1] for x in attrs[1]]
                        elif attrs is not None and is_const(attrs) and isinstance(attrs[1], str):
                            checked = [attrs[1]]
                        else:
                            checked = []
                elif e.kind == "getattr" and e.data[0] == Q.SELF and checked is None:
                    a = e.data[1]
                    if a in fitted and a.endswith("_") or (a.endswith("_") and not a.startswith("_") and a in props):
                        verdict, why, line = "VIOLATED", "reads fitted attribute self.%s before check_is_fitted" % a, e.line
                        break
            if p.normal and checked is None and verdict != "VIOLATED":
                verdict, why, line = "VIOLATED", "a normal path of predict never calls check_is_fitted(self, ...)", p.line
            if checked is not None:
                checked_all = checked
        if verdict == "DISCHARGED" and checked_all is not None:
            unknown = [a for a in checked_all if a not in fitted and a not in props]
            if not checked_all:
                verdict, why = "UNDECIDED", "check_is_fitted is called without a literal attribute list"
            elif unknown:
                verdict, why = "VIOLATED", "check_is_fitted tests %s, which %s never assigns" % (unknown, fitf.qual.split(".", 1)[1])
        ctx.add("R5", f.qual + "|check_is_fitted", verdict,
                why or "check_is_fitted(self, %s) precedes every read of fitted state; the checked attributes are assigned by %s" % (checked_all, fitf.qual.split(".", 1)[1]),
                fn=f.qual, line=line)
    if n < 8:
        ctx.add("R5", "predict-methods|count", "UNDECIDED", "only %d concrete predict methods analysed (expected >= 8)" % n)


CFI = "verde.base.utils.check_fit_input"
VALIDATING = [
    "verde.trend.Trend.fit", "verde.spline.Spline.fit", "verde.vector.VectorSpline2D.fit", "verde.vector.Vector.fit",
    "verde.neighbors.KNeighbors.fit", "verde.scipygridder._BaseScipyGridder.fit", "verde.blockreduce.BlockReduce.filter",
    "verde.blockreduce.BlockMean.filter", "verde.base.utils.score_estimator", "verde.model_selection.cross_val_score",
    "verde.model_selection.train_test_split",
]


def r6_rejection(ctx):
    for qn in VALIDATING:
        paths = ctx.paths(qn)
        verdict, why, line = "DISCHARGED", "", None
        for p in paths:
            if not p.normal:
                continue
            hits = [e for e in p.events if e.kind == "call" and callee(e.data[0]) == CFI]
            if not hits:
                verdict, why, line = "VIOLATED", "a normal path never calls check_fit_input", p.line
                break
            t = hits[0].data[0]
            got = [Q.arg(ctx, t, nm) for nm in ("coordinates", "data", "weights")]
            want = [("param", "coordinates"), ("param", "data"), ("param", "weights")]
            if got != want:
                if all(g is not None and g != "unknown" and g[0] == "param" for g in got):
                    verdict, why, line = "VIOLATED", "check_fit_input receives (%s) instead of (coordinates, data, weights)" % ", ".join(show(g) for g in got), hits[0].line
                else:
                    verdict, why, line = "UNDECIDED", "check_fit_input arguments are not the function's own parameters: %s" % [show(g) if isinstance(g, tuple) else g for g in got], hits[0].line
                break
            # nothing consumes the raw data/weights arrays before validation
            i0 = p.events.index(hits[0])
            for e in p.events[:i0]:
                if e.kind == "call" and callee(e.data[0]) not in ("builtins.isinstance", "builtins.type", "warnings.warn", ".format", "builtins.super") \
                        and any(x in (("param", "data"), ("param", "weights")) for a in e.data[0][2] for x in walk(a)) \
                        and not e.data[0][1][0] == "attr" and callee(e.data[0]) != CFI:
                    verdict, why, line = "VIOLATED", "%s consumes data/weights before check_fit_input" % callee(e.data[0]), e.line
        ctx.add("R6", qn + "|check_fit_input-first", verdict, why or "every normal path validates (coordinates, data, weights) with check_fit_input before use", fn=qn, line=line)
    # raise sites of the validators
    want = {
        CFI: [("data-shape", lambda c: _mentions_attr(c, "shape") and _mentions_param(c, "data") or _mentions_attr(c, "shape")),
              ("weights-count", lambda c: _is_len_ne(c)),
              ("weights-size", lambda c: _mentions_attr(c, "size"))],
        "verde.base.utils.check_coordinates": [("coordinate-shapes", lambda c: _mentions_attr(c, "shape") or _mentions_call(c, "builtins.all"))],
        "verde.base.utils.check_data_names": [("names-none", lambda c: _is_none_test(c, "data_names")), ("names-count", _is_len_ne)],
        "verde.base.utils.check_extra_coords_names": [("names-none", lambda c: _is_none_test(c, "extra_coords_names")), ("names-count", _is_len_ne)],
        "verde.utils.get_ndim_horizontal_coords": [("ndim-mismatch", lambda c: _mentions_call(c, "numpy.ndim") or _mentions_attr(c, "ndim"))],
    }
    for qn, sites in want.items():
        paths = ctx.paths(qn)
        raising = [p for p in paths if p.exit == "raise"]
        guards = [p.conds[-1][0] for p in raising if p.conds]
        # a rejection counts as gone only when every raising guard of the function is recognised as one of the *other* rejections; a guard
        # in a form none of the tests recognises could be this one written differently, and leaves the question open
        unidentified = [g for g in guards if not any(pr(g) for _nm, pr in sites)]
        for name, pred in sites:
            ok = any(pred(g) for g in guards)
            ctx.check("R6", "%s|raises|%s" % (qn, name), True if ok else (None if unidentified else False),
                      "a raising path is guarded by the %s inconsistency test" % name,
                      bad="no raising path guarded by the %s test: inconsistent input is no longer rejected here" % name, fn=qn)
    # both-or-neither guards
    for qn, a, b in (("verde.coordinates.grid_coordinates", "shape", "spacing"), ("verde.coordinates.line_coordinates", "size", "spacing")):
        paths = ctx.paths(qn)
        both, neither = K.both_neither(ctx, qn, a, b)
        ctx.check("R6", "%s|rejects-both|%s,%s" % (qn, a, b), both, "a path raises when both %s and %s are given" % (a, b),
                  bad="both %s and %s given reach a normal return" % (a, b), fn=qn)
        ctx.check("R6", "%s|rejects-neither|%s,%s" % (qn, a, b), neither, "a path raises when neither %s nor %s is given" % (a, b),
                  bad="neither %s nor %s given reaches a normal return" % (a, b), fn=qn)
        # the guards come before the generator
        gen = "verde.coordinates.line_coordinates" if qn.endswith("grid_coordinates") else "numpy.linspace"
        late = False
        for p in paths:
            if p.normal:
                continue
            if _none_state(p, a) is not None and _none_state(p, a) == _none_state(p, b) and any(e.kind == "call" and callee(e.data[0]) == gen for e in p.events):
                late = True
        ctx.check("R6", "%s|guards-precede-generation" % qn, not late, "the both/neither rejections happen before any coordinate is generated", fn=qn)
    for qn, names in (("verde.base.base_classes.BaseBlockCrossValidator.__init__", ("spacing", "shape")), ("verde.coordinates.rolling_window", ("shape", "spacing"))):
        paths = ctx.paths(qn)
        _both, neither = K.both_neither(ctx, qn, names[0], names[1])
        ctx.check("R6", "%s|rejects-neither|%s,%s" % (qn, names[0], names[1]), neither, "raises when neither %s nor %s is given" % names,
                  bad="no raising path for neither %s nor %s" % names, fn=qn)
    # forwarding of the pair, under their own names, to a validating callee
    fwd = [
        ("verde.coordinates.block_split", "verde.coordinates.grid_coordinates", {"shape": ("param", "shape"), "spacing": ("param", "spacing")}),
        ("verde.coordinates.rolling_window", "verde.coordinates.grid_coordinates", {"shape": ("param", "shape"), "spacing": ("param", "spacing")}),
        ("verde.base.base_classes.BaseGridder.grid", "verde.coordinates.grid_coordinates", {"shape": ("param", "shape"), "spacing": ("param", "spacing")}),
        ("verde.blockreduce.BlockReduce.filter", "verde.coordinates.block_split", {"shape": Q.self_attr("shape"), "spacing": Q.self_attr("spacing")}),
        ("verde.blockreduce.BlockMean.filter", "verde.coordinates.block_split", {"shape": Q.self_attr("shape"), "spacing": Q.self_attr("spacing")}),
        ("verde.model_selection.BlockKFold._iter_test_indices", "verde.coordinates.block_split", {"shape": Q.self_attr("shape"), "spacing": Q.self_attr("spacing")}),
        ("verde.model_selection.BlockShuffleSplit._iter_test_indices", "verde.coordinates.block_split", {"shape": Q.self_attr("shape"), "spacing": Q.self_attr("spacing")}),
    ]
    for qn, cal, want_args in fwd:
        paths = ctx.paths(qn)
        seen = False
        verdict, why, line = "DISCHARGED", "", None
        for p in paths:
            for e in p.events:
                if e.kind == "call" and callee(e.data[0]) == cal:
                    seen = True
                    for nm, w in want_args.items():
                        g = Q.arg(ctx, e.data[0], nm)
                        if g == w:
                            continue
                        if g is None:
                            verdict, why, line = "VIOLATED", "%s is not forwarded to %s" % (nm, cal.rsplit(".", 1)[1]), e.line
                        elif g == "unknown":
                            if verdict == "DISCHARGED":
                                verdict, why, line = "UNDECIDED", "%s may be forwarded through *args/**kwargs" % nm, e.line
                        elif g in want_args.values() or is_const(g):
                            verdict, why, line = "VIOLATED", "%s receives %s=%s" % (cal.rsplit(".", 1)[1], nm, show(g)), e.line
                        elif verdict == "DISCHARGED":
                            verdict, why, line = "UNDECIDED", "%s=%s is not the caller's own %s" % (nm, show(g)[:60], nm), e.line
        if not seen:
            verdict, why = "UNDECIDED", "no call to %s found" % cal
        ctx.add("R6", "%s|forwards-shape-spacing|%s" % (qn, cal.rsplit(".", 1)[1]), verdict,
                why or "shape and spacing reach %s under their own names, so its both/neither rejection applies" % cal.rsplit(".", 1)[1], fn=qn, line=line)


def _mentions_attr(c, name):
    return any(x[0] == "attr" and x[2] == name for x in walk(c))


def _mentions_param(c, name):
    return any(x == ("param", name) for x in walk(c))


def _mentions_call(c, name):
    return any(x[0] == "call" and callee(x) == name for x in walk(c))


def _is_len_ne(c):
    return any(x[0] == "cmp" and x[1] in ("!=", "==") and any(y[0] == "call" and callee(y) == "builtins.len" for y in (x[2], x[3])) for x in walk(c))


def _is_none_test(c, name):
    return any(x[0] == "cmp" and x[1] in ("is", "isnot") and x[2] == ("param", name) and x[3] == NONE for x in walk(c))


def _none_state(p, name):
    """True if the path decided `name is None`, False if decided not None, else None"""
    from ..paths import lookup
    return lookup(p.decided, ("cmp", "is", ("param", name), NONE))


def check(ctx):
    ef = Effects(ctx.an)
    r1_purity(ctx, ef)
    r2_hidden_state(ctx)
    r3_history(ctx)
    r4_constructor(ctx)
    r5_typestate(ctx)
    r6_rejection(ctx)
    from . import c12
    ctx.alias = {"R1": "R1", "R2": "R1"}      # purity extends to objects: cross_val_score never fits the caller's estimator, each split fits its own clone (C12.R1)
    try:
        c12.r1_r2_cross_val(ctx)
    finally:
        ctx.alias = {}
    from . import c13
    ctx.alias = {"R7": "R6"}          # "invalid regions are rejected": the check_region rule of C13.R7 is part of C20.R6
    try:
        c13.r7_check_region(ctx)
    finally:
        ctx.alias = {}
