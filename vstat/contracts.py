"""Repository contracts and the library model (signatures / arities) the engines rely on.

Everything here was filled from verde's own docstrings and doc/conventions (DESIGN §3.1, §6);
`check_docstrings` re-confirms the package side against the docstrings on every run.
"""
from .terms import is_int

# Parameters that are fixed-arity tuples by documented contract ("region : list = [W, E, S, N]" ...)
ARITY = {"region": 4, "shape": 2, "dims": 2, "point1": 2, "point2": 2}

# Calls whose result is a tuple of known length
CALL_ARITY = {
    "verde.coordinates.get_region": 4,
    "verde.coordinates.pad_region": 4,
    "verde.projections.project_region": 4,
    "verde.coordinates.shape_to_spacing": 2,
    "verde.io._read_surfer_header": 4,
    "verde.coordinates.profile_coordinates": 2,
    "verde.coordinates.block_split": 2,
    "verde.coordinates.rolling_window": 2,
    "verde.mask._get_grid_coordinates": 2,
    "verde.base.utils.check_fit_input": 3,
}


def call_arity(t):
    q = t[1][1]
    if q in CALL_ARITY:
        return CALL_ARITY[q]
    if q == "numpy.meshgrid" and t[2] and all(a[0] != "star" for a in t[2]):
        return len(t[2])
    if q == "verde.base.utils.n_1d_arrays":
        n = t[2][1] if len(t[2]) > 1 else dict(t[3]).get("n")
        if n is not None and is_int(n) and 0 < n[1] <= 8:
            return n[1]
    return None


# Positional parameter names of library callables (for positional <-> keyword normalisation).
# Keys: qualified name, or ".method" for methods looked up by attribute name.
# documented defaults of library keywords: a call that spells one of them out is the same call (engine A drops it from the term)
LIB_DEFAULTS = {
    ("numpy.meshgrid", "indexing"): "xy", ("numpy.linspace", "endpoint"): True, ("numpy.ravel", "order"): "C", ("numpy.reshape", "order"): "C", (".ravel", "order"): "C",
    (".flatten", "order"): "C", (".reshape", "order"): "C", ("numpy.unravel_index", "order"): "C", ("numpy.loadtxt", "unpack"): False, ("numpy.loadtxt", "ndmin"): 0,
    ("numpy.loadtxt", "skiprows"): 0, (".groupby", "sort"): True, (".groupby", "as_index"): True, (".groupby", "dropna"): True, ("numpy.searchsorted", "side"): "left",
    ("numpy.unique", "return_counts"): False, ("numpy.unique", "return_index"): False, ("numpy.unique", "return_inverse"): False, ("numpy.isin", "invert"): False,
    ("numpy.allclose", "equal_nan"): False, ("numpy.allclose", "rtol"): 1e-05, ("numpy.allclose", "atol"): 1e-08, ("numpy.nan_to_num", "copy"): True,
    ("numpy.array", "copy"): True, ("numpy.ma.masked_where", "copy"): True, (".copy", "order"): "C", (".astype", "copy"): True, (".query", "p"): 2, (".query", "k"): 1,
    (".query", "eps"): 0, (".query_ball_point", "eps"): 0, ("numpy.concatenate", "axis"): 0, ("numpy.cumsum", "axis"): None, ("numpy.sum", "axis"): None,
    ("numpy.mean", "axis"): None, ("numpy.median", "axis"): None, ("numpy.min", "axis"): None, ("numpy.max", "axis"): None, ("numpy.argmin", "axis"): None,
    ("numpy.argmax", "axis"): None, ("numpy.any", "axis"): None, ("numpy.all", "axis"): None, ("numpy.average", "axis"): None, ("numpy.var", "ddof"): 0, ("numpy.std", "ddof"): 0,
    ("numpy.split", "axis"): 0, ("numpy.transpose", "axes"): None, (".dropna", "how"): "any", (".dropna", "axis"): 0, ("numpy.broadcast_to", "subok"): False,
    ("scipy.spatial.Delaunay", "furthest_site"): False, ("scipy.spatial.Delaunay", "incremental"): False, ("scipy.spatial.cKDTree", "leafsize"): 16,
}


SIGNATURES = {
    "numpy.linspace": ["start", "stop", "num"],
    "numpy.ravel": ["a", "order"],
    "numpy.reshape": ["a", "shape", "order"],
    "numpy.empty": ["shape", "dtype", "order"],
    "numpy.zeros": ["shape", "dtype", "order"],
    "numpy.ones": ["shape", "dtype", "order"],
    "numpy.empty_like": ["prototype", "dtype", "order"],
    "numpy.zeros_like": ["a", "dtype", "order"],
    "numpy.ones_like": ["a", "dtype", "order"],
    "numpy.array": ["object", "dtype"],
    "numpy.asarray": ["a", "dtype", "order"],
    "numpy.nan_to_num": ["x", "copy", "nan", "posinf", "neginf"],
    "numpy.median": ["a", "axis"],
    "numpy.mean": ["a", "axis"],
    "numpy.sum": ["a", "axis"],
    "numpy.min": ["a", "axis"],
    "numpy.max": ["a", "axis"],
    "numpy.argmin": ["a", "axis"],
    "numpy.argmax": ["a", "axis"],
    "numpy.transpose": ["a", "axes"],
    "numpy.unravel_index": ["indices", "shape", "order"],
    "numpy.split": ["ary", "indices_or_sections", "axis"],
    "numpy.isin": ["element", "test_elements"],
    "numpy.where": ["condition", "x", "y"],
    "numpy.unique": ["ar"],
    "numpy.allclose": ["a", "b", "rtol", "atol"],
    "numpy.arctan2": ["x1", "x2"],
    "numpy.hypot": ["x1", "x2"],
    "numpy.logical_and": ["x1", "x2", "out"],
    "numpy.logical_or": ["x1", "x2", "out"],
    "numpy.greater_equal": ["x1", "x2", "out"],
    "numpy.less_equal": ["x1", "x2", "out"],
    "numpy.greater": ["x1", "x2", "out"],
    "numpy.less": ["x1", "x2", "out"],
    "numpy.loadtxt": ["fname", "dtype"],
    "numpy.concatenate": ["arrays", "axis"],
    "numpy.column_stack": ["tup"],
    "numpy.atleast_1d": ["a"],
    "numpy.atleast_2d": ["a"],
    "numpy.arange": ["start", "stop", "step"],
    "numpy.searchsorted": ["a", "v", "side"],
    "numpy.ma.masked_where": ["condition", "a"],
    "numpy.var": ["a", "axis"],
    "numpy.broadcast": None,
    "sklearn.model_selection.ShuffleSplit": ["n_splits", "test_size", "train_size", "random_state"],
    "sklearn.model_selection.KFold": ["n_splits", "shuffle", "random_state"],
    "sklearn.utils.validation.check_is_fitted": ["estimator", "attributes"],
    "sklearn.utils.check_random_state": ["seed"],
    "sklearn.base.clone": ["estimator"],
    "sklearn.metrics.check_scoring": ["estimator", "scoring"],
    "sklearn.preprocessing.StandardScaler": [],
    "sklearn.linear_model.Ridge": ["alpha"],
    "sklearn.linear_model.LinearRegression": [],
    "xarray.DataArray": ["data", "coords", "dims", "name", "attrs"],
    "xarray.Dataset": ["data_vars", "coords", "attrs"],
    "pandas.DataFrame": ["data", "index", "columns"],
    "dask.delayed": ["obj"],
    "scipy.spatial.Delaunay": ["points"],
    "scipy.spatial.cKDTree": ["data"],
    ".query": ["x", "k"],
    ".query_ball_point": ["x", "r", "p"],
    ".find_simplex": ["xi"],
    ".uniform": ["low", "high", "size"],
    ".groupby": ["by"],
    ".aggregate": ["func"],
    ".apply": ["func"],
    ".where": ["cond"],
    ".reshape": None,
    ".fit_transform": ["X"],
    ".submit": None,
}

# Methods named `fit` on regressors vs gridders are told apart by the rules, not here.


def canonical_args(names, args, kws):
    """canonical argument form of a call whose positional parameter names are known: every argument that can be positional is
    positional (maximal contiguous prefix of `names`), the rest are keywords in signature order.  Calls with *args/**kwargs that
    could not be expanded are left as written.  Positional <-> keyword spelling therefore never changes a term."""
    if names is None or any(a[0] == "star" for a in args) or any(k is None for k, _v in kws) or len(args) > len(names):
        return tuple(args), tuple(kws)
    m = dict(zip(names, args))
    extra = []
    for k, v in kws:
        if k in names and k not in m:
            m[k] = v
        else:
            extra.append((k, v))
    pos = []
    for n in names:
        if n in m:
            pos.append(m[n])
        else:
            break
    rest = [(n, m[n]) for n in names[len(pos):] if n in m] + extra
    return tuple(pos), tuple(rest)


def package_signature(pkg, f, cls=None):
    """positional parameter names for a callee term that resolves inside the package (function, class, self.method), else None"""
    if f[0] == "glob":
        q = f[1]
        if q in pkg.functions and not pkg.functions[q].vararg:
            return pkg.functions[q].call_params
        if q in pkg.classes:
            init = pkg.find_method(q, "__init__")
            return init.call_params if init is not None and not init.vararg else None
        return None
    if f[0] == "attr" and f[1] == ("param", "self") and cls is not None:
        m = pkg.find_method(cls.qual, f[2])
        if m is not None and not m.vararg and not m.is_property:
            return m.call_params
        return None
    if f[0] == "attr" and f[2] in ("fit", "filter", "predict", "score", "grid", "split", "jacobian"):
        sigs = {tuple(fn.call_params) for fn in pkg.functions.values() if fn.cls is not None and fn.name == f[2] and not fn.vararg}
        if sigs:
            common = []
            for tup in zip(*sorted(sigs, key=len)):
                if len(set(tup)) == 1:
                    common.append(tup[0])
                else:
                    break
            longest = max(sigs, key=len)
            if all(s_[: len(common)] == tuple(common) for s_ in sigs) and common:
                return list(longest) if all(longest[: len(s_)] == s_ for s_ in sigs) else common
    return None


def positional_names(pkg, call):
    """names of the positional parameters of the callee of `call`, or None if unknown"""
    f = call[1]
    if f[0] == "glob":
        q = f[1]
        if q in pkg.functions:
            return pkg.functions[q].call_params
        if q in pkg.classes:
            init = pkg.find_method(q, "__init__")
            return init.call_params if init else []
        return SIGNATURES.get(q)
    if f[0] == "attr":
        return SIGNATURES.get("." + f[2])
    return None


def argument(pkg, call, name, names=None, caller=None):
    """term passed for parameter `name` of a call (positional or keyword), or None if not passed.
    Returns the string 'unknown' when a *star / **kwargs argument could carry it.  `caller` (a loader.Function): the
    caller's own **kwargs cannot carry a name that is one of the caller's named parameters."""
    for k, v in call[3]:
        if k == name:
            return v
    names = names if names is not None else positional_names(pkg, call)
    if names is not None and name in names:
        i = names.index(name)
        pos = call[2]
        if any(a[0] == "star" for a in pos[: i + 1]):
            return "unknown"
        if i < len(pos):
            return pos[i]
    for k, v in call[3]:
        if k is None:
            if caller is not None and v == ("param", "**" + (caller.kwarg or "")) and name in caller.params:
                continue
            return "unknown"
    return None


# ---------------------------------------------------------------------------------------------------------------------
# Docstring confirmation of the role contracts (DESIGN 3.1): the parameter roles used by engine B are keyed by the
# package-wide parameter names; every numpydoc entry that states an explicit order must state THIS order.  A docstring
# that declares another order is specification drift -> UNDECIDED (exit 2), never a violation of the code.
import re as _re

_ORDERS = {
    "region": (_re.compile(r"\b[Ww]\W{1,4}[Ee]\W{1,4}[Ss]\W{1,4}[Nn]\b"), _re.compile(r"\b[WwEeSsNn]\W{1,4}[WwEeSsNn]\W{1,4}[WwEeSsNn]\W{1,4}[WwEeSsNn]\b")),
    "shape": (_re.compile(r"n_north\w*\s*,\s*n_east"), _re.compile(r"n_east\w*\s*,\s*n_north")),
    "spacing": (_re.compile(r"s_north\w*\s*,\s*s_east"), _re.compile(r"s_east\w*\s*,\s*s_north")),
    "pad": (_re.compile(r"pad_north\w*\s*,\s*pad_east"), _re.compile(r"pad_east\w*\s*,\s*pad_north")),
    "coordinates": (_re.compile(r"easting\W{1,6}northing"), _re.compile(r"northing\W{1,6}easting")),
    "dims": (_re.compile(r"northing\W[^.]{0,40}easting", _re.S), _re.compile(r"easting\W[^.]{0,40}northing", _re.S)),
}


def numpydoc_params(doc):
    """{param: text of its entry (type line + description)} of a numpydoc 'Parameters' section"""
    out = {}
    lines = doc.splitlines()
    try:
        start = next(i for i, ln in enumerate(lines) if ln.strip() == "Parameters")
    except StopIteration:
        return out
    cur = None
    for ln in lines[start + 2:]:
        if _re.match(r"^\s*[A-Z][A-Za-z ]+$", ln) and ln.strip() in ("Returns", "Yields", "Examples", "See also", "See Also", "Notes", "References", "Attributes", "Raises", "Warns"):
            break
        m = _re.match(r"^(\s*)(\*{0,2}\w+)\s*:\s*(.*)$", ln)
        if m and len(m.group(1)) <= 8 and not ln.strip().startswith(">>>"):
            cur = m.group(2).lstrip("*")
            out[cur] = m.group(3)
        elif cur is not None:
            out[cur] += "\n" + ln.strip()
    return out


def docstring_contract(fn):
    """[(param, 'confirmed' | 'silent' | 'drift', text)] for the role-typed parameters of a function"""
    res = []
    ps = numpydoc_params(fn.docstring())
    for p in fn.params:
        if p not in _ORDERS or p not in ps:
            continue
        good, any_order = _ORDERS[p]
        txt = ps[p]
        if good.search(txt):
            res.append((p, "confirmed", txt.splitlines()[0][:80]))
        elif any_order.search(txt):
            res.append((p, "drift", txt.splitlines()[0][:80]))
        else:
            res.append((p, "silent", txt.splitlines()[0][:80]))
    return res
