"""CLI: python -m vstat check <id> [--tier quick|thorough] [--root DIR] | replay <file> | baseline <id> | show <fn>"""
import argparse
import json
import os
import sys


def main(argv=None):
    ap = argparse.ArgumentParser(prog="vstat")
    sub = ap.add_subparsers(dest="cmd", required=True)
    c = sub.add_parser("check")
    c.add_argument("prop")
    c.add_argument("--tier", default=os.environ.get("VERIF_TIER", "quick"), choices=["quick", "thorough"])
    c.add_argument("--root", default="/repo/verde")
    c.add_argument("-v", action="store_true")
    r = sub.add_parser("replay")
    r.add_argument("path")
    r.add_argument("--root", default="/repo/verde")
    b = sub.add_parser("baseline")
    b.add_argument("prop")
    b.add_argument("--root", default="/repo/verde")
    s = sub.add_parser("show")
    s.add_argument("fn")
    s.add_argument("--root", default="/repo/verde")
    s.add_argument("-e", action="store_true")
    k = sub.add_parser("corpus")
    k.add_argument("prop")
    k.add_argument("--root", default="/repo/verde")
    k.add_argument("--only", nargs="*")
    k.add_argument("-j", type=int, default=16)
    n = sub.add_parser("norm")
    n.add_argument("file")
    a = ap.parse_args(argv)
    from . import report
    if a.cmd == "check":
        code, ctx, lines = report.run_property(a.prop, a.tier, root=a.root)
        for ln in lines:
            print(ln)
        if a.v and ctx:
            for o in ctx.obs.values():
                print("  %-10s %-10s %s :: %s" % (o.verdict, o.rule, o.construct, o.what[:160]))
        return code
    if a.cmd == "replay":
        rec = json.loads(open(a.path).read())
        code, ctx, lines = report.run_property(rec["property"], rec.get("tier", "quick"), root=a.root, write=False, quiet=True)
        hit = [o for o in (ctx.obs.values() if ctx else []) if o.rule == rec["rule"] and o.construct == rec["construct"]]
        print("replay of %s %s" % (rec["rule"], rec["construct"]))
        print("recorded: %s" % rec["established"])
        for o in hit:
            print("now: %s [%s:%s] %s" % (o.verdict, o.file, o.line, o.what))
            if o.verdict == "VIOLATED":
                print("VIOLATION property=%s replay=%s" % (rec["property"], a.path))
                return 1
        if not hit:
            print("now: obligation not found on the current tree")
            return 2
        return 0
    if a.cmd == "baseline" and a.prop == "libcalls":
        from .loader import Package
        from .paths import Analysis
        from .rules import common
        pkg = Package(a.root)
        ctx = report.Ctx("C00", "quick", pkg, Analysis(pkg))
        out = {}
        for qn in sorted(pkg.functions):
            c = common.library_calls(ctx, qn)
            if c:
                out[qn] = sorted(c)
        p = report.VERIF / "baseline" / "libcalls.json"
        p.write_text(json.dumps(out, indent=0))
        print("wrote", p, len(out), "functions,", sum(len(v) for v in out.values()), "bound library parameters")
        return 0
    if a.cmd == "baseline" and a.prop == "functions":
        from .loader import Package
        pkg = Package(a.root)
        p = report.VERIF / "baseline" / "functions.json"
        p.write_text(json.dumps(sorted(pkg.functions), indent=0))
        print("wrote", p, len(pkg.functions), "functions (helpers not listed here are looked through by engine A)")
        return 0
    if a.cmd == "baseline":
        code, ctx, lines = report.run_property(a.prop, "quick", root=a.root, write=False, quiet=True)
        keys = sorted(o.key for o in ctx.obs.values() if not o.soft)
        per_sets = {}
        for o in ctx.obs.values():
            if not o.soft:
                per_sets.setdefault(o.rule, set()).add(report._untag(o.key))
        per = {r: len(v) for r, v in per_sets.items()}
        out = {"property": a.prop, "confirmed_on": "pinned tree + fix commits", "obligations": keys, "min_per_rule": per}
        p = report.VERIF / "baseline" / (a.prop + ".obligations.json")
        p.parent.mkdir(exist_ok=True)
        p.write_text(json.dumps(out, indent=1))
        print("wrote", p, len(keys), "obligations")
        return 0
    if a.cmd == "corpus":
        from . import mutate
        res = mutate.run_corpus(a.prop, a.root, a.j, a.only)
        bad = 0
        for r in res:
            flag = "ok  " if r["ok"] else ("skip" if r["ok"] is None else "FAIL")
            bad += r["ok"] is False
            print("%s %-10s->%-10s %-44s %s" % (flag, r["expect"], r["got"], r["name"], (r["reported"][0][0] + " " + r["reported"][0][1] + ": " + r["reported"][0][2][:90]) if r["reported"] else r["why"][:140]))
        print("%d variants, %d wrong, %d skipped" % (len(res), bad, sum(r["ok"] is None for r in res)))
        return 1 if bad else 0
    if a.cmd == "norm":
        from . import mutate
        print(mutate.normalised(open(a.file).read()))
        return 0
    if a.cmd == "show":
        from .loader import Package
        from .paths import Analysis
        from .terms import show
        pkg = Package(a.root)
        an = Analysis(pkg)
        for q in pkg.functions:
            if q.endswith(a.fn):
                fa = an.fa(q)
                print("==", q, "unsupported: %s" % fa.unsupported if not fa.ok else "")
                todo = [("", fa)] + [(n, s) for n, s in fa.nested.items()]
                for nm, f in todo:
                    if nm:
                        print(" -- nested", nm)
                    for p in f.paths:
                        print("  PATH", p.exit, show(p.value)[:400])
                        print("     conds", [(show(cc)[:70], v) for cc, v in p.conds])
                        if a.e:
                            for e in p.events:
                                print("      ", e.kind, [show(d)[:200] if isinstance(d, tuple) else d for d in e.data])
        return 0


if __name__ == "__main__":
    try:
        sys.exit(main())
    except BrokenPipeError:
        sys.exit(0)
