"""C07 - regular coordinates honour region, spacing, shape and registration (DESIGN §4 C07)."""
from .. import q as Q
from .. import spec
from ..nf import Builder, Space, Undecided, compare
from ..paths import lookup
from ..terms import callee, canon, const, is_const, kw, show, walk, NONE
from . import common as K

EXPLANATION = ("normal forms of spacing_to_size / shape_to_spacing / the pixel shift / profile_coordinates compared path by path with the transcribed "
               "docstring formulas; role/axis typing of grid_coordinates and its callers; forwarding and guard checks")
RULES = {
    "R1": "spacing_to_size: size = int(round(extent/spacing)) + 1, at least 2; adjust='region' moves only the stop to start + (size-1)*spacing; invalid adjust raises",
    "R2": "line_coordinates: both/neither raise; linspace(start, stop', n) with n from spacing_to_size, size, or size+1 for pixel registration; pixel shift = half a step, last node dropped",
    "R3": "grid_coordinates: east line from (W, E, shape[1], spacing[1]), north line from (S, N, shape[0], spacing[0]); adjust/pixel_register forwarded; "
          "meshgrid(east, north); extra coordinates are constant arrays appended after the first two; validation first",
    "R4": "shape_to_spacing == ((N-S)/(n_north - p), (E-W)/(n_east - p)), p = 0 for pixel registration else 1",
    "R5": "profile_coordinates: evenly spaced along the segment, distances from the first point; size <= 0 raises",
}
ASSUMPTIONS = ["np.linspace hits both bounds and spaces evenly (library)", "Python's round at exact .5 ties and floating-point effects of huge offsets are declined"]


def cond_key(b, c):
    """(shape key, detail): paths are matched by the shape of their conditions; the compared quantity / literal is checked separately"""
    if c[0] == "cmp" and c[1] in ("==", "!=", "<", "<=", ">", ">=") and is_const(c[3]) and isinstance(c[3][1], (int, float)) and not isinstance(c[3][1], bool):
        try:
            r = b.nf(c[2])
            lit = c[3][1]
            # a constant offset on the tested quantity moves to the literal: `n + 1 == 1` is `n == 0` (nodes against segments)
            from ..nf import ONE, R
            if r.den == ONE and r.constval() != 0 and not r.is_const():
                k = r.constval()
                r = r - R.c(b.sp, k)
                lit = lit - k
                lit = int(lit) if lit == int(lit) else float(lit)
            return ("num", c[1], lit), repr(r)
        except Undecided:
            pass
    if c[0] == "cmp" and c[1] in ("==", "!=") and is_const(c[3]) and isinstance(c[3][1], str):
        return ("str", c[1], canon(c[2]) if c[2][0] != "param" else ("param", b.synonyms.get(c[2][1], c[2][1])), c[3][1]), None
    if c[0] == "cmp" and c[1] in ("in", "notin") and c[3][0] in ("list", "tuple", "set") and all(is_const(x) for x in c[3][1]):
        # membership in a literal collection: the kind of collection and the order of its members do not matter
        members = ("tuple", tuple(sorted(c[3][1], key=repr)))
        lhs = ("param", b.synonyms.get(c[2][1], c[2][1])) if c[2][0] == "param" else c[2]
        return ("term", canon(("cmp", c[1], lhs, members))), None
    if c[0] == "cmp" and c[2][0] == "param":
        return ("term", canon(("cmp", c[1], ("param", b.synonyms.get(c[2][1], c[2][1])), c[3]))), None
    return ("term", canon(c)), None


def str_domains(paths):
    """{tested term: set of admissible literals} from the membership validations (`x not in [a, b]: raise`) of the given paths"""
    out = {}
    for p in paths:
        for c, _v in p.conds:
            if c[0] == "cmp" and c[1] in ("notin", "in") and c[3][0] in ("list", "tuple") and c[3][1] and all(is_const(x) and isinstance(x[1], str) for x in c[3][1]):
                out[canon(c[2])] = {x[1] for x in c[3][1]}
    return out


def path_key(b, p, domains=None):
    """string tests are brought to one form: `x != lit` is `not (x == lit)`, and on a validated two-valued domain {a, b}
    `x == b` is `not (x == a)` - so a branch written on the complementary literal is matched, not reported"""
    keys, details = set(), {}
    for c, v in p.conds:
        k, d = cond_key(b, c)
        if k[0] == "str":
            _s, op_, lhs, lit = k
            if op_ == "!=":
                v = not v
            dom = (domains or {}).get(canon(lhs))
            if dom and len(dom) == 2 and lit in dom and lit != min(dom):
                lit, v = min(dom), not v
            k = ("str", lhs, lit)
        keys.add((k, v))
        details[(k, v)] = d
    return frozenset(keys), details


def key_tag(key):
    """obligation tag from the NORMALISED path condition (independent of how the branches are written)"""
    def lab(k):
        if k[0] == "num":
            return "%s%s" % (k[1], k[2])
        if k[0] == "str":
            return k[2]
        return "valid" if any(isinstance(x, tuple) and x and x[0] == "cmp" and x[1] in ("notin", "in") for x in walk(k[1])) or (k[1][0] == "cmp" and k[1][1] in ("notin", "in")) else "c"
    return ",".join(sorted("%s:%s" % (lab(k), "T" if v else "F") for k, v in key)) or "-"


def compare_paths(ctx, rule, qn, specname, syn=None, env_of=None, what=""):
    """every return path of qn agrees with every specification path whose condition set contains its own"""
    f = ctx.pkg.fn(qn)
    sp = Space()
    syn = syn or dict(zip(f.params, spec.params(specname)))
    bi = Builder(sp, synonyms=syn)
    bs = Builder(sp)
    domains = str_domains(spec.paths(specname))
    spaths = [path_key(bs, p, domains) + (p,) for p in spec.paths(specname) if p.exit == "return"]
    n = 0
    for p in ctx.paths(qn):
        if p.exit != "return":
            continue
        key, details = path_key(bi, p, domains)
        tag = key_tag(key)
        matches = [sp_ for k, _d, sp_ in spaths if key <= k]
        clash = None
        for k, d, _sp in spaths:
            if key <= k:
                for kk in key:
                    if details[kk] is not None and d[kk] is not None and details[kk] != d[kk]:
                        clash = "the branch condition tests %s where the documentation tests %s" % (details[kk], d[kk])
        if not clash and not matches:
            # the same quantity compared with another number than the documentation compares it with
            for kk in key:
                if kk[0][0] != "num" or details.get(kk) is None:
                    continue
                for k, d, _sp in spaths:
                    for k2 in k:
                        if k2[0][0] == "num" and k2[0][1] == kk[0][1] and d.get(k2) == details[kk] and k2[0][2] != kk[0][2] and (key - {kk}) <= (k - {k2}):
                            clash = "the branch tests %s %s %s where the documentation tests %s %s %s" % (details[kk], kk[0][1], kk[0][2], d[k2], k2[0][1], k2[0][2])
        if clash:
            ctx.add(rule, "%s|formula|%s" % (qn, tag), "VIOLATED", "%s: %s" % (qn.rsplit(".", 1)[1], clash), fn=qn, line=p.line)
            n += 1
            continue
        if not matches:
            ctx.add(rule, "%s|formula|%s" % (qn, tag), "UNDECIDED", "no specification path matches the path condition", fn=qn, line=p.line)
            continue
        verdict = True
        detail = ""
        def with_equalities(path):
            """the returned value with every quantity the path has decided to EQUAL a number replaced by that number (`n == 0` held, so n is 0)"""
            from ..terms import subst
            eq = {c[2]: c[3] for c, v_ in path.conds if v_ and c[0] == "cmp" and c[1] == "==" and is_const(c[3]) and isinstance(c[3][1], (int, float)) and not isinstance(c[3][1], bool)}
            return subst(path.value, eq) if eq else path.value
        decided_eq = any(kk[0][0] == "num" and kk[0][1] == "==" and kk[1] for kk in key)      # only what this path itself decided may be used
        for sp_ in matches:
            gv, wv = (with_equalities(p), with_equalities(sp_)) if decided_eq else (p.value, sp_.value)
            gs = list(gv[1]) if gv[0] == "tuple" else [gv]
            ws = list(wv[1]) if wv[0] == "tuple" else [wv]
            if len(gs) != len(ws):
                verdict, detail = False, "returns %d values, documented %d" % (len(gs), len(ws))
                break
            for i, (g, w) in enumerate(zip(gs, ws)):
                try:
                    r = compare(sp, bi.nf(g), bs.nf(w))
                    gd, wd = repr(bi.nf(g))[:120], repr(bs.nf(w))[:120]
                except Undecided as e:
                    r, gd, wd = None, str(e), ""
                if r is False:
                    verdict, detail = False, "result #%d is %s, documented %s" % (i, gd, wd)
                elif r is None and verdict is True:
                    verdict, detail = None, "result #%d: %s vs %s" % (i, gd, wd)
            if verdict is False:
                break
        n += 1
        ctx.check(rule, "%s|formula|%s" % (qn, tag), verdict, (what or "the returned values equal the documented formula") + " [normal forms equal on this path]",
                  bad="%s: %s" % (qn.rsplit(".", 1)[1], detail), fn=qn, line=p.line, undecided="normal forms not comparable: " + detail)
    return n


def exact_stop(ctx, rule):
    qn = "verde.coordinates.spacing_to_size"
    # "with adjust='spacing' both bounds are hit exactly": the stop handed to linspace must be the caller's stop itself, not a
    # value recomputed through floating-point arithmetic (start + (n-1)*((stop-start)/(n-1)) equals stop only in exact arithmetic)
    domains = str_domains(spec.paths("coords.spacing_to_size"))
    for p in ctx.paths(qn):
        if p.exit != "return" or p.value[0] != "tuple" or len(p.value[1]) != 2:
            continue
        key, _d = path_key(Builder(Space()), p, domains)
        if not any(k[0] == "str" and k[2] == "region" and v is False for k, v in key):
            continue
        tag = key_tag(key)
        st = p.value[1][1]
        rounding = any(x[0] == "binop" and (x[1] in ("/", "//", "**") or (x[1] == "*" and not (is_const(x[2]) or is_const(x[3])))) for x in walk(st))
        ctx.check(rule, "%s|stop-returned-exactly|%s" % (qn, tag), True if st == ("param", "stop") else (False if rounding else None),
                  "adjust='spacing' returns the caller's stop unchanged (bit-exact)",
                  bad="adjust='spacing' recomputes the stop as %s: floating-point rounding moves the end of the interval off the requested bound" % show(st)[:100], fn=qn, line=p.line)


def r1_spacing_to_size(ctx):
    qn = "verde.coordinates.spacing_to_size"
    n = compare_paths(ctx, "R1", qn, "coords.spacing_to_size")
    if n < 4:
        ctx.add("R1", qn + "|paths", "UNDECIDED", "only %d return paths compared (4 expected)" % n, fn=qn)
    exact_stop(ctx, "R1")
    ok = any(p.exit == "raise" and p.conds and p.conds[0][0][0] == "cmp" and p.conds[0][0][1] in ("notin", "in") and p.conds[0][0][2] == ("param", "adjust") for p in ctx.paths(qn))
    first = all(not p.events or True for p in ctx.paths(qn))
    ctx.check("R1", qn + "|invalid-adjust-raises", True if ok and first else False, "an adjust other than 'spacing'/'region' raises", bad="invalid adjust values are no longer rejected", fn=qn)


def r2_line_coordinates(ctx):
    qn = "verde.coordinates.line_coordinates"
    paths = ctx.paths(qn)
    both, neither = K.both_neither(ctx, qn, "size", "spacing")
    ctx.check("R2", qn + "|rejects-both", both, "both size and spacing raise", bad="both size and spacing no longer raise", fn=qn)
    ctx.check("R2", qn + "|rejects-neither", neither, "neither size nor spacing raises", bad="neither size nor spacing no longer raises", fn=qn)
    sts = ("call", ("glob", "verde.coordinates.spacing_to_size"), (("param", "start"), ("param", "stop"), ("param", "spacing"), ("param", "adjust")), (), 0)
    for p in paths:
        if p.exit != "return":
            continue
        by_spacing = lookup(p.decided, ("cmp", "is", ("param", "spacing"), NONE)) is False
        pix = lookup(p.decided, ("param", "pixel_register"))
        tag = "%s,%s" % ("spacing" if by_spacing else "size", "pixel" if pix else "node")
        lins = [e.data[0] for e in p.events if e.kind == "call" and callee(e.data[0]) == "numpy.linspace"]
        if len(lins) != 1:
            ar = [e.data[0] for e in p.events if e.kind == "call" and callee(e.data[0]) == "numpy.arange" and len(e.data[0][2]) >= 3 and not is_const(e.data[0][2][2])]
            if ar and any(x == ar[0] for x in walk(p.value)):
                # the number of nodes must be the computed size; np.arange with a floating-point step derives it from ceil((stop - start) / step),
                # which numpy documents as unreliable (one node more or less after round-off)
                ctx.add("R2", "%s|linspace|%s" % (qn, tag), "VIOLATED", "the nodes are generated by %s: with a non-integer step the number of nodes depends on round-off "
                        "(np.linspace with the computed size is what fixes it)" % show(ar[0])[:70], fn=qn)
            else:
                ctx.add("R2", "%s|linspace|%s" % (qn, tag), "UNDECIDED", "expected one linspace call", fn=qn)
            continue
        ln = lins[0]
        a, b_, n = (Q.arg(ctx, ln, x) for x in ("start", "stop", "num"))
        if by_spacing:
            want = (("param", "start"), Q.sub(sts, 1), Q.sub(sts, 0))
            wrongs = [(("param", "start"), ("param", "stop"), Q.sub(sts, 0))]
        elif pix:
            want = (("param", "start"), ("param", "stop"), ("binop", "+", ("param", "size"), const(1)))
            wrongs = [(("param", "start"), ("param", "stop"), ("param", "size"))]
        else:
            want = (("param", "start"), ("param", "stop"), ("param", "size"))
            wrongs = [(("param", "start"), ("param", "stop"), ("binop", "+", ("param", "size"), const(1))), (("param", "start"), ("param", "stop"), ("binop", "-", ("param", "size"), const(1)))]
        got = tuple(canon(x) if isinstance(x, tuple) else x for x in (a, b_, n))
        ok = True if got == tuple(canon(x) for x in want) else (False if any(got == tuple(canon(x) for x in w) for w in wrongs) or (isinstance(n, tuple) and is_const(n)) else None)
        ctx.check("R2", "%s|linspace|%s" % (qn, tag), ok, "values = linspace(%s)" % ", ".join(show(x) for x in want),
                  bad="values = linspace(%s) instead of linspace(%s)" % (", ".join(show(x) if isinstance(x, tuple) else str(x) for x in (a, b_, n)), ", ".join(show(x) for x in want)), fn=qn)
        # value returned
        sp = Space()
        bi = Builder(sp)
        env = {ln: sp.sym("values")}
        try:
            got_nf = bi.nf(p.value, env)
            if pix:
                want_nf = Builder(sp).nf([q_ for q_ in spec.paths("coords.pixel_shift") if q_.exit == "return"][0].value)
                r = compare(sp, got_nf, want_nf)
                what = "pixel registration returns values[:-1] + (values[1] - values[0]) / 2"
            else:
                r = True if p.value == ln else None
                want_nf = "values"
                what = "grid-node registration returns the linspace values unchanged"
        except Undecided as e:
            r, got_nf, want_nf, what = None, str(e), "", "returned values"
        ctx.check("R2", "%s|returned-values|%s" % (qn, tag), r, what, bad="returns %s, documented %s" % (repr(got_nf)[:120], repr(want_nf)[:120]), fn=qn)


def r3_grid_coordinates(ctx):
    qn = "verde.coordinates.grid_coordinates"
    K.roles_rule(ctx, "R3", [qn], require={qn: [{"line-args"}, {"meshgrid-operands"}, {"region-arg"}]})
    paths = ctx.paths(qn)
    LC = "verde.coordinates.line_coordinates"
    reg = ("param", "region")
    for p in paths:
        if p.exit != "return":
            continue
        lcs = [e.data[0] for e in p.events if e.kind == "call" and callee(e.data[0]) == LC]
        by_shape = lookup(p.decided, ("cmp", "is", ("param", "shape"), NONE)) is False
        scalar = any(c[0] == "cmp" and c[1] == "==" and c[3] == const(1) and v for c, v in p.conds)
        mesh = lookup(p.decided, ("param", "meshgrid"))
        extra = lookup(p.decided, ("cmp", "is", ("param", "extra_coords"), NONE)) is False
        tag = "%s,%s,%s" % ("shape" if by_shape else ("scalar-spacing" if scalar else "pair-spacing"), "mesh" if mesh else "1d", "extra" if extra else "noextra")
        if len(lcs) != 2:
            ctx.add("R3", "%s|two-lines|%s" % (qn, tag), "UNDECIDED", "expected two line_coordinates calls", fn=qn)
            continue
        for ax, c in zip(("east", "north"), lcs):
            for nm in ("adjust", "pixel_register"):
                v = Q.arg(ctx, c, nm)
                ok = True if v == ("param", nm) else (False if v is None or (isinstance(v, tuple) and is_const(v)) else None)
                ctx.check("R3", "%s|%s-line-%s|%s" % (qn, ax, nm, tag), ok, "%s is forwarded to the %s line" % (nm, ax),
                          bad="the %s line gets %s=%s" % (ax, nm, show(v) if isinstance(v, tuple) else "the default"), fn=qn)
            i = 0 if ax == "east" else 2
            s0, s1 = Q.arg(ctx, c, "start"), Q.arg(ctx, c, "stop")
            ok = True if (s0, s1) == (Q.sub(reg, i), Q.sub(reg, i + 1)) else (False if {s0, s1} <= {Q.sub(reg, k) for k in range(4)} else None)
            ctx.check("R3", "%s|%s-line-bounds|%s" % (qn, ax, tag), ok, "the %s line spans region[%d]..region[%d]" % (ax, i, i + 1),
                      bad="the %s line spans %s..%s" % (ax, show(s0), show(s1)), fn=qn)
            j = 1 if ax == "east" else 0
            if by_shape:
                sz = Q.arg(ctx, c, "size")
                ok = True if sz == Q.sub(("param", "shape"), j) else (False if isinstance(sz, tuple) and sz[0] == "sub" and sz[1] == ("param", "shape") else None)
                ctx.check("R3", "%s|%s-line-size|%s" % (qn, ax, tag), ok, "the %s line has shape[%d] nodes" % (ax, j), bad="the %s line has %s nodes" % (ax, show(sz) if isinstance(sz, tuple) else sz), fn=qn)
            else:
                spc = Q.arg(ctx, c, "spacing")
                a1 = ("call", ("glob", "numpy.atleast_1d"), (("param", "spacing"),), (), 0)
                wantk = 0 if scalar else j
                ok = True if isinstance(spc, tuple) and canon(spc) == canon(Q.sub(a1, wantk)) else (False if isinstance(spc, tuple) and spc[0] == "sub" and is_const(spc[2]) and canon(spc[1]) == canon(a1) else None)
                ctx.check("R3", "%s|%s-line-spacing|%s" % (qn, ax, tag), ok, "the %s line uses spacing[%d]" % (ax, wantk),
                          bad="the %s line uses %s" % (ax, show(spc) if isinstance(spc, tuple) else spc), fn=qn)
        # result structure
        v = p.value
        els = v[1] if v[0] in ("tuple", "list") else ()
        if mesh:
            mg = [e.data[0] for e in p.events if e.kind == "call" and callee(e.data[0]) == "numpy.meshgrid"]
            ok = len(mg) == 1 and mg[0][2] == (lcs[0], lcs[1]) and len(els) >= 2 and els[0] == Q.sub(mg[0], 0) and els[1] == Q.sub(mg[0], 1)
            ctx.check("R3", "%s|result-is-meshgrid(east, north)|%s" % (qn, tag), True if ok else None, "the first two results are np.meshgrid(east line, north line)", fn=qn)
        else:
            ok = len(els) == 2 and els[0] == lcs[0] and els[1] == lcs[1]
            ctx.check("R3", "%s|result-is-(east, north)|%s" % (qn, tag), True if ok else (False if len(els) == 2 and els[0] == lcs[1] and els[1] == lcs[0] else None),
                      "meshgrid=False returns the (east, north) vectors", bad="meshgrid=False returns (north, east)", fn=qn)
        if extra and mesh:
            tail = els[2:]
            ok = None
            if len(tail) == 1 and tail[0][0] == "star" and tail[0][1][0] == "comp":
                elt = tail[0][1][2]
                if elt[0] == "binop" and elt[1] == "*":
                    a, b_ = elt[2], elt[3]
                    ones = a if a[0] == "call" else b_
                    val = b_ if ones is a else a
                    if ones[0] == "call" and callee(ones) == "numpy.ones_like" and ones[2] and ones[2][0] in (els[0], els[1]) and val[0] == "elem":
                        ok = True
                    elif ones[0] == "call" and callee(ones) in ("numpy.zeros_like", "numpy.empty_like"):
                        ok = False
            ctx.check("R3", "%s|extra-coordinates|%s" % (qn, tag), ok, "each extra coordinate is ones_like(first grid array) * value, appended after easting/northing",
                      bad="extra coordinates are not constant arrays of the given value", fn=qn)
    # validation first
    K.precedes(ctx, "R3", qn, K.is_call("verde.coordinates.check_region"), K.is_call(LC), "check_region-before-lines", "check_region(region) precedes coordinate generation")
    r = [e.data[0] for p in paths for e in p.events if e.kind == "call" and callee(e.data[0]) == "verde.coordinates.check_region"]
    ctx.check("R3", qn + "|check_region-argument", True if r and all(c[2] == (reg,) for c in r) else None, "check_region receives the region parameter", fn=qn)
    three = any(p.exit == "raise" and p.conds and p.conds[-1][0][0] == "cmp" and p.conds[-1][0][1] == ">" and p.conds[-1][0][3] == const(2) for p in paths)
    ctx.check("R3", qn + "|rejects-three-spacings", True if three else False, "more than two spacing values raise", bad="more than two spacing values are accepted", fn=qn)
    ex1d = any(p.exit == "raise" and lookup(p.decided, ("param", "meshgrid")) is False and lookup(p.decided, ("cmp", "is", ("param", "extra_coords"), NONE)) is False for p in paths)
    ctx.check("R3", qn + "|rejects-extra-coords-without-meshgrid", True if ex1d else False, "extra_coords with meshgrid=False raises", bad="extra_coords with meshgrid=False is accepted", fn=qn)


def r4_shape_to_spacing(ctx):
    qn = "verde.coordinates.shape_to_spacing"
    for p in ctx.paths(qn):
        if p.exit != "return":
            continue
        pix = lookup(p.decided, ("param", "pixel_register"))
        name = "coords.shape_to_spacing_pixel" if pix else "coords.shape_to_spacing_grid"
        sp = Space()
        bi, bs = Builder(sp), Builder(sp)
        want = [q_ for q_ in spec.paths(name) if q_.exit == "return"][0].value
        v = p.value
        v = Q.unseq(v)
        tag = "pixel" if pix else "node"
        if v[0] not in ("tuple", "list") or len(v[1]) != 2:
            ctx.add("R4", "%s|formula|%s" % (qn, tag), "UNDECIDED", "result is not a pair: %s" % show(v)[:80], fn=qn)
            continue
        res, detail = True, ""
        for i in range(2):
            try:
                r = compare(sp, bi.nf(v[1][i]), bs.nf(want[1][i]))
                if r is not True:
                    res = r if res is True or r is False else res
                    detail = "element %d is %s, documented %s" % (i, repr(bi.nf(v[1][i]))[:100], repr(bs.nf(want[1][i]))[:100])
                    if r is False:
                        break
            except Undecided as e:
                res, detail = None, str(e)
        ctx.check("R4", "%s|formula|%s" % (qn, tag), res, "result == ((N - S) / (n_north - p), (E - W) / (n_east - p)), p = %d" % (0 if pix else 1),
                  bad="shape_to_spacing: " + detail, fn=qn, undecided=detail)
    K.roles_rule(ctx, "R4", [qn])


def r5_profile(ctx):
    qn = "verde.coordinates.profile_coordinates"
    K.roles_rule(ctx, "R5", [qn], with_return=False)      # an arctan2 sink is typed when there is one; direction cosines need none
    sp = Space()
    bi, bs = Builder(sp), Builder(sp)
    want = [q_ for q_ in spec.paths("coords.profile_coordinates") if q_.exit == "return"][0].value
    wc, wd = want[1][0], want[1][1]
    for p in ctx.paths(qn):
        if p.exit != "return":
            continue
        extra = lookup(p.decided, ("cmp", "is", ("param", "extra_coords"), NONE)) is False
        tag = "extra" if extra else "noextra"
        v = p.value
        if v[0] != "tuple" or len(v[1]) != 2:
            ctx.add("R5", "%s|result|%s" % (qn, tag), "UNDECIDED", "result is not (coordinates, distances)", fn=qn)
            continue
        co, di = v[1]
        co = Q.unseq(co)
        els = co[1] if co[0] in ("tuple", "list") else ()
        res, detail = True, ""
        pairs = [("easting", els[0] if len(els) > 0 else None, wc[1][0]), ("northing", els[1] if len(els) > 1 else None, wc[1][1]), ("distances", di, wd)]
        for nm, g, w in pairs:
            if g is None:
                res, detail = None, "missing " + nm
                continue
            try:
                r = compare(sp, bi.nf(g), bs.nf(w))
            except Undecided as e:
                r = None
                detail = str(e)
            if r is False:
                res, detail = False, "%s is %s, documented %s" % (nm, repr(bi.nf(g))[:110], repr(bs.nf(w))[:110])
                break
            if r is None and res is True:
                res = None
        zero = K.unguarded_distance_division(p, v)
        ctx.check("R5", "%s|defined-for-a-zero-length-segment|%s" % (qn, tag), False if zero is not None else True, "no division by the length of the segment (the documented form uses atan2, which is defined for a zero-length segment)",
                  bad="the coordinates divide by %s, the length of the segment: point1 == point2 gives 0/0 = NaN instead of `size` copies of the point" % (show(zero)[:70] if zero else ""), fn=qn)
        ctx.check("R5", "%s|formula|%s" % (qn, tag), res, "coordinates == point1 + distances * (cos, sin)(atan2(dN, dE)), distances == linspace(0, |point2 - point1|, size)",
                  bad="profile_coordinates: " + detail, fn=qn, undecided="not comparable: " + detail)
    # sign sensitivity: the direction of the profile must depend on the SIGN of both coordinate differences.  A term depends on a
    # leaf "oddly" if the leaf occurs outside even contexts (hypot/sqrt-of-squares, **2, abs, square).
    for p in ctx.paths(qn):
        if p.exit != "return":
            continue
        v = p.value
        if v[0] != "tuple" or len(v[1]) != 2:
            continue
        co = Q.unseq(v[1][0])
        els = co[1] if co[0] in ("tuple", "list") else ()
        tag = "extra" if lookup(p.decided, ("cmp", "is", ("param", "extra_coords"), NONE)) is False else "noextra"
        for nm, k in (("easting", 0), ("northing", 1)):
            if len(els) <= k:
                continue
            odd = odd_leaves(els[k])
            need = Q.sub(("param", "point2"), k)
            if need not in odd and any(_degenerate(c, v_) for c, v_ in p.conds):
                continue          # the branch for a degenerate (zero-length) segment, selected by an equality on the end points: judged by the formula comparison only
            whole = ("param", "point2") in odd or any(x[0] == "call" and any(y == ("param", "point2") for y in x[2]) for x in walk(els[k]) if isinstance(x, tuple) and x and x[0] == "call")
            ctx.check("R5", "%s|direction-depends-on-sign-of-d%s|%s" % (qn, nm, tag), True if need in odd else (None if whole else False),
                      "the %s of the profile depends on the sign of point2[%d] - point1[%d]" % (nm, k, k),
                      bad="the %s of the profile depends on point2[%d] only through even functions (distance): profiles towards decreasing %s are mirrored" % (nm, k, nm), fn=qn)
    ok = any(p.exit == "raise" and p.conds and p.conds[-1][0] in (("cmp", "<=", ("param", "size"), const(0)), ("cmp", "<", ("param", "size"), const(1))) and p.conds[-1][1] for p in ctx.paths(qn))
    ctx.check("R5", qn + "|rejects-nonpositive-size", True if ok else False, "size <= 0 raises", bad="non-positive sizes are no longer rejected", fn=qn)


def _degenerate(c, val):
    """the decision selects a measure-zero set of end points: an equality that holds, or `length <= 0` for a non-negative length"""
    if not any(x == ("param", "point2") for x in walk(c)):
        return False
    if c[0] == "cmp" and c[1] in ("==", "is") and val:
        return True
    if c[0] == "cmp" and c[1] in ("!=", "isnot") and not val:
        return True
    if c[0] == "cmp" and c[1] in ("<=", "<") and val and c[3] == const(0) and c[2][0] == "call" and callee(c[2]) in EVEN_FUNCS:
        return True
    if c[0] == "cmp" and c[1] in (">", ">=") and not val and c[3] == const(0) and c[2][0] == "call" and callee(c[2]) in EVEN_FUNCS:
        return True
    return False


EVEN_FUNCS = {"numpy.hypot", "numpy.abs", "numpy.absolute", "builtins.abs", "numpy.square", "math.hypot", "numpy.fabs", "numpy.linalg.norm"}


def odd_leaves(t):
    """leaves (parameters and their subscripts) that occur in t outside even contexts"""
    out = set()

    def go(x):
        if not isinstance(x, tuple) or not x:
            return
        if isinstance(x[0], str):
            if x[0] == "param" or (x[0] == "sub" and x[1][0] == "param"):
                out.add(x)
                return
            if x[0] == "call" and callee(x) in EVEN_FUNCS:
                return
            if x[0] == "binop" and x[1] == "**" and x[3][0] == "const" and isinstance(x[3][1], int) and x[3][1] % 2 == 0:
                return
            if x[0] == "binop" and x[1] == "*" and x[2] == x[3]:
                return
            if x[0] in ("const", "glob", "lparam"):
                return
            for e in x[1:]:
                if isinstance(e, tuple):
                    go(e)
        else:
            for e in x:
                go(e)
    go(t)
    return out


def check(ctx):
    r1_spacing_to_size(ctx)
    r2_line_coordinates(ctx)
    r3_grid_coordinates(ctx)
    r4_shape_to_spacing(ctx)
    r5_profile(ctx)
