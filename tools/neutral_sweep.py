"""Whole-package behaviour-preserving transformations (formatting normalisation, renaming of every local variable);
all twenty quick checks must stay at exit 0 on the transformed tree.  Usage: /venv/bin/python tools/neutral_sweep.py"""
import ast
import pathlib
import sys

sys.path.insert(0, str(pathlib.Path(__file__).resolve().parent.parent))
from vstat import report  # noqa: E402


from vstat.rewrites import *  # noqa: E402,F401,F403
from vstat.rewrites import transformed, EXTRA  # noqa: E402

BASE_KINDS = ("format", "rename", "commute", "keywordize", "hoist", "invert-if", "yoda", "method-to-function", "else-after-return", "reverse-keywords", "fstring", "unpack-to-index",
              "composed", "extract-helper", "explicit-defaults", "extract-method", "aug-to-assign", "if-to-ifexp")


def main():
    bad = 0
    kinds = tuple(sys.argv[1:]) or BASE_KINDS + tuple(EXTRA)
    for kind in kinds:
        overlay = transformed(kind)
        for src in overlay.values():
            compile(src, "<variant>", "exec")
        for i in range(1, 21):
            pid = "C%02d" % i
            code, ctx, lines = report.run_property(pid, "quick", overlay=overlay, write=False, quiet=True)
            if code != 0:
                bad += 1
                print(kind, pid, "exit", code, [ln for ln in lines if ln.startswith(("VIOL", "ANAL"))][:2])
        print("%s: done" % kind)
    print("neutral sweep failures:", bad)
    return 1 if bad else 0


if __name__ == "__main__":
    sys.exit(main())
