"""Seeded faults and neutral edits for C17.  The five seam classes listed in known_findings.json stay KNOWN on every variant; a variant is
'VIOLATED' only when a violation that is NOT listed there appears."""
C = "coordinates.py"
ENTRIES = [
    dict(name="neutral: east bound shifted by -180 instead of +180 (same residue)", expect="DISCHARGED", file="coordinates.py", old="        e = (e + 180) % 360 - 180", new="        e = (e - 180) % 360 - 180"),
    dict(name="neutral: east bound shifted by 540", expect="DISCHARGED", file="coordinates.py", old="        e = (e + 180) % 360 - 180", new="        e = (e + 540) % 360 - 180"),
    dict(name="region check dropped", rule="R1", file=C, old="    _check_geographic_region([w, e, s, n])\n", new=""),
    dict(name="coordinates check dropped", rule="R1", file=C, old="        _check_geographic_coordinates(coordinates)\n", new=""),
    dict(name="wider-than-360 accepted", rule="R1", file=C, old="    if abs(e - w) > 360:\n        raise ValueError(", new="    if False:\n        raise ValueError("),
    dict(name="longitude limit 180", rule="R1", file=C, old="    if np.any(longitude > 360) or np.any(longitude < -180):", new="    if np.any(longitude > 180) or np.any(longitude < -180):"),
    dict(name="w % 180", rule="R5", file=C, old="    w = w % 360\n", new="    w = w % 180\n"),
    dict(name="switch subtracts 360 instead of wrapping", rule="R5", file=C, old="        e = (e + 180) % 360 - 180\n        w = (w + 180) % 360 - 180", new="        e = (e + 180) % 360 - 180\n        w = w - 360 - 180 + 180 + 10"),
    dict(name="west bound wrapped with +360 offset", rule="R5", file=C, old="        w = (w + 180) % 360 - 180", new="        w = (w + 180) % 360 + 180"),
    dict(name="switch condition inverted", rule="R5", file=C, old="    if w > e:\n        interval_360 = False", new="    if w < e:\n        interval_360 = False"),
    dict(name="longitudes transformed under the opposite flag", rule="R3", file=C, old="        if interval_360:\n            longitude = longitude % 360", new="        if not interval_360:\n            longitude = longitude % 360"),
    dict(name="flag not cleared on the switch", rule="R3", file=C, old="        interval_360 = False\n", new=""),
    dict(name="longitudes wrapped with np.where(l < 0, l + 360, l): 360 stays 360", rule="R3", file=C, old="            longitude = longitude % 360", new="            longitude = np.where(longitude < 0, longitude + 360, longitude)"),
    dict(name="region check tests only W < -180 or E > 360", rule="R1", file=C, old="    if np.any(np.array([w, e]) > 360) or np.any(np.array([w, e]) < -180):", new="    if w < -180 or e > 360:"),
    dict(name="neutral: region longitude range written as four scalar tests", expect="DISCHARGED", file=C, old="    if np.any(np.array([w, e]) > 360) or np.any(np.array([w, e]) < -180):", new="    if w > 360 or e > 360 or w < -180 or (e < -180):"),
    dict(name="longitudes shifted by 180 without unshifting", rule="R4", file=C, old="            longitude = (longitude + 180) % 360 - 180", new="            longitude = (longitude + 180) % 360"),
    dict(name="latitude bound overwritten (region[2])", rule="R2", file=C, old="    region[:2] = (w, e)", new="    region[:2] = (w, e)\n    region[2] = s % 360"),
    dict(name="caller's region written", rule="R2", file=C, old="    region = np.array(region)\n    region[:2] = (w, e)", new="    region = np.asarray(region)\n    region[:2] = (w, e)"),
    dict(name="full-globe case skipped", rule="R4", file=C, old="    if all_globe:\n        w, e = (0, 360)\n", new=""),
    dict(name="full globe becomes (0, 0)", rule="R4", file=C, old="        w, e = (0, 360)\n", new="        w, e = (0, 0)\n"),
    dict(name="neutral: bounds via np.mod-free temporaries", expect="DISCHARGED", file=C, old="    w = w % 360\n    e = e % 360\n", new="    period = 360\n    w = w % period\n    e = e % period\n"),
    dict(name="neutral: longitudes transformed with a double wrap", expect="DISCHARGED", file=C, old="            longitude = (longitude + 180) % 360 - 180", new="            longitude = (longitude % 360 + 180) % 360 - 180"),
]
