"""C12 - scores come from models fitted on training data only, with the stated metric (DESIGN §4 C12)."""
from .. import q as Q
from ..effects import Effects
from ..paths import lookup
from ..terms import callee, canon, const, is_const, is_int, kw, show, walk, NONE
from . import common as K

EXPLANATION = ("TRAIN/TEST provenance labels on every value reaching estimator.fit / the scorer, clone-per-split and single-use checks on the estimator parameter, "
               "metric selection by guard polarity, loop-index alignment in the scorer, argmax/index alignment/refit in SplineCV, forwarding completeness, "
               "who-may-call check on the estimator protocol, effect analysis of the dispatched task (task ownership under any schedule)")
RULES = {
    "R0": "every object handed to scikit-learn as an estimator (check_scoring, the scorer's first argument) is an instance of a sklearn.base.BaseEstimator subclass",
    "R1": "the estimator given to fit_score is clone(estimator) evaluated inside the loop; the estimator parameter has no other use",
    "R2": "fit receives rows selected by the TRAIN element of the split, the scorer rows selected by the TEST element, both from the same validated (coordinates, data, weights)",
    "R3": "scoring is None -> estimator.score(*test); otherwise score_estimator(scoring, estimator, *test); BaseGridder.score uses 'r2' with weights",
    "R4": "score_estimator: component i of the prediction is scored against data[i] with sample_weight=weights[i], all raveled; component scores are averaged with np.mean",
    "R5": "train_test_split: one split; train/test = select(a, index) for every a of the validated triple; blocked exactly when spacing or shape is given; select applies one index to the C-order ravel of every array",
    "R6": "SplineCV.fit: scores[k] for parameter_sets[k]; best = argmax(scores); spline_ = Spline(**parameter_sets[best]) refitted on all data with the weights; predict delegates to spline_",
    "R7": "every cross_val_score call reachable from SplineCV.fit forwards weights, cv and scoring",
    "R8": "dispatch wraps the given function (dask.delayed / partial(client.submit, .) / itself); the dispatched worker and its helpers write no argument and no global: tasks are independent under any order",
}
ASSUMPTIONS = ["the metric values themselves (scikit-learn scorers) are declined", "sklearn.base.clone returns an unfitted copy; dask.delayed(f)(*a) computes f(*a)"]
MS = "verde.model_selection"
CV, FS, SEL, TTS = MS + ".cross_val_score", MS + ".fit_score", MS + ".select", MS + ".train_test_split"
SE = "verde.base.utils.score_estimator"
SC = "verde.spline.SplineCV"
CFI = ("call", ("glob", "verde.base.utils.check_fit_input"), (("param", "coordinates"), ("param", "data"), ("param", "weights"), const(False)), (), 0)   # canonical (all positional)


def split_label(t):
    """{'TRAIN','TEST'} labels carried by an index term: element 0/1 of an item of *.split(...)"""
    labs = set()
    for x in walk(t):
        if x[0] == "sub" and is_int(x[2]) and x[1][0] == "elem" and x[1][1][0] == "call" and callee(x[1][1]) == ".split":
            labs.add({0: "TRAIN", 1: "TEST"}.get(x[2][1], "?"))
    return labs


def r0_protocol(ctx):
    qn = SE
    for p in ctx.paths(qn):
        if p.exit != "return":
            continue
        for e in p.events:
            if e.kind != "call":
                continue
            t = e.data[0]
            cands = []
            if callee(t) == "sklearn.metrics.check_scoring" and t[2]:
                cands.append(("check_scoring", t[2][0]))
            if t[1][0] == "call" and callee(t[1]) == "sklearn.metrics.check_scoring" and t[2]:
                cands.append(("scorer", t[2][0]))
            for where, a in cands:
                cls = a[1] if a[0] == "glob" else (a[1][1] if a[0] == "call" and a[1][0] == "glob" else None)
                if cls is None or cls not in ctx.pkg.classes:
                    ctx.add("R0", "%s|%s-estimator-class" % (qn, where), "UNDECIDED", "estimator argument %s is not a package class" % show(a)[:60], fn=qn)
                    continue
                ok = "sklearn.base.BaseEstimator" in ctx.pkg.mro(cls)
                ctx.check("R0", "%s|%s-estimator-class" % (qn, where), True if ok else False, "%s is a BaseEstimator subclass" % cls.rsplit(".", 1)[1],
                          bad="%s is not a scikit-learn BaseEstimator: scorers reject it (every score/cross_val_score/SplineCV call raises)" % cls.rsplit(".", 1)[1], fn=qn, line=e.line)
    c = ctx.pkg.cls("verde.base.utils.DummyEstimator")
    pm = c.methods.get("predict")
    ok = None
    if pm is not None:
        ps = ctx.paths(pm.qual)
        ok = all(p.value == Q.self_attr("_predicted") for p in ps if p.exit == "return")
        init = ctx.paths("verde.base.utils.DummyEstimator.__init__")
        ok = ok and all(any(e.kind == "setattr" and e.data[1] == "_predicted" and e.data[2] == ("param", "predicted") for e in p.events) for p in init if p.normal)
    ctx.check("R0", "verde.base.utils.DummyEstimator|pass-through", True if ok else None, "the adapter's predict returns exactly the prediction it was given", fn="verde.base.utils.DummyEstimator.predict")


def r1_r2_cross_val(ctx):
    qn = CV
    n = 0
    for p in ctx.paths(qn):
        if p.exit != "return":
            continue
        n += 1
        tag = Q.tags(p.conds)
        disp = [e for e in p.events if e.kind == "call" and e.data[0][1][0] == "call" and callee(e.data[0][1]) == "verde.utils.dispatch"]
        if len(disp) != 1:
            ctx.add("R1", "%s|one-dispatched-call|%s" % (qn, tag), "UNDECIDED", "expected one dispatched worker call", fn=qn)
            continue
        d = disp[0].data[0]
        inner = d[1]
        worker = inner[2][0] if inner[2] else None
        ctx.check("R2", "%s|worker-is-fit_score|%s" % (qn, tag), True if worker == ("glob", FS) else (False if worker is not None and worker[0] == "glob" else None), "the dispatched worker is fit_score",
                  bad="the dispatched worker is %s" % (show(worker) if worker else None), fn=qn)
        for nm in ("client", "delayed"):
            v = Q.arg(ctx, inner, nm)
            ctx.check("R8", "%s|dispatch-%s|%s" % (qn, nm, tag), True if v == ("param", nm) else (False if v is None or (isinstance(v, tuple) and is_const(v)) else None),
                      "%s is forwarded to dispatch" % nm, bad="dispatch receives %s=%s" % (nm, show(v) if isinstance(v, tuple) else "the default"), fn=qn)
        a = d[2]
        # the task receives nothing but fit_score's four arguments: anything else is interpreted by the executor (dask.delayed / Client.submit),
        # not by fit_score - e.g. dask_key_name / key: tasks with equal keys are ONE task to dask, so a key that does not identify the
        # estimator and the data makes the scores of different calls collapse into one
        extras = [(k, v) for k, v in d[3]]
        keyed = [(k, v) for k, v in extras if k in ("dask_key_name", "key", "name")] + \
                [(kk[1], vv) for k, v in extras if k is None and v[0] == "dict" for kk, vv in v[1] if kk is not None and is_const(kk) and kk[1] in ("dask_key_name", "key", "name")] + \
                [(kk[1], vv) for k, v in extras if k is None and v[0] == "ifexp" for br in (v[2], v[3]) if br[0] == "dict" for kk, vv in br[1] if kk is not None and is_const(kk) and kk[1] in ("dask_key_name", "key", "name")]
        if keyed:
            kname, kval = keyed[0]
            dep = any(x in (("param", "estimator"), ("param", "coordinates"), ("param", "data")) for x in walk(kval) if isinstance(x, tuple))
            ctx.check("R8", "%s|task-identity|%s" % (qn, tag), None if dep else False, "dispatched tasks are identified by their inputs",
                      bad="every task is given the executor key %s=%s, which depends only on the fold number: tasks of different cross_val_score calls share keys and dask computes ONE of them for all (identical scores for different models)" % (kname, show(kval)[:50]), fn=qn)
        elif extras:
            ctx.add("R8", "%s|task-identity|%s" % (qn, tag), "UNDECIDED", "the dispatched call receives extra keyword arguments (%s) that the executor, not fit_score, interprets" % show(extras[0][1])[:60], fn=qn)
        if len(a) != 4:
            ctx.add("R2", "%s|worker-arguments|%s" % (qn, tag), "UNDECIDED", "fit_score is called with %d arguments" % len(a), fn=qn)
            continue
        est, tr, te, sc = a
        loop_i = [i for i, e in enumerate(p.events) if e.kind == "loop-enter"]
        loop_o = [i for i, e in enumerate(p.events) if e.kind == "loop-exit"]
        clones = [(i, e) for i, e in enumerate(p.events) if e.kind == "call" and callee(e.data[0]) == "sklearn.base.clone"]
        okc = est[0] == "call" and callee(est) == "sklearn.base.clone" and est[2] == (("param", "estimator"),)
        inside = bool(clones) and bool(loop_i) and loop_i[0] < clones[0][0] < (loop_o[-1] if loop_o else len(p.events))
        ctx.check("R1", "%s|clone-per-split|%s" % (qn, tag), True if okc and inside else (False if est == ("param", "estimator") or (okc and not inside) else None),
                  "each split gets its own clone(estimator), created inside the loop",
                  bad="the caller's estimator is %s" % ("passed to fit_score without clone (it gets fitted, and splits share state)" if est == ("param", "estimator") else "cloned once outside the loop: all splits share one object"), fn=qn)
        other = [e for e in p.events if e.kind == "call" and e.data[0][1][0] == "attr" and e.data[0][1][1] == ("param", "estimator")
                 and e.data[0][1][2] in ("fit", "set_params", "filter", "fit_transform", "partial_fit", "__setattr__")] + \
                [e for e in p.events if e.kind == "setattr" and e.data[0] == ("param", "estimator")]
        ctx.check("R1", "%s|estimator-untouched|%s" % (qn, tag), False if other else True, "the estimator parameter is only ever cloned",
                  bad="the caller's estimator is used directly: %s" % (callee(other[0].data[0]) if other else ""), fn=qn)
        # rows
        for nm, t, want in (("train", tr, "TRAIN"), ("test", te, "TEST")):
            labs = split_label(t)
            same_triple = t[0] in ("tuple", "list") and len(t[1]) == 3 and all(x[0] == "call" and callee(x) == SEL and len(x[2]) == 2 for x in t[1]) and \
                [canon(x[2][0]) for x in t[1]] == [canon(Q.sub(CFI, k)) for k in range(3)]
            ok = True if labs == {want} and same_triple else (False if labs and labs != {want} else (False if not labs and t[0] in ("tuple", "list") and all(canon(x) == canon(Q.sub(CFI, k)) for k, x in enumerate(t[1])) else None))
            ctx.check("R2", "%s|%s-rows|%s" % (qn, nm, tag), ok, "the %s tuple is select(validated coordinates/data/weights, %s index)" % (nm, want.lower()),
                      bad="the %s tuple carries labels %s (expected only %s)" % (nm, sorted(labs) or "none: unselected rows", want), fn=qn)
        ctx.check("R3", "%s|scoring-forwarded|%s" % (qn, tag), True if sc == ("param", "scoring") else (False if is_const(sc) or sc[0] == "param" else None), "scoring is forwarded to fit_score",
                  bad="fit_score receives scoring=%s" % show(sc), fn=qn)
        cvt = [e.data[0] for e in p.events if e.kind == "call" and callee(e.data[0]) == ".split"]
        if cvt:
            fm = cvt[0][2][0] if cvt[0][2] else None
            want_fm = ("call", ("glob", "numpy.transpose"), (("call", ("glob", "verde.base.utils.n_1d_arrays"), (Q.sub(CFI, 0), const(2)), (), 0),), (), 0)
            ctx.check("R2", "%s|split-on-feature-matrix|%s" % (qn, tag), True if fm is not None and canon(fm) == canon(want_fm) else None, "the cross-validator splits the (easting, northing) feature matrix of the validated coordinates", fn=qn)
            own = lookup(p.decided, ("cmp", "is", ("param", "cv"), NONE))
            recv = cvt[0][1][1]
            if own is False:
                ctx.check("R2", "%s|uses-given-cv|%s" % (qn, tag), True if recv == ("param", "cv") else False, "a given cv is used", bad="the given cv is ignored", fn=qn)
            elif own is True:
                okk = recv[0] == "call" and callee(recv) == "sklearn.model_selection.KFold" and Q.arg(ctx, recv, "shuffle") == const(True) and Q.arg(ctx, recv, "random_state") == const(0)
                ctx.check("R2", "%s|default-cv|%s" % (qn, tag), True if okk else None, "the default cv is a seeded shuffled KFold", fn=qn)
    if n < 4:
        ctx.add("R2", qn + "|paths", "UNDECIDED", "expected several return paths, found %d" % n, fn=qn)
    used = any(e.kind == "call" and callee(e.data[0]) == ".split" and e.data[0][1][1] == ("param", "cv") for p in ctx.paths(qn) for e in p.events)
    ctx.check("R2", qn + "|cv-parameter-used", True if used else False, "a cross-validator passed as cv is the one that splits the data", bad="the cv argument is never used", fn=qn)
    # fit_score
    qn = FS
    for p in ctx.paths(qn):
        if p.exit != "return":
            continue
        none = lookup(p.decided, ("cmp", "is", ("param", "scoring"), NONE))
        tag = "default-metric" if none else "given-metric"
        fits = [(i, e.data[0]) for i, e in enumerate(p.events) if e.kind == "call" and e.data[0][1] == ("attr", ("param", "estimator"), "fit")]
        ok = True if len(fits) == 1 and fits[0][1][2] == (("star", ("param", "train_data")),) else (False if fits and fits[0][1][2] == (("star", ("param", "test_data")),) else None)
        ctx.check("R2", "%s|fit-on-train|%s" % (qn, tag), ok, "estimator.fit(*train_data)", bad="the estimator is fitted on the TEST rows", fn=qn)
        v = p.value
        if none:
            ok = True if v[0] == "call" and v[1] == ("attr", ("param", "estimator"), "score") and v[2] == (("star", ("param", "test_data")),) else \
                (False if v[0] == "call" and v[2] and v[2][-1] == ("star", ("param", "train_data")) else (False if v[0] == "call" and callee(v) == SE else None))
            ctx.check("R3", "%s|default-is-estimator.score(test)|%s" % (qn, tag), ok, "scoring=None returns estimator.score(*test_data)", bad="scoring=None returns %s" % show(v)[:80], fn=qn)
        else:
            ok = True if v[0] == "call" and callee(v) == SE and v[2] == (("param", "scoring"), ("param", "estimator"), ("star", ("param", "test_data"))) else \
                (False if v[0] == "call" and v[2] and v[2][-1] == ("star", ("param", "train_data")) else (False if v[0] == "call" and v[1] == ("attr", ("param", "estimator"), "score") else None))
            ctx.check("R3", "%s|metric-is-score_estimator(scoring, estimator, test)|%s" % (qn, tag), ok, "a given scoring returns score_estimator(scoring, estimator, *test_data)", bad="a given scoring returns %s" % show(v)[:80], fn=qn)
        if fits:
            later = [i for i, e in enumerate(p.events) if e.kind == "call" and (callee(e.data[0]) in (SE, ".score"))]
            ctx.check("R2", "%s|fit-before-score|%s" % (qn, tag), True if later and fits[0][0] < later[0] else (False if later else None), "the estimator is fitted before it is scored", bad="the score is computed before fitting", fn=qn)
    qn = "verde.base.base_classes.BaseGridder.score"
    for p in ctx.paths(qn):
        if p.exit != "return":
            continue
        v = p.value
        ok = None
        if v[0] == "call" and callee(v) == SE:
            sc = Q.arg(ctx, v, "scoring")
            okargs = Q.arg(ctx, v, "estimator") == Q.SELF and Q.arg(ctx, v, "coordinates") == ("param", "coordinates") and Q.arg(ctx, v, "data") == ("param", "data")
            w = Q.arg(ctx, v, "weights")
            ok = True if sc == const("r2") and okargs and w == ("param", "weights") else (False if (is_const(sc) and sc != const("r2")) or w is None else None)
        ctx.check("R3", qn + "|r2-with-weights", ok, "score == score_estimator('r2', self, coordinates, data, weights=weights)", bad="the default score is %s" % show(v)[:100], fn=qn)


def r4_scorer(ctx):
    qn = SE
    for p in ctx.paths(qn):
        if p.exit != "return":
            continue
        v = p.value
        if not (v[0] == "call" and callee(v) in ("numpy.mean", "numpy.median", "numpy.sum", "numpy.max", "numpy.min") and v[2] and v[2][0][0] == "comp"):
            ctx.add("R4", qn + "|mean-of-component-scores", "UNDECIDED", "the result is not a reduction of per-component scores", fn=qn)
            continue
        ctx.check("R4", qn + "|mean-of-component-scores", True if callee(v) == "numpy.mean" else False, "component scores are averaged with np.mean", bad="component scores are combined with %s" % callee(v), fn=qn)
        c = v[2][0]
        cfi = [e.data[0] for e in p.events if e.kind == "call" and callee(e.data[0]) == "verde.base.utils.check_fit_input"]
        pred_src = c[3]
        okit = pred_src[0] == "call" and callee(pred_src) == "builtins.enumerate" and Q.unwrap(pred_src[2][0])[0] == "call" and Q.unwrap(pred_src[2][0])[1] == ("attr", ("param", "estimator"), "predict")
        ctx.check("R4", qn + "|iterates-prediction-components", True if okit else None, "the loop runs over the components of estimator.predict(coordinates)", fn=qn)
        s = c[2]
        i = ("idx", c[4])
        ok_d = ok_w = ok_p = None
        if s[0] == "call" and len(s[2]) >= 3 and cfi:
            est, _co, y = s[2][0], s[2][1], s[2][2]
            w = kw(s, "sample_weight")
            yy = Q.unwrap(y)
            ok_d = True if yy == ("sub", Q.sub(cfi[0], 1), i) else (False if yy[0] == "sub" and yy[1] == Q.sub(cfi[0], 1) else None)
            ok_w = (True if w == ("sub", Q.sub(cfi[0], 2), i) else (False if w is None or w == NONE or (w[0] == "sub" and w[1] == Q.sub(cfi[0], 2)) else None))
            pr = est[2][0] if est[0] == "call" and est[2] else None
            ok_p = True if pr is not None and Q.unwrap(pr)[0] == "elem" and Q.unwrap(pr)[2] == c[4] else None
        ctx.check("R4", qn + "|data-component-aligned", ok_d, "prediction component i is scored against data[i]", bad="every prediction component is scored against the same data component", fn=qn)
        ctx.check("R4", qn + "|weights-component-aligned", ok_w, "sample_weight = weights[i]", bad="the test weights are ignored or taken from a fixed component", fn=qn)
        ctx.check("R4", qn + "|prediction-component", ok_p, "the adapter carries prediction component i (raveled)", fn=qn)
        ok_chk = cfi and canon(cfi[0]) == canon(CFI)
        ctx.check("R4", qn + "|validated-unpack-False", True if ok_chk else None, "inputs are validated with unpack=False", fn=qn)


def r5_train_test_split(ctx):
    qn = TTS
    n = 0
    for p in ctx.paths(qn):
        if p.exit != "return":
            continue
        n += 1
        plain = lookup(p.decided, ("boolop", "And", (("cmp", "is", ("param", "spacing"), NONE), ("cmp", "is", ("param", "shape"), NONE))))
        tag = "plain" if plain else "blocked"
        cons = [e.data[0] for e in p.events if e.kind == "call" and callee(e.data[0]) in ("sklearn.model_selection.ShuffleSplit", MS + ".BlockShuffleSplit")]
        want_cls = "sklearn.model_selection.ShuffleSplit" if plain else MS + ".BlockShuffleSplit"
        ok = True if len(cons) == 1 and callee(cons[0]) == want_cls else (False if len(cons) == 1 else None)
        ctx.check("R5", "%s|splitter|%s" % (qn, tag), ok, "%s rows are split with %s" % (tag, want_cls.rsplit(".", 1)[1]), bad="%s input is split with %s" % (tag, callee(cons[0]).rsplit(".", 1)[1] if cons else None), fn=qn)
        if cons:
            ns = Q.arg(ctx, cons[0], "n_splits")
            ctx.check("R5", "%s|one-split|%s" % (qn, tag), True if ns == const(1) else (False if isinstance(ns, tuple) and is_const(ns) else None), "exactly one split is drawn", bad="n_splits=%s" % (show(ns) if isinstance(ns, tuple) else ns), fn=qn)
            if not plain:
                for nm in ("spacing", "shape"):
                    v = Q.arg(ctx, cons[0], nm)
                    ctx.check("R5", "%s|block-%s|%s" % (qn, nm, tag), True if v == ("param", nm) else (False if v is None or (isinstance(v, tuple) and (is_const(v) or v[0] == "param")) else None),
                              "%s is forwarded" % nm, bad="BlockShuffleSplit receives %s=%s" % (nm, show(v) if isinstance(v, tuple) else v), fn=qn)
        v = p.value
        ok = None
        if v[0] == "tuple" and len(v[1]) == 2 and all(x[0] == "sub" and is_int(x[2]) for x in v[1]) and v[1][0][1] == v[1][1][1] and v[1][0][1][0] == "comp":
            c = v[1][0][1]
            order = [x[2][1] for x in v[1]]
            elt = c[2]
            index = ("elem", c[3], c[4])
            sel_ok = elt[0] == "tuple" and len(elt[1]) == 3 and all(x[0] == "call" and callee(x) == SEL and x[2] == (Q.sub(CFI, k), index) for k, x in enumerate(elt[1]))
            from_next = c[3][0] == "call" and callee(c[3]) == "builtins.next"
            ok = True if order == [0, 1] and sel_ok and from_next else (False if order == [1, 0] else (False if elt[0] == "tuple" and any(x[0] == "call" and callee(x) == SEL and x[2][1] != index for x in elt[1]) else None))
        ctx.check("R5", "%s|aligned-subsets|%s" % (qn, tag), ok, "train/test = (select(a, index) for every a of the validated triple) for index in (train index, test index)",
                  bad="train and test are swapped or arrays are selected with different indices", fn=qn)
    if n < 2:
        ctx.add("R5", qn + "|paths", "UNDECIDED", "plain and blocked paths not both found", fn=qn)
    qn = SEL
    for p in ctx.paths(qn):
        if p.exit != "return":
            continue
        passthrough = p.conds and p.conds[-1][1]
        v = Q.unseq(p.value)
        if passthrough:
            ctx.check("R5", qn + "|none-passes-through", True if v == ("param", "arrays") else None, "None (or a tuple with None) is returned unchanged", fn=qn)
        else:
            ok = None
            if v[0] == "comp" and v[3] == ("param", "arrays"):
                e = v[2]
                base = e[1] if e[0] == "sub" else None
                okr = base is not None and base[0] == "call" and callee(base) in ("numpy.ravel", ".ravel") and Q.unwrap(base) == ("elem", v[3], v[4]) and not kw(base, "order") and len(base[2]) <= 1
                ok = True if okr and e[2] == ("param", "index") else (False if e[0] == "sub" and e[2] != ("param", "index") else (False if base is not None and (kw(base, "order") or (len(base[2]) > 1)) else None))
            ctx.check("R5", qn + "|one-index-for-every-array", ok, "every array is raveled in C order and indexed with the same index", bad="arrays are not all indexed with `index` on their C-order ravel", fn=qn)


def r6_r7_splinecv(ctx):
    qn = SC + ".fit"
    n = 0
    for p in ctx.paths(qn):
        if p.exit != "return":
            continue
        n += 1
        client = lookup(p.decided, ("cmp", "is", Q.self_attr("client"), NONE)) is False
        delayed = lookup(p.decided, Q.self_attr("delayed"))
        tag = "%s,%s" % ("client" if client else "serial", "delayed" if delayed else "eager")
        cvs = []
        for e in p.events:
            if e.kind != "call":
                continue
            t = e.data[0]
            if callee(t) == MS + ".cross_val_score":
                cvs.append(t)
            elif callee(t) == ".submit" and t[2] and t[2][0] == ("glob", MS + ".cross_val_score"):
                cvs.append(("call", t[2][0], t[2][1:], t[3], 0))        # client.submit(f, *a, **k) computes f(*a, **k)
        if len(cvs) != 1:
            ctx.add("R7", "%s|one-cross_val_score|%s" % (qn, tag), "UNDECIDED", "expected one cross_val_score call on the path (found %d)" % len(cvs), fn=qn)
            continue
        t = cvs[0]
        for nm, want in (("weights", ("param", "weights")), ("cv", Q.self_attr("cv")), ("scoring", Q.self_attr("scoring")), ("coordinates", ("param", "coordinates")), ("data", ("param", "data"))):
            v = Q.arg(ctx, t, nm)
            ok = True if v == want else (None if v == "unknown" else (False if v is None or is_const(v) or v[0] == "param" or Q.is_self_attr(v) else None))
            ctx.check("R7", "%s|forwards-%s|%s" % (qn, nm, tag), ok, "cross_val_score receives %s=%s" % (nm, show(want)),
                      bad="cross_val_score %s" % ("is called without %s: candidates are ranked with a different %s than requested" % (nm, nm) if v is None else "receives %s=%s" % (nm, show(v))), fn=qn)
        est = Q.arg(ctx, t, "estimator")
        est = est if isinstance(est, tuple) else None
        # the list of parameter sets is the comprehension the refit indexes: Spline(**parameter_sets[best]); the candidates loop over it (the
        # engine records a loop over a comprehension as a loop over the comprehension's own sequence, elements transformed)
        psets = None
        for e in p.events:
            if e.kind == "setattr" and e.data[0] == Q.SELF and e.data[1] == "spline_":
                for x in walk(e.data[2]):
                    if isinstance(x, tuple) and x and x[0] == "sub" and x[1][0] == "comp" and x[1][1] == "list":
                        psets = x[1]
        ok = None
        if est is not None and est[0] == "call" and callee(est) == "verde.spline.Spline" and psets is not None:
            from ..terms import subst
            loops = [e.data[0] for e in p.events if e.kind == "loop-enter" and e.data[1] == psets[3]]
            for lid in loops:
                el_ = subst(psets[2], {("elem", psets[3], psets[4]): ("elem", psets[3], lid)})
                if est[3] == ((None, el_),):
                    ok = True
                elif el_[0] == "dict" and all(k is not None and is_const(k) for k, _v in el_[1]):
                    # a dict with literal keys is spread into the call's keywords by the engine
                    given = {k[1]: v for k, v in el_[1]}
                    if all(Q.arg(ctx, est, k) == v for k, v in given.items()) and len(est[2]) + len(est[3]) == len(given):
                        ok = True
        ctx.check("R6", "%s|candidate-per-parameter-set|%s" % (qn, tag), ok, "candidate k is Spline(**parameter_sets[k]), in the iteration order of parameter_sets", fn=qn)
        if psets is not None:
            el = psets[2]
            dd = dict((k[1], v) for k, v in el[1] if k is not None and is_const(k)) if el[0] == "dict" else {}
            prod = psets[3]
            okp = prod[0] == "call" and callee(prod) == "itertools.product" and prod[2] == (Q.self_attr("mindists"), Q.self_attr("dampings"))
            combo = ("elem", prod, psets[4])
            okd = dd.get("mindist") == Q.sub(combo, 0) and dd.get("damping") == Q.sub(combo, 1) and dd.get("force_coords") == Q.self_attr("force_coords") and dd.get("engine") == Q.self_attr("engine")
            sw = dd.get("mindist") == Q.sub(combo, 1) and dd.get("damping") == Q.sub(combo, 0)
            ctx.check("R6", "%s|parameter-grid|%s" % (qn, tag), True if okp and okd else (False if sw else None), "parameter sets are the product (mindist, damping) of self.mindists x self.dampings plus engine and force_coords",
                      bad="mindist and damping are swapped in the parameter sets", fn=qn)
        # selection
        sel = [e.data[0] for e in p.events if e.kind == "call" and e.data[0][1][0] == "call" and callee(e.data[0][1]) == "verde.utils.dispatch" and e.data[0][1][2] and e.data[0][1][2][0][0] == "glob" and "arg" in e.data[0][1][2][0][1]]
        ok = None
        if len(sel) == 1:
            f = sel[0][1][2][0][1]
            ok = True if f == "numpy.argmax" else (False if f in ("numpy.argmin", "numpy.nanargmin") else None)
        ctx.check("R6", "%s|best-is-argmax|%s" % (qn, tag), ok, "the best candidate is argmax of the mean scores (higher is better for scikit-learn scorers)", bad="the candidate with the LOWEST score is selected", fn=qn)
        sets = {e.data[1]: e.data[2] for e in p.events if e.kind == "setattr" and e.data[0] == Q.SELF}
        sp = sets.get("spline_")
        # the final model: Spline(**parameter_sets[best]) either stored and then fitted, or fitted in a chained call
        model = sp
        if sp is not None and sp[0] == "call" and sp[1][0] == "attr" and sp[1][2] == "fit":
            model = sp[1][1]
        ok = None
        if model is not None and model[0] == "call" and callee(model) == "verde.spline.Spline" and psets is not None and sel:
            arg = model[3][0][1] if model[3] and model[3][0][0] is None else None
            best = arg[2] if arg is not None and arg[0] == "sub" and arg[1] == psets else None
            good_best = best is not None and (best == sel[0] or (best[0] == "call" and best[1] == ("attr", sel[0], "compute")))
            ok = True if good_best else (False if arg is not None and arg[0] == "sub" and is_const(arg[2]) else None)
        ctx.check("R6", "%s|refit-uses-best-parameters|%s" % (qn, tag), ok, "spline_ = Spline(**parameter_sets[best])", bad="spline_ is built from a fixed parameter set, not the best one", fn=qn)
        fits = [e.data[0] for e in p.events if e.kind == "call" and e.data[0][1][0] == "attr" and e.data[0][1][2] == "fit" and model is not None and e.data[0][1][1] == model]
        ok = None
        if len(fits) == 1:
            f = fits[0]
            w = Q.arg(ctx, f, "weights", ["coordinates", "data", "weights"])
            co_, da_ = Q.arg(ctx, f, "coordinates", ["coordinates", "data", "weights"]), Q.arg(ctx, f, "data", ["coordinates", "data", "weights"])
            ok = True if (co_, da_) == (("param", "coordinates"), ("param", "data")) and w == ("param", "weights") else (False if w is None or w == NONE else None)
        elif not fits and model is not None:
            ok = False
        ctx.check("R6", "%s|refit-on-all-data-with-weights|%s" % (qn, tag), ok, "the best spline is refitted on (coordinates, data, weights=weights)",
                  bad="the final refit %s" % ("drops the weights" if fits else "is missing"), fn=qn)
        scs = sets.get("scores_")
        ctx.check("R6", "%s|scores_-stored|%s" % (qn, tag), True if scs is not None else False, "scores_ is stored", bad="scores_ is not stored", fn=qn)
        # scores[k] is the mean of candidate k's CV scores
        means = [e.data[0] for e in p.events if e.kind == "call" and (callee(e.data[0]) == "numpy.mean" or (e.data[0][1][0] == "call" and callee(e.data[0][1]) == "verde.utils.dispatch" and e.data[0][1][2] and e.data[0][1][2][0] == ("glob", "numpy.mean")))]
        ctx.check("R6", "%s|mean-of-cv-scores|%s" % (qn, tag), True if means else (False if not means else None), "each candidate's score is the mean of its cross-validation scores", bad="candidate scores are not averaged over the folds", fn=qn)
    if n < 3:
        ctx.add("R6", qn + "|paths", "UNDECIDED", "expected client / delayed / eager paths, found %d" % n, fn=qn)
    qn = SC + ".predict"
    for p in ctx.paths(qn):
        if p.exit != "return":
            continue
        v = p.value
        ok = v[0] == "call" and v[1] == ("attr", Q.self_attr("spline_"), "predict") and v[2] == (("param", "coordinates"),)
        ctx.check("R6", qn + "|delegates-to-spline_", True if ok else None, "predict delegates to spline_.predict(coordinates)", fn=qn)


def r8_tasks(ctx):
    qn = "verde.utils.dispatch"
    fn = ("param", "function")
    for p in ctx.paths(qn):
        if p.exit != "return":
            continue
        d = lookup(p.decided, ("param", "delayed"))
        c = lookup(p.decided, ("cmp", "is", ("param", "client"), NONE))
        v = p.value
        if d:
            ok = v[0] == "call" and callee(v) == "dask.delayed" and v[2] == (fn,)
            tag = "delayed"
        elif c is False:
            ok = v[0] == "call" and callee(v) == "functools.partial" and v[2] == (("attr", ("param", "client"), "submit"), fn)
            tag = "client"
        else:
            ok = v == fn
            tag = "serial"
        ctx.check("R8", "%s|wraps-the-given-function|%s" % (qn, tag), True if ok else (False if fn not in Q.leaves(v) else None), "dispatch(%s) computes the given function" % tag,
                  bad="dispatch does not run the function it was given", fn=qn)
    ef = Effects(ctx.an)
    for q_ in (FS, SEL, SE, "verde.base.utils.DummyEstimator.predict", "verde.base.utils.DummyEstimator.fit"):
        w = {a: h for a, h in ef.writes.get(q_, {}).items()}
        ctx.check("R8", q_ + "|task-writes-no-argument", False if w else True, "the task code writes no array it was handed (tasks own their clone and their selected rows)",
                  bad="task code writes through %s" % (sorted(w.items())[0],) if w else "", fn=q_)


def check(ctx):
    r0_protocol(ctx)
    r1_r2_cross_val(ctx)
    r4_scorer(ctx)
    r5_train_test_split(ctx)
    r6_r7_splinecv(ctx)
    r8_tasks(ctx)
