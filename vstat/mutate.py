"""Self-validation corpus (DESIGN §3.10): seeded faults and neutral edits applied to the *current* source,
in memory only.  Anchors are snippets of the ast.unparse-normalised module text (formatting and comments
of the repository do not matter); a snippet that no longer occurs exactly once is reported as 'anchor absent'
and skipped - it never turns into a verdict about the repository."""
import ast
import json
import multiprocessing
import pathlib

from .report import VERIF, run_property, D, V, U


def normalised(src):
    return ast.unparse(ast.parse(src))


def make_overlay(root, edits):
    """edits: [(relative file, old, new)] on normalised text -> overlay dict or (None, reason)"""
    root = pathlib.Path(root)
    overlay = {}
    for rel, old, new in edits:
        src = overlay.get(rel)
        if src is None:
            p = root / rel
            if not p.exists():
                return None, "file %s absent" % rel
            src = normalised(p.read_text())
        n = src.count(old)
        if n != 1:
            return None, "anchor occurs %d times in %s: %r" % (n, rel, old[:60])
        src = src.replace(old, new)
        try:
            ast.parse(src)
        except SyntaxError as e:
            return None, "variant does not parse: %s" % e
        overlay[rel] = src
    return overlay, None


def load_corpus(prop):
    p = VERIF / "corpus" / (prop.lower() + ".py")
    if not p.exists():
        return []
    import runpy
    return runpy.run_path(str(p))["ENTRIES"]


def _one(job):
    prop, root, entry = job
    edits = entry["edits"] if "edits" in entry else [(entry["file"], entry["old"], entry["new"])]
    overlay, why = make_overlay(root, [tuple(e) for e in edits])
    if overlay is None:
        return entry["name"], "absent", why, []
    code, ctx, lines = run_property(prop, "quick", root=root, overlay=overlay, write=False, quiet=True)
    obs = list(ctx.obs.values()) if ctx else []
    viol = [o for o in obs if o.verdict == V]
    und = [o for o in obs if o.verdict == U]
    hit = [(o.rule, o.construct, o.what) for o in viol]
    if code == 1:
        return entry["name"], "VIOLATED", "", hit
    if code == 2:
        return entry["name"], "UNDECIDED", "; ".join(ln for ln in lines if ln.startswith("ANALYSIS"))[:300], [(o.rule, o.construct, o.what) for o in und]
    return entry["name"], "DISCHARGED", "", []


def run_corpus(prop, root="/repo/verde", jobs=16, names=None, seed=0):
    """returns list of dict(name, expect, got, ok, detail)"""
    entries = [e for e in load_corpus(prop) if not names or e["name"] in names]
    if seed:
        import random
        random.Random(seed).shuffle(entries)      # VERIF_SEED only permutes the order of the variants; verdicts do not depend on it
    if not entries:
        return []
    work = [(prop, root, e) for e in entries]
    if jobs > 1 and len(work) > 1:
        with multiprocessing.get_context("fork").Pool(min(jobs, len(work))) as pool:
            res = pool.map(_one, work)
    else:
        res = [_one(w) for w in work]
    out = []
    for e, (name, got, why, hit) in zip(entries, res):
        exp = e.get("expect", "VIOLATED")
        ok = None if got == "absent" else (got == exp)
        if ok and exp == "VIOLATED" and e.get("rule"):
            ok = any(h[0].endswith(e["rule"]) or h[0] == e["rule"] for h in hit)
        out.append({"name": name, "expect": exp, "got": got, "ok": ok, "why": why, "reported": hit[:3], "rule": e.get("rule"),
                    "passes_pinned_tests": e.get("passes_pinned_tests")})
    return out
