"""positive controls for C20.R2 / C11.R6 (hidden state, global RNG) and C04.R1 (flatten order)"""
import random

import numpy as np

_CACHE = {}
COUNTER = [0]


def global_rng(size):
    return np.random.uniform(0, 1, size)


def stdlib_rng():
    return random.random()


def global_statement():
    global COUNTER
    COUNTER = [1]
    return COUNTER


def module_cache(key, value):
    _CACHE[key] = value
    return _CACHE


def module_list_append(value):
    COUNTER.append(value)


def fortran_ravel(data):
    return np.ravel(data, order="F")


def fortran_flatten(data):
    return data.flatten("F")


def fortran_reshape(data):
    return data.reshape((2, -1), order="F")


def seeded_outside(random_state):  # noqa: U100
    rng = np.random.RandomState(42)
    return rng.uniform(0, 1, 3)

_TABLE = {"linear": (int, {"rescale": False})}


def mutates_held_object(method, extra):
    cls, kwargs = _TABLE[method]
    kwargs.update(extra)
    return cls, kwargs
