"""C08 - block_split assigns every point to the block that contains it (DESIGN §4 C08)."""
from .. import q as Q
from ..paths import lookup
from ..terms import callee, canon, const, is_const, is_int, kw, show, walk, NONE
from . import common as K

EXPLANATION = ("forwarding/literal checks of the pixel-registered centre grid, role/axis agreement between the k-d tree and its query, "
               "tuple-position and flatten-order checks of the labels and of the returned centres")
RULES = {
    "R1": "centres = grid_coordinates(region, spacing=spacing, shape=shape, adjust=adjust, pixel_register=True); region is the argument or get_region(coordinates) exactly when None",
    "R2": "the tree is built on the centres (E, N) and queried with the points in the same role order, both flattened in C order",
    "R3": "labels is element 1 (indices) of the query result, unreordered",
    "R4": "the returned centres are the C-order ravel of both centre arrays (west->east, then south->north from the SW corner)",
    "R5": "check_coordinates dominates",
}
ASSUMPTIONS = ["nearest centre = containing block (rectangular Voronoi cells) and the handling of points outside the region are geometric facts (declined)"]
QN = "verde.coordinates.block_split"
GC = "verde.coordinates.grid_coordinates"


def check(ctx):
    qn = QN
    # the block centres are what grid_coordinates / line_coordinates return for pixel registration (their own rules are C07's): the generic
    # rules of this property look at those two callees as well
    for callee_q in (GC, "verde.coordinates.line_coordinates"):
        if callee_q in ctx.pkg.functions:
            ctx.paths(callee_q)
    K.roles_rule(ctx, "R2", [qn, "verde.utils.kdtree"], with_return=True, require={qn: [{"tree-query"}, {"region-arg"}]})
    K.forwarding(ctx, "R1", qn, GC, {"spacing": ("param", "spacing"), "shape": ("param", "shape"), "adjust": ("param", "adjust")})
    K.literal_kw(ctx, "R1", qn, GC, "pixel_register", True, default=False)
    chk = ("call", ("glob", "verde.base.utils.check_coordinates"), (("param", "coordinates"),), (), 0)
    for p in ctx.paths(qn):
        if p.exit != "return":
            continue
        none = lookup(p.decided, ("cmp", "is", ("param", "region"), NONE))
        tag = "region-none" if none else "region-given"
        gcs = [e.data[0] for e in p.events if e.kind == "call" and callee(e.data[0]) == GC]
        if len(gcs) != 1:
            ctx.add("R1", "%s|one-centre-grid|%s" % (qn, tag), "UNDECIDED", "expected one grid_coordinates call", fn=qn)
            continue
        g = gcs[0]
        reg = Q.arg(ctx, g, "region")
        if none:
            ok = True if isinstance(reg, tuple) and reg[0] == "call" and callee(reg) == "verde.coordinates.get_region" and any(x == ("param", "coordinates") for x in walk(reg)) else (False if reg == ("param", "region") else None)
            ctx.check("R1", "%s|region|%s" % (qn, tag), ok, "with region=None the blocks cover get_region(coordinates)", bad="region=None is passed on to grid_coordinates", fn=qn)
        else:
            ok = True if reg == ("param", "region") else (False if isinstance(reg, tuple) and reg[0] == "call" and callee(reg) == "verde.coordinates.get_region" else None)
            ctx.check("R1", "%s|region|%s" % (qn, tag), ok, "a given region is used as is", bad="a given region is ignored (blocks always cover the data's bounding box)", fn=qn)
        # tree and query
        trees = [e.data[0] for e in p.events if e.kind == "call" and callee(e.data[0]) == "verde.utils.kdtree"]
        qs = [e.data[0] for e in p.events if e.kind == "call" and callee(e.data[0]) == ".query"]
        ok = None
        if not qs and not trees and any(c[0] == "cmp" and c[1] == "==" and c[3] == const(1) and v_ and c[2][0] == "attr" and c[2][2] == "size" and c[2][1][0] == "sub" and c[2][1][1] == g for c, v_ in p.conds):
            ok = True      # the single-block shortcut needs no tree (its constant labels are judged under R3)
        if len(trees) >= 1 and len(qs) == 1:
            t = trees[0]
            built_on = t[2][0] if t[2] else None
            ok = True if built_on == g else (False if built_on is not None and Q.is_reversed(built_on, g) else None)
        ctx.check("R2", "%s|tree-on-centres|%s" % (qn, tag), ok, "the k-d tree is built on the block centres", bad="the tree is built on the reversed centre tuple", fn=qn)
        if len(qs) == 1:
            qa = qs[0][2][0] if qs[0][2] else None
            pts = ("call", ("glob", "numpy.transpose"), (("call", ("glob", "verde.base.utils.n_1d_arrays"), (("sub", chk, ("slice", NONE, const(2), NONE)), const(2)), (), 0),), (), 0)
            okq, whyq = (True if qa is not None and canon(qa) == canon(pts) else None), ""
            if okq is None and qa is not None:
                # a narrowing conversion of the query points (float32, an integer type): points near a block edge move across it for
                # coordinates that need more digits than the narrow type keeps (UTM-sized values, small blocks)
                nc = [x for x, k_ in Q.narrowing_casts(qa) if k_ == "narrowing"]
                if nc:
                    okq, whyq = False, "the query points are converted with %s before the nearest-centre search: coordinates lose precision and points change block" % show(nc[0])[:60]
            ctx.check("R2", "%s|query-points|%s" % (qn, tag), okq,
                      "the query points are the C-order raveled (easting, northing) of the validated coordinates", bad=whyq, fn=qn)
            kq = Q.arg(ctx, qs[0], "k")
            ctx.check("R2", "%s|nearest-only|%s" % (qn, tag), True if kq in (None, const(1)) else (False if isinstance(kq, tuple) and is_const(kq) else None),
                      "the single nearest centre is queried", bad="the query asks for k=%s neighbours" % (show(kq) if isinstance(kq, tuple) else kq), fn=qn)
        # labels = element 1
        v = p.value
        ok = None
        if v[0] == "tuple" and len(v[1]) == 2 and len(qs) == 1:
            lab = v[1][1]
            if lab[0] == "sub" and lab[1] == qs[0] and is_int(lab[2]):
                ok = True if lab[2][1] == 1 else False
        why3 = "labels are element %s of the query result (distances)" % (v[1][1][2][1] if ok is False else "?")
        if ok is None and v[0] == "tuple" and len(v[1]) == 2 and not qs:
            lab = Q.unwrap(v[1][1])
            const_lab = lab[0] == "call" and callee(lab) in ("numpy.zeros", "numpy.zeros_like", "numpy.full", "numpy.full_like", "numpy.ones", "numpy.ones_like", "numpy.empty", "numpy.empty_like")
            if const_lab:
                # constant labels are right only when there is ONE block.  The centre grid is a pair of 2-D (n_north, n_east) arrays:
                # only its .size (or its whole shape) counts blocks; len() of it counts rows
                one_block = any(c[0] == "cmp" and c[1] == "==" and c[3] == const(1) and v_ and c[2][0] == "attr" and c[2][2] == "size" and c[2][1][0] == "sub" and c[2][1][1] == g for c, v_ in p.conds)
                rows_only = any(c[0] == "cmp" and c[1] == "==" and c[3] == const(1) and v_ and c[2][0] == "call" and callee(c[2]) == "builtins.len" and c[2][2] and
                                (c[2][2][0] == g or (c[2][2][0][0] == "sub" and c[2][2][0][1] == g)) for c, v_ in p.conds)
                if one_block:
                    ok = True
                elif rows_only:
                    ok, why3 = False, ("every point gets the constant label %s on a path guarded only by len(<centre grid>[k]) == 1: len() of the 2-D centre array counts its rows, "
                                       "so a 1 x n block layout is labelled as a single block" % show(lab)[:40])
                elif not any(g in Q.leaves(c) or any(x == g for x in walk(c)) for c, _v in p.conds):
                    ok, why3 = False, "every point gets the constant label %s on a path that does not depend on the number of blocks" % show(lab)[:40]
        ctx.check("R3", "%s|labels-are-indices|%s" % (qn, tag), ok, "labels = query(...)[1] (indices, not distances), in input order (or a constant only when there is a single block)",
                  bad=why3, fn=qn)
        # returned centres
        ok = None
        if v[0] == "tuple" and len(v[1]) == 2:
            cen = v[1][0]
            if cen[0] == "call" and callee(cen) == "verde.base.utils.n_1d_arrays" and cen[2] and cen[2][0] == g:
                ok = True
            elif cen[0] == "call" and callee(cen) == "verde.base.utils.n_1d_arrays" and cen[2] and Q.is_reversed(cen[2][0], g):
                ok = False
        ctx.check("R4", "%s|centres-raveled-C-order|%s" % (qn, tag), ok, "the centres are returned as n_1d_arrays(centre grid): C-order ravel of meshgrid(E, N)",
                  bad="the returned centres are reversed", fn=qn)
        okc = any(e.kind == "call" and e.data[0] == chk for e in p.events)
        ctx.check("R5", "%s|check_coordinates|%s" % (qn, tag), True if okc else False, "coordinates pass check_coordinates", bad="coordinates of different shapes are no longer rejected", fn=qn)
    # n_1d_arrays flattens in C order (C04.R1 scans the whole package; here: the helper itself)
    for p in ctx.paths("verde.base.utils.n_1d_arrays"):
        if p.exit != "return":
            continue
        orders = [kw(x, "order") for x in walk(p.value) if x[0] == "call" and callee(x) in ("numpy.ravel", ".ravel", ".flatten", "numpy.reshape", ".reshape")]
        bad = [o for o in orders if o is not None and o != const("C")]
        pos = [x for x in walk(p.value) if x[0] == "call" and callee(x) in (".ravel", ".flatten") and x[2] and x[2][0] != const("C")] + \
              [x for x in walk(p.value) if x[0] == "call" and callee(x) == "numpy.ravel" and len(x[2]) > 1 and x[2][1] != const("C")]
        ctx.check("R4", "verde.base.utils.n_1d_arrays|C-order", False if bad or pos else True, "n_1d_arrays ravels in C order", bad="n_1d_arrays flattens with a non-C order", fn="verde.base.utils.n_1d_arrays")
