"""C17 - longitude_continuity yields a valid region with unchanged angular meaning (DESIGN §4 C17)."""
from .. import q as Q
from .. import zones
from ..nf import Builder, Space, Undecided, compare
from ..paths import lookup
from ..terms import callee, canon, const, is_const, is_int, kw, show, subst, walk, NONE
from . import common as K

EXPLANATION = ("zone abstraction (engine H): exhaustive abstract interpretation of longitude_continuity's modular arithmetic over the finite partition of admissible (W, E) "
               "classes, deciding W' <= E', width, congruence and convention of the returned region on every class; plus dominance of the range checks, store targets, "
               "and normal-form agreement of the transforms applied to the bounds and to the longitudes")
RULES = {
    "R1": "_check_geographic_region dominates every use of the bounds; _check_geographic_coordinates dominates the modification of the longitudes; each raises on its range conditions",
    "R2": "only region[:2] and coordinates[0] are stored to; latitudes and extra coordinates flow through unchanged; both outputs are fresh copies",
    "R3": "the flag that selects the longitude transform is set on exactly the branch that moves the bounds to [-180, 180); bounds and longitudes get the same normal form on each branch",
    "R4": "erasing mod 360 from each transform leaves the identity (outputs congruent to inputs); the documented full-globe case exists and precedes the convention switch",
    "R5": "for every admissible class of (W, E): W' <= E', E' - W' = eastward width, both congruent to the inputs, both inside one convention; a full globe yields (0, 360)",
}
ASSUMPTIONS = ["np.allclose(|E - W|, 360) is read as exact equality (the property excludes widths within 0.01 degree of, but not equal to, a full circle)",
               "the equivalence 'point inside the returned region <=> angularly inside the original' is not enumerated over (W, E, longitude) classes; R3 + R5 are its structural ingredients"]
LC = "verde.coordinates.longitude_continuity"
REG = ("param", "region")
CO = ("param", "coordinates")


def erase_mod(t):
    if not isinstance(t, tuple):
        return t
    if t and isinstance(t[0], str):
        if t[0] == "binop" and t[1] == "%" and t[3] == const(360):
            return erase_mod(t[2])
        return tuple(erase_mod(e) if isinstance(e, tuple) else e for e in t)
    return tuple(erase_mod(e) if isinstance(e, tuple) else e for e in t)


def r1_checkers(ctx):
    qn = LC
    for p in ctx.paths(qn):
        if p.exit != "return":
            continue
        tag = Q.tags(p.conds)
        i_chk = Q.first_index(p, lambda e: e.kind == "call" and callee(e.data[0]) == "verde.coordinates._check_geographic_region")
        i_use = Q.first_index(p, lambda e: (e.kind == "cond" and any(x == Q.sub(REG, 0) or x == Q.sub(REG, 1) for x in walk(e.data[0]))) or (e.kind == "store"))
        # the range tests written out in place of the checker (its body inlined) are not recognised as such: the question stays open
        inline_tests = i_chk is None and any(c[0] == "call" and callee(c) in ("numpy.any", "builtins.any") and any(x == Q.sub(REG, 0) for x in walk(c)) for c, _v in p.conds)
        ctx.check("R1", "%s|region-checked-first|%s" % (qn, tag), True if i_chk is not None and (i_use is None or i_chk < i_use) else (None if inline_tests else False),
                  "_check_geographic_region precedes every use of the bounds", bad="the bounds are used before / without the geographic range check", fn=qn)
        if i_chk is not None:
            a = p.events[i_chk].data[0][2]
            okarg = a and (a[0] == REG or (a[0][0] in ("list", "tuple") and list(a[0][1][:4]) == [Q.sub(REG, k) for k in range(4)]))
            ctx.check("R1", "%s|region-check-argument|%s" % (qn, tag), True if okarg else None, "the check receives the region's (w, e, s, n)", fn=qn)
        if lookup(p.decided, CO) is True:
            i_c = Q.first_index(p, lambda e: e.kind == "call" and callee(e.data[0]) == "verde.coordinates._check_geographic_coordinates" and e.data[0][2] == (CO,))
            i_s = Q.first_index(p, lambda e: e.kind == "store" and CO in Q.leaves(e.data[0]))
            inline_c = i_c is None and any(c[0] == "call" and callee(c) in ("numpy.any", "builtins.any") and any(x == Q.sub(CO, 0) for x in walk(c)) for c, _v in p.conds)
            ctx.check("R1", "%s|coordinates-checked-first|%s" % (qn, tag), True if i_c is not None and (i_s is None or i_c < i_s) else (None if inline_c else False),
                      "_check_geographic_coordinates precedes the modification of the longitudes", bad="longitudes are modified before / without the range check", fn=qn)
    qn = "verde.coordinates._check_geographic_region"
    ps = ctx.paths(qn)
    r = [p for p in ps if p.exit == "raise"]
    def atoms(c, out):
        """the disjuncts of a raising condition as (bound index, op, limit); returns False if some disjunct is not of that form"""
        if c[0] == "boolop" and c[1] == "Or":
            return all([atoms(x, out) for x in c[2]])
        if c[0] == "call" and callee(c) in ("numpy.any", "builtins.any") and len(c[2]) == 1:
            return atoms(c[2][0], out)
        if c[0] == "binop" and c[1] == "|":
            return all([atoms(c[2], out), atoms(c[3], out)])
        if c[0] == "cmp" and c[1] in ("<", "<=", ">", ">=") and is_const(c[3]):
            left = c[2]
            while left[0] == "call" and callee(left) in ("numpy.array", "numpy.asarray", "numpy.asanyarray") and left[2]:
                left = left[2][0]           # np.array([w, e]) > 360 tests w and e
            items = left[1] if left[0] in ("list", "tuple") else (left,)
            idx = [x[2][1] for x in items if x[0] == "sub" and x[1] == REG and is_const(x[2])]
            if len(idx) == len(items) and idx:
                out.update((i, c[1], c[3][1]) for i in idx)
                return True
        return False

    def bounds_verdict(lo, hi, idx):
        got, clean = set(), True
        for p in r:
            if p.conds and p.conds[-1][1]:
                mine = set()
                ok_form = atoms(p.conds[-1][0], mine)
                if any(i in idx for i, _o, _l in mine):
                    got |= mine
                    clean = clean and ok_form
        need = {(i, ">", hi) for i in idx} | {(i, "<", lo) for i in idx}
        if need <= got:
            return True, ""
        if got and clean:
            names = "WESN"
            return False, "missing tests: %s" % ", ".join("%s %s %s" % (names[i], o, l) for i, o, l in sorted(need - got))
        return (None if got else False), "the range test was not found"
    v_lon, why_lon = bounds_verdict(-180, 360, (0, 1))
    ctx.check("R1", qn + "|raises|longitude-range", v_lon, "W < -180, W > 360, E < -180 and E > 360 each raise", bad="the longitude range test does not reject every bound outside [-180, 360]: " + why_lon, fn=qn)
    v_lat, why_lat = bounds_verdict(-90, 90, (2, 3))
    ctx.check("R1", qn + "|raises|latitude-range", v_lat, "S or N outside [-90, 90] raises", bad="the latitude range test does not reject every bound outside [-90, 90]: " + why_lat, fn=qn)
    wide = any(p.conds and p.conds[-1][0][0] == "cmp" and p.conds[-1][0][1] == ">" and p.conds[-1][0][3] == const(360) and p.conds[-1][0][2][0] == "call" and callee(p.conds[-1][0][2]) == "builtins.abs" for p in r)
    ctx.check("R1", qn + "|raises|wider-than-360", True if wide else False, "|E - W| > 360 raises", bad="regions wider than 360 degrees are accepted", fn=qn)
    qn = "verde.coordinates._check_geographic_coordinates"
    r = [p for p in ctx.paths(qn) if p.exit == "raise"]
    def arr_bounds(lo, hi, i):
        """the raising decisions, taken together, reject component i above hi and below lo.  Decisions are atoms, so the two halves of
        `any(x > hi) or any(x < lo)` are the last decisions of two raising paths"""
        comp = Q.sub(CO, i)

        def arr(t, which):
            return t == comp or Q.minmax_of(t) == (which, comp)        # np.any(lon > 360)  ==  lon.max() > 360
        hi_ok = lo_ok = False
        other = mention = False
        for p in r:
            if not p.conds:
                continue
            c, v = p.conds[-1]
            if comp not in set(walk(c)):
                continue
            mention = True
            for x in walk(c):
                if not (isinstance(x, tuple) and x and x[0] == "cmp" and x[1] in ("<", "<=", ">", ">=") and is_const(x[3]) and comp in set(walk(x[2]))):
                    continue
                if v and x[1] == ">" and x[3] == const(hi) and arr(x[2], "max"):
                    hi_ok = True
                elif v and x[1] == "<" and x[3] == const(lo) and arr(x[2], "min"):
                    lo_ok = True
                elif v and (arr(x[2], "max") or arr(x[2], "min")) and isinstance(x[3][1], (int, float)) and x[3][1] not in (lo, hi):
                    other = True
                elif v and ((x[1] == ">=" and x[3] == const(hi) and arr(x[2], "max")) or (x[1] == "<=" and x[3] == const(lo) and arr(x[2], "min"))):
                    other = True          # the limit itself is rejected: [lo, hi] is documented as closed
        if hi_ok and lo_ok:
            return True
        if other or not mention:
            return False
        return None
    ctx.check("R1", qn + "|raises|longitude-range", arr_bounds(-180, 360, 0), "longitudes outside [-180, 360] raise", bad="the longitude range test is missing or uses other limits", fn=qn)
    ctx.check("R1", qn + "|raises|latitude-range", arr_bounds(-90, 90, 1), "latitudes outside [-90, 90] raise", bad="the latitude range test is missing or uses other limits", fn=qn)

def r2_r3_r4(ctx):
    qn = LC
    seen_globe = False
    for p in ctx.paths(qn):
        if p.exit != "return":
            continue
        tag = Q.tags(p.conds)
        with_co = lookup(p.decided, CO) is True
        stores = [e for e in p.events if e.kind == "store"]
        rs = [e for e in stores if REG in Q.leaves(e.data[0]) and CO not in Q.leaves(e.data[0])]
        cs = [e for e in stores if CO in Q.leaves(e.data[0])]
        ok = len(rs) == 1 and rs[0].data[1] == ("slice", NONE, const(2), NONE) and rs[0].data[0][0] == "call" and callee(rs[0].data[0]) == "numpy.array" and \
            (not with_co or (len(cs) == 1 and cs[0].data[1] == const(0) and cs[0].data[0][0] == "call" and callee(cs[0].data[0]) == "numpy.array"))
        bad = [e for e in stores if (e in rs and e.data[1] != ("slice", NONE, const(2), NONE)) or (e in cs and e.data[1] != const(0)) or (e.data[0][0] == "call" and callee(e.data[0]) in ("numpy.asarray", "numpy.asanyarray")) or e.data[0] in (REG, CO)]
        ctx.check("R2", "%s|stores|%s" % (qn, tag), True if ok else (False if bad else None), "only region[:2] and coordinates[0] of fresh np.array copies are written",
                  bad="a store touches %s[%s]" % (show(bad[0].data[0])[:40], show(bad[0].data[1])) if bad else "", fn=qn)
        v = p.value
        if with_co:
            okr = v[0] == "tuple" and len(v[1]) == 2 and cs and rs and v[1][0] == cs[0].data[0] and v[1][1] == rs[0].data[0]
            ctx.check("R2", "%s|returns-(coordinates, region)|%s" % (qn, tag), True if okr else (False if v[0] == "tuple" and rs and cs and v[1][0] == rs[0].data[0] else None), "returns (coordinates, region)", bad="returns (region, coordinates)", fn=qn)
        else:
            ctx.check("R2", "%s|returns-region|%s" % (qn, tag), True if rs and v == rs[0].data[0] else None, "returns the region alone", fn=qn)
        if not rs:
            continue
        wv, ev_ = rs[0].data[2][1] if rs[0].data[2][0] == "tuple" and len(rs[0].data[2][1]) == 2 else (None, None)
        globe = any(c[0] == "call" and callee(c) in ("numpy.allclose", "numpy.isclose") and v_ for c, v_ in p.conds)
        if not globe and (wv, ev_) == (const(0), const(360)):
            # the bounds are set to the full-globe constants under a test that is not the documented np.allclose(|E - W|, 360): the path is
            # judged as the full-globe path, and whether the test selects exactly the full-globe inputs is left undecided (never a violation)
            globe = True
            ctx.add("R4", "%s|full-globe-test-recognised|%s" % (qn, tag), "UNDECIDED", "the full-globe constants (0, 360) are assigned under %s, not under the documented np.allclose(abs(E - W), 360)"
                    % (show(p.conds[0][0])[:70] if p.conds else "no test"), fn=qn)
        if globe:
            seen_globe = True
            ctx.check("R4", "%s|full-globe-becomes-(0, 360)|%s" % (qn, tag), True if (wv, ev_) == (const(0), const(360)) else False, "a full-globe region becomes (0, 360)",
                      bad="a full-globe region becomes %s" % show(rs[0].data[2]), fn=qn)
        sp = Space()
        x = sp.sym("x")
        forms = {}
        if not globe and wv is not None:
            try:
                forms["w"] = Builder(sp).nf(wv, {Q.sub(REG, 0): x})
                forms["e"] = Builder(sp).nf(ev_, {Q.sub(REG, 1): x})
            except Undecided as e:
                ctx.add("R3", "%s|same-convention|%s" % (qn, tag), "UNDECIDED", str(e), fn=qn)
                continue
        if with_co and cs:
            try:
                forms["lon"] = Builder(sp).nf(cs[0].data[2], {Q.sub(CO, 0): x})
            except Undecided as e:
                # not a normal-form term (np.where, ...): compare it with the expected transform cell by cell over [-180, 360]
                # (engine H: on each cell every `% 360` is a constant shift and every test has a definite value)
                want_t = ("binop", "%", Q.sub(CO, 0), const(360)) if globe else (wv if wv is not None else None)
                src = Q.sub(CO, 0) if globe else Q.sub(REG, 0)
                diff, und = None, None
                for cell in zones.CELLS:
                    cls = (cell, cell, zones.pt(0))
                    try:
                        got_f = zones.ev(cs[0].data[2], {Q.sub(CO, 0): zones.Aff(1, 0, 0)}, cls)
                        want_f = zones.ev(want_t, {src: zones.Aff(1, 0, 0)}, cls) if want_t is not None else None
                    except zones.Refine as ex:
                        und = str(ex)
                        continue
                    if want_f is not None and got_f.key() != want_f.key():
                        diff = diff or "for a longitude in %s the bounds are mapped by x -> %s but the longitudes by x -> %s" % (zones.cell_name(cell), repr(want_f).replace("w", "x"), repr(got_f).replace("w", "x"))
                ctx.add("R3", "%s|same-convention|%s" % (qn, tag), "VIOLATED" if diff else "UNDECIDED", diff or und or str(e), fn=qn)
                continue
        if globe and "lon" in forms:
            want = sp.fn("mod", x, Builder(sp).nf(const(360)))
            plain = all(sp.atoms[a][0] in ("sym",) or (sp.atoms[a][0] == "fn" and sp.atoms[a][1][0] == "mod") for a in forms["lon"].atoms_used())
            ctx.check("R3", "%s|same-convention|%s" % (qn, tag), True if forms["lon"] == want else (False if plain else None), "with the (0, 360) region the longitudes are reduced to [0, 360)",
                      bad="full-globe region (0, 360) but longitudes are transformed by %r" % forms["lon"], fn=qn)
        elif len(forms) >= 2:
            vals = list(forms.values())
            same = all(v_ == vals[0] for v_ in vals[1:])
            plain = all(sp.atoms[a][0] in ("sym",) or (sp.atoms[a][0] == "fn" and sp.atoms[a][1][0] == "mod") for v_ in vals for a in v_.atoms_used())
            ctx.check("R3", "%s|same-convention|%s" % (qn, tag), True if same else (False if plain else None), "the bounds%s get one and the same transform on this branch" % (" and the longitudes" if "lon" in forms else ""),
                      bad="different transforms on one branch: %s" % {k: repr(v_)[:50] for k, v_ in forms.items()}, fn=qn)
        # congruence: erase mod 360 -> identity
        for nm, t_, src in (("w", wv, Q.sub(REG, 0)), ("e", ev_, Q.sub(REG, 1))) + ((("lon", cs[0].data[2], Q.sub(CO, 0)),) if with_co and cs else ()):
            if globe and nm in ("w", "e"):
                continue
            try:
                got = Builder(sp).nf(erase_mod(t_), {src: x})
                d = got - x
                # anything but x itself in the difference (an opaque call, another quantity) leaves the question open
                plain = all(sp.atoms[a][0] == "sym" for a in d.atoms_used())
                ok = True if d.is_const() and d.constval() % 360 == 0 else (False if plain else None)
                if ok is False and got.is_const() and any(any(y == src for y in walk(c_)) for c_, _v in p.conds):
                    ok = None         # a constant assigned on a branch selected by a test on this very bound (e == 0 -> 360)
            except Undecided:
                ok = None
            ctx.check("R4", "%s|congruent-mod-360|%s|%s" % (qn, nm, tag), ok, "the transform of %s is the identity modulo 360" % nm, bad="the transform of %s is not congruent to its input modulo 360" % nm, fn=qn)
    ctx.check("R4", qn + "|full-globe-case-exists", True if seen_globe else False, "the documented full-globe special case exists", bad="the full-globe special case is gone: (W, W+360) collapses to zero width", fn=qn)


def r5_zones(ctx):
    qn = LC
    paths = [p for p in ctx.paths(qn) if p.exit == "return" and lookup(p.decided, CO) is False]
    if not paths:
        ctx.add("R5", qn + "|region-only-paths", "UNDECIDED", "no region-only return path", fn=qn)
        return
    env = {Q.sub(REG, 0): zones.Aff(1, 0, 0), Q.sub(REG, 1): zones.Aff(0, 1, 0)}

    def region_only(cond):
        if cond == CO:
            return False
        return None
    n = proved = 0
    for cls in zones.classes():
        try:
            width, full, admissible = zones.expected(cls)
        except zones.Refine:
            continue
        if not admissible:
            continue
        n += 1
        name = zones.class_name(cls)
        key = "%s|class|%s" % (qn, name)
        try:
            W, E, chosen = zones.interpret(paths, env, cls, region_only)
            d = zones.rng(E - W, cls)
            le = d[0] >= 0
            wd = zones.rng(E - W - width, cls)
            width_ok = wd[0] == wd[2] == 0
            if full:
                cong = (W.cw, W.ce, E.cw, E.ce) == (0, 0, 0, 0) and W.c == 0 and E.c == 360
            else:
                cong = (W.cw, W.ce) == (1, 0) and (E.cw, E.ce) == (0, 1) and W.c % 360 == 0 and E.c % 360 == 0
            rW, rE = zones.rng(W, cls), zones.rng(E, cls)
            conv = (rW[0] >= 0 and rE[2] <= 360 and rE[0] >= 0 and rW[2] <= 360) or (rW[0] >= -180 and rE[2] <= 180 and rE[0] >= -180 and rW[2] <= 180)
        except zones.Refine as ex:
            ctx.add("R5", key, "UNDECIDED", "the zone abstraction cannot decide this class: %s" % ex, fn=qn)
            continue
        if le and width_ok and cong and conv:
            proved += 1
            ctx.add("R5", key, "DISCHARGED", "returns W'=%r, E'=%r: W' <= E', width %r, congruent, one convention" % (W, E, width), fn=qn)
        else:
            why = []
            if not le:
                why.append("W' > E' (E' - W' ranges over %s..%s)" % (d[0], d[2]))
            if not width_ok:
                why.append("width is E'-W' = %r, documented %r" % (E - W, width))
            if not cong:
                why.append("bounds not congruent to the inputs" if not full else "full globe is not returned as (0, 360)")
            if not conv:
                why.append("bounds leave both conventions")
            ctx.add("R5", key, "VIOLATED", "returns W'=%r, E'=%r: %s" % (W, E, "; ".join(why)), fn=qn, line=chosen.line)
    ctx.extra_coverage = {"zone_classes_admissible": n, "zone_classes_proved": proved}
    if n < 40:
        ctx.add("R5", qn + "|class-count", "UNDECIDED", "only %d admissible classes enumerated (45 expected)" % n, fn=qn)


def check(ctx):
    r1_checkers(ctx)
    r2_r3_r4(ctx)
    r5_zones(ctx)
