"""Seeded faults and neutral edits for C09."""
B = "blockreduce.py"
RED = "reduction = {'data{}'.format(i): attach_weights(self.reduction, w) for i, w in enumerate(weights)}"
COLS = "columns = {'data{}'.format(i): np.ravel(comp) for i, comp in enumerate(data)}\n        columns['block'] = labels\n        blocked = pd.DataFrame(columns)"
AGG = "blocked = pd.DataFrame(columns).groupby('block').aggregate(reduction)"
ENTRIES = [
    dict(name="attach_weights: first len(values) weights", rule="R2", file=B, old="w = weights[values.index]", new="w = weights[:len(values)]"),
    dict(name="attach_weights: all weights", rule="R2", file=B, old="        w = weights[values.index]\n        return reduction(values, weights=w)", new="        return reduction(values, weights=weights)"),
    dict(name="weights enumerated in reverse", rule="R2", file=B, old=RED, new=RED.replace("enumerate(weights)", "enumerate(weights[::-1])")),
    dict(name="reduction keyed 'comp{}' vs columns 'data{}'", rule="R2", file=B, old=RED, new=RED.replace("'data{}'.format(i): attach", "'comp{}'.format(i): attach")),
    dict(name="groupby sort=False", rule="R1", file=B, old=AGG, new="blocked = pd.DataFrame(columns).groupby('block', sort=False).aggregate(reduction)"),
    dict(name="block column holds the centres", rule="R1", file=B, old="        columns['block'] = labels\n        blocked = pd.DataFrame(columns).groupby('block').aggregate(reduction)\n        blocked_data = tuple((np.ravel(blocked['data{}'.format(i)]) for i, _ in enumerate(data)))\n        blocked_coords = self._block_coordinates(coordinates, blocks, labels)\n        if len(blocked_data) == 1:\n            return (blocked_coords, blocked_data[0])",
         new="        columns['block'] = blocks\n        blocked = pd.DataFrame(columns).groupby('block').aggregate(reduction)\n        blocked_data = tuple((np.ravel(blocked['data{}'.format(i)]) for i, _ in enumerate(data)))\n        blocked_coords = self._block_coordinates(coordinates, blocks, labels)\n        if len(blocked_data) == 1:\n            return (blocked_coords, blocked_data[0])"),
    dict(name="data columns raveled in F order", rule="R1", file=B, old=COLS, new=COLS.replace("np.ravel(comp)", "np.ravel(comp, order='F')")),
    dict(name="outputs read with 'comp{}'", rule="R3", file=B, old="blocked_data = tuple((np.ravel(blocked['data{}'.format(i)]) for i, _ in enumerate(data)))\n        blocked_coords = self._block_coordinates(coordinates, blocks, labels)\n        if len(blocked_data) == 1:\n            return (blocked_coords, blocked_data[0])\n        return (blocked_coords, blocked_data)",
         new="blocked_data = tuple((np.ravel(blocked['comp{}'.format(i)]) for i, _ in enumerate(data)))\n        blocked_coords = self._block_coordinates(coordinates, blocks, labels)\n        if len(blocked_data) == 1:\n            return (blocked_coords, blocked_data[0])\n        return (blocked_coords, blocked_data)"),
    dict(name="centres indexed by all labels", rule="R4", file=B, old="grouped['coordinate{}'.format(i)] = np.ravel(block_coord[unique])", new="grouped['coordinate{}'.format(i)] = np.ravel(block_coord[labels])"),
    dict(name="centres: columns swapped", rule="R4", file=B, old="            for i, block_coord in enumerate(block_coordinates[:2]):", new="            for i, block_coord in enumerate(block_coordinates[:2][::-1]):"),
    dict(name="drop_coords keeps coordinates[1:]", rule="R4", file=B, old="        if self.drop_coords:\n            coordinates = coordinates[:2]", new="        if self.drop_coords:\n            coordinates = coordinates[1:]", expect="UNDECIDED"),
    dict(name="drop_coords inverted", rule="R4", file=B, old="        if self.drop_coords:\n            coordinates = coordinates[:2]", new="        if not self.drop_coords:\n            coordinates = coordinates[:2]"),
    dict(name="BlockReduce.filter: adjust not forwarded", rule="R5", file=B,
         old="        blocks, labels = block_split(coordinates, spacing=self.spacing, shape=self.shape, adjust=self.adjust, region=self.region)\n        if any((w is None for w in weights)):\n            reduction = self.reduction",
         new="        blocks, labels = block_split(coordinates, spacing=self.spacing, shape=self.shape, region=self.region)\n        if any((w is None for w in weights)):\n            reduction = self.reduction"),
    dict(name="BlockReduce.filter: single/multi inverted", rule="R6", file=B, old="        if len(blocked_data) == 1:\n            return (blocked_coords, blocked_data[0])\n        return (blocked_coords, blocked_data)",
         new="        if len(blocked_data) != 1:\n            return (blocked_coords, blocked_data[0])\n        return (blocked_coords, blocked_data)"),
    dict(name="neutral: f-string keys everywhere", expect="DISCHARGED", file=B, old=COLS, new=COLS.replace("'data{}'.format(i)", "f'data{i}'")),
    dict(name="neutral: temporary frame", expect="DISCHARGED", file=B, old=AGG, new="frame = pd.DataFrame(columns)\n        blocked = frame.groupby('block').aggregate(reduction)"),
]
