"""Re-run every filed behaviour-preserving rewrite (neutral/<name>/patch.diff) against the current checks, in memory (the patch is applied to
the current source of /repo without touching it).  A VIOLATION on any of them is a false alarm: the script fails.  Exit-2 results
(UNDECIDED) are listed: they are not alarms, but each is a place where a correct refactor costs the user a re-confirmation.
Usage: /venv/bin/python tools/check_neutral.py [--update-meta]"""
import json
import pathlib
import sys

VERIF = pathlib.Path(__file__).resolve().parent.parent
sys.path.insert(0, str(VERIF))


def main():
    from vstat import report, patching
    alarms = und = 0
    for d in sorted((VERIF / "neutral").iterdir()) if (VERIF / "neutral").is_dir() else []:
        pp = d / "patch.diff"
        if not pp.exists():
            continue
        try:
            ov = patching.overlay_for(pp.read_text())
        except patching.DoesNotApply as e:
            print("%-10s does not apply: %s" % (d.name, e))
            continue
        res = {}
        for i in range(1, 21):
            pid = "C%02d" % i
            code, ctx, lines = report.run_property(pid, "quick", overlay=ov, write=False, quiet=True)
            if code:
                res[pid] = {"exit": code, "reports": [ln.strip()[:300] for ln in lines if ln.startswith(("  C", "ANALYSIS"))][:4]}
        v = sorted(p for p, r in res.items() if r["exit"] == 1)
        u = sorted(p for p, r in res.items() if r["exit"] == 2)
        alarms += bool(v)
        und += bool(u)
        print("%-10s %s%s" % (d.name, ("FALSE ALARM in %s  " % ",".join(v)) if v else "silent  ", ("undecided in %s" % ",".join(u)) if u else ""))
        if "--update-meta" in sys.argv:
            mp = d / "meta.json"
            m = json.load(open(mp)) if mp.exists() else {}
            m["checks"] = res
            mp.write_text(json.dumps(m, indent=1))
    print("behaviour-preserving rewrites with a false alarm: %d; with an undecided check: %d" % (alarms, und))
    return 1 if alarms else 0


if __name__ == "__main__":
    sys.exit(main())
