"""Seeded faults and neutral edits for C06."""
CH, V, B, BR = "chain.py", "vector.py", "base/base_classes.py", "blockreduce.py"
RES = "residuals = tuple((datai - predi.reshape(datai.shape) for datai, predi in zip(data, pred)))"
ENTRIES = [
    dict(name="Chain.fit: every step filters the original data", rule="R1", file=CH, old="            args = step.filter(*args)", new="            args = step.filter(coordinates, data, weights)"),
    dict(name="Chain.fit: filter result discarded", rule="R1", file=CH, old="            args = step.filter(*args)", new="            step.filter(*args)"),
    dict(name="Chain.fit: first step skipped", rule="R1", file=CH, old="        for _, step in self.steps:\n            args = step.filter(*args)", new="        for _, step in self.steps[1:]:\n            args = step.filter(*args)"),
    dict(name="Chain.fit: initial tuple reordered", rule="R1", file=CH, old="args = (coordinates, data, weights)", new="args = (coordinates, weights, data)"),
    dict(name="Chain.predict: first step skipped", rule="R2", file=CH, old="        for _, step in self.steps:\n            if hasattr(step, 'predict'):", new="        for _, step in self.steps[1:]:\n            if hasattr(step, 'predict'):"),
    dict(name="Chain.predict: result[i] = pred", rule="R2", file=CH, old="                    result[i] += pred", new="                    result[i] = pred"),
    dict(name="Chain.predict: subtracts", rule="R2", file=CH, old="                    result[i] += pred", new="                    result[i] -= pred"),
    dict(name="Chain.predict: accumulator starts at 1", rule="R2", file=CH, old="result = [0 for i in range(len(predicted))]", new="result = [1 for i in range(len(predicted))]"),
    dict(name="Chain.predict: no hasattr guard", rule="R2", file=CH, old="            if hasattr(step, 'predict'):\n                predicted", new="            if True:\n                predicted"),
    dict(name="Vector.fit: all components get the full weights", rule="R3", file=V, old="estimator.fit(coordinates, data_comp, weight_comp)", new="estimator.fit(coordinates, data_comp, weights)"),
    dict(name="Vector.fit: data reversed", rule="R3", file=V, old="zip(self.components, data, weights)", new="zip(self.components, data[::-1], weights)"),
    dict(name="Vector.fit: data and weights swapped in the call", rule="R3", file=V, old="estimator.fit(coordinates, data_comp, weight_comp)", new="estimator.fit(coordinates, weight_comp, data_comp)"),
    dict(name="Vector.fit: unpack=True again (F9 reintroduced)", rule="R3", file=V, old="coordinates, data, weights = check_fit_input(coordinates, data, weights, unpack=False)\n        self.region_ = get_region(coordinates[:2])\n        for estimator",
         new="coordinates, data, weights = check_fit_input(coordinates, data, weights)\n        self.region_ = get_region(coordinates[:2])\n        for estimator"),
    dict(name="Vector.predict: reversed components", rule="R3", file=V, old="for comp in self.components))", new="for comp in reversed(self.components)))"),
    dict(name="filter: pred - data", rule="R4", file=B, old=RES, new="residuals = tuple((predi.reshape(datai.shape) - datai for datai, predi in zip(data, pred)))"),
    dict(name="filter: data + pred", rule="R4", file=B, old=RES, new="residuals = tuple((datai + predi.reshape(datai.shape) for datai, predi in zip(data, pred)))"),
    dict(name="filter: returns None weights", rule="R4", file=B, old="return (coordinates, residuals, weights)", new="return (coordinates, residuals, None)"),
    dict(name="filter: returns raveled coordinates", rule="R4", file=B, old="return (coordinates, residuals, weights)", new="return (tuple((np.ravel(c) for c in coordinates)), residuals, weights)"),
    dict(name="filter: fit without weights", rule="R4", file=B, old="        self.fit(coordinates, data, weights)\n        data = check_data(data)", new="        self.fit(coordinates, data)\n        data = check_data(data)"),
    dict(name="BlockMean.filter drops the weights", rule="R5", file=BR, old="        return (blocked_coords, blocked_data, blocked_weights)", new="        return (blocked_coords, blocked_data)"),
    dict(name="neutral: Chain.fit with named unpack", expect="DISCHARGED", file=CH, old="            args = step.filter(*args)", new="            result = step.filter(*args)\n            args = result"),
    dict(name="neutral: filter residuals as list comprehension", expect="DISCHARGED", file=B, old=RES, new="residuals = tuple([datai - predi.reshape(datai.shape) for datai, predi in zip(data, pred)])"),
]
