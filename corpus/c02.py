"""Seeded faults and neutral edits for C02."""
L, S, V, T, BU = "base/least_squares.py", "spline.py", "vector.py", "trend.py", "base/utils.py"
FIT = "regr.fit(jacobian, np.ravel(data), sample_weight=weights)"
ENTRIES = [
    dict(name="least_squares: sample_weight=None", rule="R2", file=L, old=FIT, new=FIT.replace("sample_weight=weights", "sample_weight=None")),
    dict(name="least_squares: sample_weight dropped", rule="R2", file=L, old=FIT, new="regr.fit(jacobian, np.ravel(data))"),
    dict(name="least_squares: sqrt(weights)", rule="R2", file=L, old=FIT, new=FIT.replace("sample_weight=weights", "sample_weight=np.sqrt(weights)")),
    dict(name="least_squares: data and weights swapped at the sink", rule="R2", file=L, old=FIT, new="regr.fit(jacobian, np.ravel(weights), sample_weight=data)"),
    dict(name="least_squares: F-order data", rule="R5", file=L, old=FIT, new=FIT.replace("np.ravel(data)", "np.ravel(data, order='F')")),
    dict(name="least_squares: Ridge without alpha", rule="R2", file=L, old="regr = Ridge(alpha=damping, fit_intercept=False)", new="regr = Ridge(fit_intercept=False)"),
    dict(name="least_squares: damping branches swapped", rule="R2", file=L, old="    if damping is None:\n        regr = LinearRegression", new="    if damping is not None:\n        regr = LinearRegression"),
    dict(name="Spline.fit: weights not passed on", rule="R1", file=S, old="self.force_ = least_squares(jacobian, data, weights, self.damping)", new="self.force_ = least_squares(jacobian, data, None, self.damping)"),
    dict(name="Trend.fit: raw (unvalidated) weights", rule="R1", file=T, old="        coordinates, data, weights = check_fit_input(coordinates, data, weights)\n        easting, northing", new="        coordinates, data, _ = check_fit_input(coordinates, data, weights)\n        easting, northing", expect="UNDECIDED"),
    dict(name="Trend.fit: squared weights", rule="R1", file=T, old="self.coef_ = least_squares(jac, data, weights, damping=None)", new="self.coef_ = least_squares(jac, data, weights ** 2, damping=None)"),
    dict(name="VectorSpline2D.fit: weights reversed", rule="R3", file=V, old="weights = np.concatenate([i.ravel() for i in weights])", new="weights = np.concatenate([i.ravel() for i in weights[::-1]])"),
    dict(name="VectorSpline2D.fit: data north first", rule="R3", file=V, old="data = np.concatenate([i.ravel() for i in data])", new="data = np.concatenate([i.ravel() for i in reversed(data)])"),
    dict(name="VectorSpline2D.fit: weights from the data", rule="R1", file=V, old="weights = np.concatenate([i.ravel() for i in weights])", new="weights = np.concatenate([i.ravel() for i in data])"),
    dict(name="VectorSpline2D.fit: weights always None", rule="R1", file=V, old="        if any((w is not None for w in weights)):\n            weights = np.concatenate", new="        if False:\n            weights = np.concatenate", expect="VIOLATED"),
    dict(name="check_fit_input: returns (coordinates, weights, data)", rule="R4", file=BU, old="    return (coordinates, data, weights)", new="    return (coordinates, weights, data)"),
    dict(name="check_fit_input: weights reversed", rule="R4", file=BU, old="weights = tuple((np.ravel(i) for i in weights))", new="weights = tuple((np.ravel(i) for i in reversed(weights)))"),
    dict(name="check_fit_input: weights raveled in F order", rule="R4", file=BU, old="weights = tuple((np.ravel(i) for i in weights))", new="weights = tuple((np.ravel(i, order='F') for i in weights))"),
    dict(name="check_fit_input: size check removed", rule="R4", file=BU, old="        if any((i.size != j.size for i in weights for j in data)):\n            raise ValueError('Weights must have the same size as the data array.')\n", new=""),
    dict(name="neutral: sample_weight via a temporary", expect="DISCHARGED", file=L, old=FIT, new="w = weights\n    rhs = np.ravel(data)\n    regr.fit(jacobian, rhs, sample_weight=w)"),
    dict(name="neutral: vector data stacked explicitly", expect="DISCHARGED", file=V, old="data = np.concatenate([i.ravel() for i in data])", new="data = np.concatenate([data[0].ravel(), data[1].ravel()])"),
]
