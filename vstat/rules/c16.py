"""C16 - hull masking and grid projection (DESIGN §4 C16)."""
from .. import q as Q
from ..paths import lookup
from ..terms import callee, canon, const, is_const, is_int, kw, show, walk, NONE
from . import common as K

EXPLANATION = ("dataflow checks of the shared normalisation (statistics from the data only), hull-on-data / query-on-grid, the != -1 test, "
               "projection applied to both point sets, and of the project_grid pipeline wiring; role/axis typing of the projected coordinates")
RULES = {
    "R1": "convexhull_mask: means and stds come from the data coordinates and normalise data and query alike; projection on both or neither; Delaunay on the data, "
          "find_simplex on the query; != -1; reshape to the query shape; grid form grid.where(mask)",
    "R2": "project_grid: table of valid cells; projection(table[dims[1]], table[dims[0]]); default region/shape/spacing; check_region; optional BlockReduce(np.mean, spacing, region=data region) first; "
          "chain fitted on (projected coordinates, values); gridded with region/spacing/name; masked by the hull of the projected data; Dataset / non-2-D rejected; method table",
}
ASSUMPTIONS = ["hull geometry, NaN/finite pattern and value preservation are SciPy/numpy semantics applied to correctly routed arguments (declined)"]
CH = "verde.mask.convexhull_mask"
PG = "verde.projections.project_grid"


def stat_source(t, meth):
    """the coordinate tuple whose elements' .mean()/.std() a statistics term is built from"""
    for x in walk(t):
        if x[0] == "call" and x[1][0] == "attr" and x[1][2] == meth and not x[2]:
            return x[1][1]
    return None


def r1_hull(ctx):
    K.roles_rule(ctx, "R1", [CH], with_return=False)
    for p in ctx.paths(CH):
        if p.exit != "return":
            continue
        proj = lookup(p.decided, ("cmp", "is", ("param", "projection"), NONE)) is False
        grid = lookup(p.decided, ("cmp", "is", ("param", "grid"), NONE)) is False
        tag = "%s,%s" % ("proj" if proj else "noproj", "grid" if grid else "array")
        dl = [e.data[0] for e in p.events if e.kind == "call" and callee(e.data[0]) == "scipy.spatial.Delaunay"]
        fs = [e.data[0] for e in p.events if e.kind == "call" and callee(e.data[0]) == ".find_simplex"]
        if len(dl) != 1 or len(fs) != 1:
            ctx.add("R1", "%s|delaunay-and-find_simplex|%s" % (CH, tag), "UNDECIDED", "expected one Delaunay and one find_simplex call", fn=CH)
            continue
        tri_pts, qry_pts = dl[0][2][0], fs[0][2][0]
        DC, QC = ("param", "data_coordinates"), ("param", "coordinates")
        gridco = ("call", ("glob", "verde.mask._get_grid_coordinates"), (QC, ("param", "grid")), (), 0)

        def from_data(t):
            lv = Q.leaves(t)
            return DC in lv, (QC in lv or any(x == gridco for x in walk(t)))
        # statistics come from the data only
        stats = [x for x in walk(("tuple", (tri_pts, qry_pts))) if x[0] == "call" and x[1][0] == "attr" and x[1][2] in ("mean", "std") and not x[2]]
        bad_stats = [x for x in stats if from_data(x[1][1])[1]]
        ctx.check("R1", "%s|statistics-from-data|%s" % (CH, tag), (False if bad_stats else True) if stats else None,
                  "every mean/std used for normalisation is computed from the data coordinates (%d terms)" % len(stats),
                  bad="a normalisation statistic is computed from the query coordinates: %s" % (show(bad_stats[0])[:70] if bad_stats else ""), fn=CH)
        # triangulation on data, query on grid
        td, tq = from_data(strip_stats(tri_pts))
        qd, qq = from_data(strip_stats(qry_pts))
        ctx.check("R1", "%s|hull-of-data|%s" % (CH, tag), True if td and not tq else (False if tq and not td else None), "the triangulation is built on the (normalised) data points",
                  bad="the triangulation is built on the query points", fn=CH)
        ctx.check("R1", "%s|query-is-grid|%s" % (CH, tag), True if qq and not qd else (False if qd and not qq else None), "find_simplex is asked about the (normalised) query points",
                  bad="find_simplex is asked about the data points", fn=CH)
        # both point sets normalised (same form) and projected alike
        has_proj = lambda t: any(y[0] == "call" and y[1] == ("param", "projection") for y in walk(strip_stats(t)))  # noqa: E731
        lt, lq = has_proj(tri_pts), has_proj(qry_pts)
        ctx.check("R1", "%s|both-or-neither-projected|%s" % (CH, tag), True if lt == proj and lq == proj else False,
                  "data and query points are both %s" % ("projected" if proj else "raw"), bad="data projected: %s, query projected: %s (projection given: %s)" % (lt, lq, proj), fn=CH)
        nstat_t = len([x for x in walk(tri_pts) if x[0] == "call" and x[1][0] == "attr" and x[1][2] in ("mean", "std")])
        nstat_q = len([x for x in walk(qry_pts) if x[0] == "call" and x[1][0] == "attr" and x[1][2] in ("mean", "std")])
        ctx.check("R1", "%s|both-normalised|%s" % (CH, tag), True if nstat_t and nstat_t == nstat_q else (False if bool(nstat_t) != bool(nstat_q) else None),
                  "data and query points are normalised with the same statistics", bad="only one of the two point sets is normalised", fn=CH)
        # mask
        v = p.value
        mask = v
        if grid:
            okw = v[0] == "call" and v[1] == ("attr", ("param", "grid"), "where") and len(v[2]) == 1
            ctx.check("R1", "%s|grid-form-returns-where(mask)|%s" % (CH, tag), True if okw else None, "the grid form returns grid.where(mask)", fn=CH)
            mask = v[2][0] if okw else None
        okc = oks = None
        if mask is not None:
            inner, shp = Q.reshape_of(mask) if Q.reshape_of(mask) is not None else (mask, None)
            if inner[0] == "cmp" and inner[2] == fs[0]:
                okc = True if (inner[1] == "!=" and inner[3] == const(-1)) or (inner[1] in (">=",) and inner[3] == const(0)) or (inner[1] == ">" and inner[3] == const(-1)) else \
                    (False if is_const(inner[3]) else None)
            if shp is not None:
                oks = True if canon(shp) == canon(Q.sub(gridco, 1)) else None
        ctx.check("R1", "%s|inside-is-simplex!=-1|%s" % (CH, tag), okc, "inside the hull means find_simplex != -1", bad="the mask tests find_simplex with %s" % (show(mask)[-40:] if mask else None), fn=CH)
        ctx.check("R1", "%s|mask-shape|%s" % (CH, tag), oks, "the mask has the shape of the query coordinates", fn=CH)


def strip_stats(t):
    """the term with every x.mean()/x.std() call removed (so that only the normalised quantity's own provenance remains)"""
    if not isinstance(t, tuple):
        return t
    if t and isinstance(t[0], str):
        if t[0] == "call" and t[1][0] == "attr" and t[1][2] in ("mean", "std") and not t[2]:
            return const(0)
        if t[0] == "comp" and t[2][0] == "call" and t[2][1][0] == "attr" and t[2][1][2] in ("mean", "std"):
            return const(0)
        if t[0] == "elem" and any(x[0] == "call" and x[1][0] == "attr" and x[1][2] in ("mean", "std") for x in walk(t[1])) and t[1][0] == "comp":
            return const(0)
        return tuple(strip_stats(e) if isinstance(e, tuple) else e for e in t)
    return tuple(strip_stats(e) if isinstance(e, tuple) else e for e in t)


def r2_project_grid(ctx):
    K.roles_rule(ctx, "R2", [PG], with_return=False, require={PG: [{"projection-args"}, {"region-arg"}]})
    ps = ctx.paths(PG)
    ds = any(p.exit == "raise" and p.conds and p.conds[-1][1] and p.conds[-1][0][0] == "call" and callee(p.conds[-1][0]) == "builtins.hasattr" for p in ps)
    nd = any(p.exit == "raise" and p.conds and p.conds[-1][1] and p.conds[-1][0][0] == "cmp" and p.conds[-1][0][1] == "!=" and p.conds[-1][0][3] == const(2) for p in ps)
    ctx.check("R2", PG + "|rejects-dataset", True if ds else False, "a Dataset raises", bad="Datasets are accepted", fn=PG)
    ctx.check("R2", PG + "|rejects-non-2d", True if nd else False, "a grid that is not 2-D raises", bad="non-2-D grids are accepted", fn=PG)
    table = {"linear": "verde.scipygridder.Linear", "nearest": "verde.neighbors.KNeighbors", "cubic": "verde.scipygridder.Cubic"}
    n = 0
    for p in ps:
        if p.exit != "return":
            continue
        anti = lookup(p.decided, ("param", "antialias"))
        bystr = any(c[0] == "call" and callee(c) == "builtins.isinstance" and v for c, v in p.conds)
        tag = "%s,%s" % ("antialias" if anti else "plain", "method-name" if bystr else "method-object")
        n += 1
        prj = [e.data[0] for e in p.events if e.kind == "call" and e.data[0][1] == ("param", "projection")]
        if len(prj) != 1:
            ctx.add("R2", "%s|projection-call|%s" % (PG, tag), "UNDECIDED", "expected one projection call", fn=PG)
            continue
        pc = prj[0]
        tab = ("call", ("attr", ("call", ("glob", "verde.utils.grid_to_table"), (("param", "grid"),), (), 0), "dropna"), (), (), 0)
        gd = ("attr", ("param", "grid"), "dims")
        want_args = (("attr", ("sub", tab, Q.sub(gd, 1)), "values"), ("attr", ("sub", tab, Q.sub(gd, 0)), "values"))
        got = tuple(canon(a) for a in pc[2])
        ok = True if got == tuple(canon(a) for a in want_args) else (False if got == tuple(canon(a) for a in want_args[::-1]) else None)
        ctx.check("R2", "%s|projection-of-valid-cells|%s" % (PG, tag), ok, "the projection receives (table[dims[1]], table[dims[0]]) = (easting, northing) of the non-NaN cells",
                  bad="the projection receives (northing, easting)", fn=PG)
        nodrop = not any(x[0] == "call" and x[1][0] == "attr" and x[1][2] == "dropna" for x in walk(pc))
        ctx.check("R2", "%s|nan-cells-dropped|%s" % (PG, tag), False if nodrop else True, "NaN cells are dropped before interpolation", bad="NaN cells are kept in the table", fn=PG)
        dreg = ("call", ("glob", "verde.coordinates.get_region"), (pc,), (), 0)
        pops = {}
        for e in p.events:
            t = e.data[0] if e.kind == "call" else None
            if t is not None and t[1] == ("attr", ("param", "**kwargs"), "pop") and len(t[2]) == 2 and is_const(t[2][0]):
                pops[t[2][0][1]] = t
        reg = pops.get("region")
        ctx.check("R2", "%s|default-region|%s" % (PG, tag), True if reg is not None and canon(reg[2][1]) == canon(dreg) else None, "the default region is the bounding box of the projected data", fn=PG)
        shp = pops.get("shape")
        ctx.check("R2", "%s|default-shape|%s" % (PG, tag), True if shp is not None and shp[2][1] == ("attr", ("param", "grid"), "shape") else None, "the default shape is the input grid's shape", fn=PG)
        spc = pops.get("spacing")
        oksp = None
        if spc is not None and reg is not None and shp is not None:
            d = spc[2][1]
            oksp = True if d[0] == "call" and callee(d) == "verde.coordinates.shape_to_spacing" and d[2] == (reg, shp) else (False if d[0] == "call" and callee(d) == "verde.coordinates.shape_to_spacing" and d[2] == (shp, reg) else None)
        whysp = "shape_to_spacing receives (shape, region)"
        if oksp is None and spc is not None and reg is not None and shp is not None:
            d = spc[2][1]
            if d[0] == "call" and callee(d) == "verde.coordinates.shape_to_spacing" and len(d[2]) == 2 and d[2][1] == shp and d[2][0] != reg and canon(d[2][0]) == canon(dreg):
                # the spacing handed to the gridder must fit the region that is gridded: the requested one, not the data's bounding box
                oksp, whysp = False, "the default spacing is derived from the bounding box of the projected data even when another region is requested: the output grid has the wrong shape and spacing"
        ctx.check("R2", "%s|default-spacing|%s" % (PG, tag), oksp, "the default spacing is shape_to_spacing(region, shape)", bad=whysp, fn=PG)
        okcr = any(e.kind == "call" and callee(e.data[0]) == "verde.coordinates.check_region" and reg is not None and e.data[0][2] == (reg,) for e in p.events)
        anycr = any(e.kind == "call" and callee(e.data[0]) == "verde.coordinates.check_region" for e in p.events)
        ctx.check("R2", "%s|check_region|%s" % (PG, tag), True if okcr else (None if anycr else False), "the (given or default) region is validated", bad="the region is not validated", fn=PG)
        # pipeline
        ch = [e.data[0] for e in p.events if e.kind == "call" and callee(e.data[0]) == "verde.chain.Chain"]
        if len(ch) != 1 or not ch[0][2] or ch[0][2][0][0] != "list":
            ctx.add("R2", "%s|chain|%s" % (PG, tag), "UNDECIDED", "expected one Chain([...]) construction", fn=PG)
            continue
        steps = ch[0][2][0][1]
        names = [s[1][0] for s in steps if s[0] == "tuple"]
        objs = [s[1][1] for s in steps if s[0] == "tuple"]
        if anti:
            okst = len(objs) == 2 and objs[0][0] == "call" and callee(objs[0]) == "verde.blockreduce.BlockReduce"
            swapped = len(objs) == 2 and objs[1][0] == "call" and callee(objs[1]) == "verde.blockreduce.BlockReduce"
            ctx.check("R2", "%s|antialias-step-first|%s" % (PG, tag), True if okst else (False if swapped or len(objs) == 1 else None), "with antialiasing a blocked mean precedes the interpolator",
                      bad="the blocked-mean step is %s" % ("after the interpolator" if swapped else "missing"), fn=PG)
            if okst:
                br = objs[0]
                red = Q.arg(ctx, br, "reduction")
                ctx.check("R2", "%s|antialias-reduction|%s" % (PG, tag), True if red == ("glob", "numpy.mean") else (False if isinstance(red, tuple) and red[0] == "glob" else None),
                          "the antialiasing reduction is np.mean", bad="the antialiasing reduction is %s" % (show(red) if isinstance(red, tuple) else red), fn=PG)
                bs = Q.arg(ctx, br, "spacing")
                ctx.check("R2", "%s|antialias-spacing|%s" % (PG, tag), True if bs is not None and spc is not None and bs == spc else None, "blocks have the output spacing", fn=PG)
                brg = Q.arg(ctx, br, "region")
                ctx.check("R2", "%s|antialias-region|%s" % (PG, tag), True if isinstance(brg, tuple) and canon(brg) == canon(dreg) else (False if brg is None else None),
                          "blocks cover the projected data's region", bad="the blocked mean ignores the data region", fn=PG)
        else:
            ctx.check("R2", "%s|no-antialias-step|%s" % (PG, tag), True if len(objs) == 1 else (False if any(o[0] == "call" and callee(o) == "verde.blockreduce.BlockReduce" for o in objs) else None),
                      "without antialiasing only the interpolator runs", bad="a blocked mean runs although antialias is off", fn=PG)
        if bystr:
            m = objs[-1]
            okm = None
            if m[0] == "call" and m[1][0] == "sub" and m[1][1][0] == "dict" and m[1][2] == ("param", "method"):
                dd = {k[1]: v for k, v in m[1][1][1] if k is not None and is_const(k)}
                okm = True if dd == {k: ("glob", c) for k, c in table.items()} else False
            ctx.check("R2", "%s|method-table|%s" % (PG, tag), okm, "linear/nearest/cubic map to Linear/KNeighbors/Cubic", bad="the method table maps names to the wrong gridders", fn=PG)
        fits = [e.data[0] for e in p.events if e.kind == "call" and e.data[0][1] == ("attr", ch[0], "fit")]
        name_t = None
        okf = None
        if len(fits) == 1:
            a = fits[0][2]
            okf = True if len(a) >= 2 and canon(a[0]) == canon(pc) and a[1][0] == "sub" and canon(a[1][1]) == canon(tab) else (False if len(a) >= 2 and canon(a[0]) != canon(pc) and ("param", "projection") not in Q.leaves(a[0]) else None)
            name_t = a[1][2] if okf else None
        ctx.check("R2", "%s|fit-on-projected-points|%s" % (PG, tag), okf, "the chain is fitted on (projected coordinates, table[name])", bad="the chain is fitted on unprojected coordinates", fn=PG)
        grids = [e.data[0] for e in p.events if e.kind == "call" and e.data[0][1] == ("attr", ch[0], "grid")]
        okg = None
        if len(grids) == 1:
            g = grids[0]
            def given(nm):
                v = Q.arg(ctx, g, nm)
                # a keyword that was popped from **kwargs before cannot come back through the **kwargs spread: not written out = not passed
                if v == "unknown" and nm in pops and not any(k == nm for k, _v in g[3]):
                    return None
                return v
            okg = True if given("region") == reg and given("spacing") == spc else (False if given("region") is None or given("spacing") is None else None)
        ctx.check("R2", "%s|grid-with-region-and-spacing|%s" % (PG, tag), okg, "the interpolator grids with the chosen region and spacing", bad="region/spacing are not passed to grid()", fn=PG)
        v = p.value
        okh = None
        if v[0] == "sub" and v[1][0] == "call" and callee(v[1]) == "verde.mask.convexhull_mask" and len(grids) == 1:
            h = v[1]
            hc = Q.arg(ctx, h, "data_coordinates")
            hg = Q.arg(ctx, h, "grid")
            okh = True if isinstance(hc, tuple) and canon(hc) == canon(pc) and hg == grids[0] else (False if isinstance(hc, tuple) and ("param", "projection") not in Q.leaves(hc) else None)
        elif v[0] == "sub" and len(grids) == 1 and v[1] == grids[0]:
            okh = False
        ctx.check("R2", "%s|hull-mask-of-projected-data|%s" % (PG, tag), okh, "the result is masked by the convex hull of the projected data points",
                  bad="the hull mask is missing or uses unprojected points", fn=PG)
    if n < 4:
        ctx.add("R2", PG + "|paths", "UNDECIDED", "expected at least 4 return paths", fn=PG)


def r_grid_form(ctx):
    from . import c15
    ctx.alias = {"R4": "R1"}
    try:
        c15.r4_grid_coordinates(ctx)
    finally:
        ctx.alias = {}


def check(ctx):
    r_grid_form(ctx)
    r1_hull(ctx)
    r2_project_grid(ctx)
