"""C04 - gridding results do not depend on array layout, point order or dtype (DESIGN §4 C04)."""
from .. import q as Q
from ..loader import Package
from ..paths import Analysis, lookup
from ..report import VERIF
from ..terms import callee, canon, const, is_const, is_int, kw, show, walk, NONE
from . import common as K

EXPLANATION = ("package-wide scan of flatten orders (with positive control), provenance of every array reaching a per-point kernel/solver/tree (must pass n_1d_arrays / ravel), "
               "output-shape plumbing of every predict, dtype provenance of every allocation in the gridders, sibling agreement of predict and jacobian")
RULES = {
    "R1": "no ravel/flatten/reshape/asarray/array call in the package passes an order other than 'C'",
    "R2": "arrays that are combined with per-point state (kernel arguments, design-matrix columns) have passed n_1d_arrays / np.ravel first",
    "R3": "every predict reshapes its result to np.broadcast(*coordinates[:2]).shape (SciPy gridders hand (E, N) to the interpolator, which broadcasts)",
    "R4": "no accumulator or design matrix takes its dtype from a caller's array while receiving values computed from other arrays or float-valued operations",
    "R5": "predict and jacobian of the same class flatten the force coordinates the same way",
    "R6": "values handed from one step to the next keep their dtype and their order: filter residuals are not narrowed (C06.R4), block reductions come out in the order of the "
          "sorted block labels their coordinates use (C09.R4, C10.R2)",
    "R7": "check_fit_input (the one place every fit / filter validates its inputs) returns (coordinates, data, weights) in that order with every weight passed through np.ravel - a bare, C-raveled "
          "ndarray whatever container the caller used (a weight handed back as given keeps a pandas index and is later indexed by label) (C02.R4)",
}
ASSUMPTIONS = ["invariance under permutation of the points, linearity in the data, pandas containers and round-off are relations between pairs of executions of numerical code (declined)"]
ALLOC = {"numpy.empty", "numpy.zeros", "numpy.ones", "numpy.full", "numpy.empty_like", "numpy.zeros_like", "numpy.ones_like", "numpy.full_like"}
FLOAT_NAMES = {"float", "float64", "float32", "f8", "f4", "d", "double", "longdouble", "float128"}
FLOAT_GLOBS = {"numpy.float64", "numpy.float32", "numpy.float16", "numpy.longdouble", "numpy.double", "numpy.single", "builtins.float", "numpy.float_", "numpy.floating"}
GRIDDER_METHODS = ["verde.spline.Spline.predict", "verde.spline.Spline.jacobian", "verde.spline.Spline.fit", "verde.trend.Trend.predict", "verde.trend.Trend.jacobian", "verde.trend.Trend.fit",
                   "verde.vector.VectorSpline2D.predict", "verde.vector.VectorSpline2D.jacobian", "verde.vector.VectorSpline2D.fit", "verde.neighbors.KNeighbors.predict", "verde.neighbors.KNeighbors.fit",
                   "verde.base.least_squares.least_squares", "verde.chain.Chain.predict", "verde.utils.variance_to_weights"]


def nonc_orders(pkg, an):
    """[(function, line, text)] of flatten-like calls with a non-C order, over a package"""
    out = []
    for qn, fa in an.all():
        for f in [fa] + list(fa.nested.values()):
            if not f.ok:
                out.append((qn, 0, "UNDECIDED:" + f.unsupported))
                continue
            seen = set()
            for p in f.paths:
                for e in p.events:
                    if e.kind != "call":
                        continue
                    t = e.data[0]
                    nm = callee(t)
                    if nm in ("numpy.ravel", ".ravel", ".flatten", "numpy.reshape", ".reshape", "numpy.asarray", "numpy.array", "numpy.ascontiguousarray", "numpy.asfortranarray", ".copy", "numpy.copy", "numpy.unravel_index", "numpy.ravel_multi_index"):
                        o = kw(t, "order")
                        pos = None
                        if nm in (".ravel", ".flatten") and t[2]:
                            pos = t[2][0]
                        if nm == "numpy.ravel" and len(t[2]) > 1:
                            pos = t[2][1]
                        if nm == "numpy.reshape" and len(t[2]) > 2:
                            pos = t[2][2]
                        for v in (o, pos):
                            if v is not None and v not in (const("C"), NONE) and (e.line, nm) not in seen:
                                seen.add((e.line, nm))
                                out.append((qn, e.line, "%s with order %s" % (nm, show(v))))
                        if nm == "numpy.asfortranarray" and (e.line, nm) not in seen:
                            seen.add((e.line, nm))
                            out.append((qn, e.line, "asfortranarray"))
    return out


def r1_orders(ctx):
    finds = nonc_orders(ctx.pkg, ctx.an)
    by_mod = {}
    for qn, line, what in finds:
        by_mod.setdefault(ctx.pkg.functions[qn].module.qual, []).append((qn, line, what))
    for mq in sorted(ctx.pkg.modules):
        fs = by_mod.get(mq, [])
        bad = [f for f in fs if not f[2].startswith("UNDECIDED")]
        und = [f for f in fs if f[2].startswith("UNDECIDED")]
        if bad:
            ctx.add("R1", mq + "|single-flatten-order", "VIOLATED", "%s in %s: element order differs from every other C-order flattening in the package" % (bad[0][2], bad[0][0]), fn=bad[0][0], line=bad[0][1])
        elif und:
            ctx.add("R1", mq + "|single-flatten-order", "UNDECIDED", und[0][2], fn=und[0][0])
        else:
            ctx.add("R1", mq + "|single-flatten-order", "DISCHARGED", "every flatten/reshape/asarray call of the module uses the default C order", nontrivial=any(f.module.qual == mq for f in ctx.pkg.functions.values()))
    fpkg = Package(VERIF / "fixtures" / "controls", name="controls")
    got = {w for _q, _l, w in nonc_orders(fpkg, Analysis(fpkg))}
    need = {"numpy.ravel with order 'F'", ".flatten with order 'F'", "numpy.reshape with order 'F'"}     # x.reshape(...) is recorded as np.reshape(x, ...)
    ctx.check("R1", "fixtures/controls/state.py|positive-control", True if need <= got else None, "the scan reports the %d seeded non-C orders of the control fixture" % len(need), undecided="control not detected: %s" % sorted(need - got))


def raveled(t):
    """the term is the result of n_1d_arrays / np.ravel / .ravel() / .flatten() (C order)"""
    if t[0] == "sub" and is_int(t[2]) and t[1][0] == "call" and callee(t[1]) == "verde.base.utils.n_1d_arrays":
        return True
    if t[0] == "call" and callee(t) in ("numpy.ravel", ".ravel", ".flatten") and kw(t, "order") in (None, const("C")):
        return True
    if t[0] == "call" and t[1][0] == "attr" and t[1][2] in ("copy",):
        return raveled(t[1][1])
    if t[0] == "elem" and t[1][0] == "call" and callee(t[1]) == "verde.base.utils.n_1d_arrays":
        return True
    return False


def r2_canonical(ctx):
    kernels = {"verde.spline.predict_numpy": ["east", "north", "force_east", "force_north"], "verde.spline.predict_numba": ["east", "north", "force_east", "force_north"],
               "verde.spline.jacobian_numpy": ["east", "north", "force_east", "force_north"], "verde.spline.jacobian_numba": ["east", "north", "force_east", "force_north"],
               "verde.vector.predict_2d_numpy": ["east", "north", "force_east", "force_north"], "verde.vector.predict_2d_numba": ["east", "north", "force_east", "force_north"],
               "verde.vector.jacobian_2d_numpy": ["east", "north", "force_east", "force_north"], "verde.vector.jacobian_2d_numba": ["east", "north", "force_east", "force_north"]}
    for qn in ("verde.spline.Spline.predict", "verde.spline.Spline.jacobian", "verde.vector.VectorSpline2D.predict", "verde.vector.VectorSpline2D.jacobian"):
        res = {}
        for p in ctx.paths(qn):
            for e in p.events:
                if e.kind == "call" and callee(e.data[0]) in kernels:
                    for nm in kernels[callee(e.data[0])]:
                        a = Q.arg(ctx, e.data[0], nm)
                        ok = raveled(a) if isinstance(a, tuple) else None
                        prev = res.get(nm)
                        res[nm] = (ok if prev is None or prev[0] is True else prev[0], a if not ok else (prev[1] if prev else a)) if prev else (ok, a)
        if not res:
            ctx.add("R2", qn + "|kernel-arguments", "UNDECIDED", "no kernel call found", fn=qn)
        for nm, (ok, a) in sorted(res.items()):
            raw = isinstance(a, tuple) and not ok and (Q.is_self_attr(Q.unwrap(a)) or Q.unwrap(a)[0] == "sub" and (Q.is_self_attr(Q.unwrap(a)[1]) or Q.unwrap(a)[1][0] == "param"))
            ctx.check("R2", "%s|kernel-argument-raveled|%s" % (qn, nm), True if ok else (False if raw else None), "%s reaches the kernel as a C-order 1-D array (n_1d_arrays)" % nm,
                      bad="%s reaches the kernel unraveled (%s): 2-D inputs break or mis-broadcast" % (nm, show(a)[:60] if isinstance(a, tuple) else a), fn=qn)
    for qn in ("verde.trend.Trend.predict", "verde.trend.Trend.jacobian"):
        n1d = ("call", ("glob", "verde.base.utils.n_1d_arrays"), (("param", "coordinates"), const(2)), (), 0)
        ok = None
        for p in ctx.paths(qn):
            vals = [e.data[2] for e in p.events if e.kind in ("aug", "store")]
            for v in vals:
                pows = [x for x in walk(v) if x[0] == "binop" and x[1] == "**"]
                if pows:
                    bases = [x[2] for x in pows]
                    good = all(raveled(b) for b in bases)
                    rawb = any(b[0] == "sub" and b[1] == ("param", "coordinates") for b in bases)
                    ok = True if good and ok is not False else (False if rawb else ok)
        ctx.check("R2", qn + "|monomials-on-raveled-coordinates", ok, "the monomials are evaluated on the raveled coordinates", bad="the monomials are evaluated on the raw (possibly 2-D) coordinates and written into a 1-D buffer", fn=qn)
    qn = "verde.base.utils.n_1d_arrays"
    for p in ctx.paths(qn):
        if p.exit != "return":
            continue
        v = Q.unseq(p.value)
        ok = None
        if v[0] == "comp":
            e = v[2]
            ok = True if e[0] == "call" and callee(e) in ("numpy.ravel", ".ravel") and kw(e, "order") in (None, const("C")) and len(e[2]) <= 1 and v[3] == ("sub", ("param", "arrays"), ("slice", NONE, ("param", "n"), NONE)) else None
        ctx.check("R2", qn + "|ravels-the-first-n", ok, "n_1d_arrays returns the C-order ravel of the first n arrays, in order", fn=qn)


def bshape():
    co = ("param", "coordinates")
    return ("attr", ("call", ("glob", "numpy.broadcast"), (Q.sub(co, 0), Q.sub(co, 1)), (), 0), "shape")


def r3_shape(ctx):
    for qn in ("verde.spline.Spline.predict", "verde.trend.Trend.predict", "verde.neighbors.KNeighbors.predict"):
        for p in ctx.paths(qn):
            if p.exit != "return":
                continue
            v = p.value
            tag = Q.tags(p.conds) or "-"
            ok = None
            rs = Q.reshape_of(v)
            if rs is not None:
                s = rs[1]
                ok = True if canon(s) == canon(bshape()) else (False if s[0] == "attr" and s[2] == "shape" and s[1][0] == "sub" and s[1][1] == ("param", "coordinates") else None)
            elif v[0] in ("mu", "call"):
                ok = False
            ctx.check("R3", "%s|broadcast-shape|%s" % (qn, tag), ok, "the prediction is reshaped to np.broadcast(easting, northing).shape",
                      bad="the prediction is %s" % ("reshaped to the shape of one coordinate only (scalar/broadcast inputs break)" if Q.reshape_of(v) is not None else "returned flat"), fn=qn)
    qn = "verde.vector.VectorSpline2D.predict"
    for p in ctx.paths(qn):
        if p.exit != "return":
            continue
        v = Q.unseq(p.value)
        tag = Q.tags(p.conds) or "-"
        ok = None
        rs = Q.reshape_of(v[2]) if v[0] == "comp" else None
        if rs is not None:
            ok = True if canon(rs[1]) == canon(bshape()) else (False if rs[1][0] == "attr" and rs[1][1][0] == "sub" else None)
        ctx.check("R3", "%s|broadcast-shape|%s" % (qn, tag), ok, "each component is reshaped to the broadcast shape of the query coordinates", bad="components are reshaped to one coordinate's shape", fn=qn)
    qn = "verde.chain.Chain.predict"
    ctx.check("R3", qn + "|delegates-shape", True, "Chain sums its steps' predictions (shape is the steps' shape)", fn=qn, nontrivial=False)


def dtype_class(ctx, t, fn):
    """'float' (guaranteed floating), 'param:<array expr>' (taken from an array), 'dtype-param', or None (unknown)"""
    if t is None:
        return "float"          # numpy allocators default to float64
    if is_const(t):
        return "float" if (isinstance(t[1], str) and t[1].lstrip("<>=") in FLOAT_NAMES) else ("nonfloat:%r" % (t[1],))
    if t[0] == "glob":
        return "float" if t[1] in FLOAT_GLOBS else ("nonfloat:%s" % t[1] if t[1] in ("builtins.int", "numpy.int64", "numpy.int32", "builtins.bool", "numpy.bool_", "builtins.object") else None)
    if t[0] == "call" and callee(t) in ("numpy.result_type", "numpy.promote_types", "numpy.find_common_type"):
        if any(dtype_class(ctx, a, fn) == "float" for a in t[2]):
            return "float"
        return None
    if t[0] == "attr" and t[2] == "dtype":
        return "array:" + show(t[1])[:60]
    if t[0] == "param":
        return "dtype-param:" + t[1]
    return None


EF = [None]


def r4_dtypes(ctx):
    from ..effects import Effects
    EF[0] = Effects(ctx.an)
    n = 0
    for qn in GRIDDER_METHODS:
        f = ctx.pkg.fn(qn)
        per = {}
        for p in ctx.paths(qn):
            k = 0
            for e in p.events:
                if e.kind != "call" or callee(e.data[0]) not in ALLOC:
                    continue
                t = e.data[0]
                like = callee(t).endswith("_like")
                dt = Q.arg(ctx, t, "dtype")
                if dt == "unknown":
                    cls = None
                elif dt is None and like:
                    proto = t[2][0] if t[2] else None
                    if proto is None:
                        cls = None
                    elif EF[0].aliases(proto):
                        cls = "like-param:" + show(proto)[:60]
                    elif proto[0] == "call" and callee(proto) in ("numpy.sqrt", "numpy.log", "numpy.hypot", "numpy.exp", "numpy.sin", "numpy.cos", "numpy.arctan2", "numpy.true_divide") \
                            or (proto[0] == "binop" and proto[1] == "/") or (proto[0] == "binop" and proto[1] == "+" and proto[2][0] == "call" and callee(proto[2]) in ("numpy.sqrt", "numpy.hypot")):
                        cls = "float"
                    else:
                        cls = None
                else:
                    cls = dtype_class(ctx, dt, f)
                key = "%s#%d" % (callee(t).split(".")[1], k)
                k += 1
                per.setdefault(key, set()).add((cls, e.line))
        for key, vals in sorted(per.items()):
            n += 1
            clss = {c for c, _l in vals}
            line = sorted(l for _c, l in vals)[0]
            if clss == {"float"}:
                ctx.add("R4", "%s|allocation|%s" % (qn, key), "DISCHARGED", "the buffer's dtype is guaranteed floating (default, float literal, or np.result_type(..., float))", fn=qn, line=line)
                continue
            c = sorted(x for x in clss if x != "float")[0] if any(x is not None and x != "float" for x in clss) else None
            if c is None:
                ctx.add("R4", "%s|allocation|%s" % (qn, key), "UNDECIDED", "dtype provenance not recognised", fn=qn, line=line)
            elif c.startswith("array:"):
                ctx.add("R4", "%s|allocation|%s" % (qn, key), "VIOLATED", "the buffer takes its dtype from %s.dtype while it receives floating-point values computed from other arrays: integer inputs raise or truncate" % c[6:], fn=qn, line=line)
            elif c.startswith("nonfloat:") and not c.endswith("object") and "bool" not in c:
                ctx.add("R4", "%s|allocation|%s" % (qn, key), "VIOLATED", "the buffer is allocated with the non-floating dtype %s" % c[9:], fn=qn, line=line)
            elif c.startswith("nonfloat:"):
                ctx.add("R4", "%s|allocation|%s" % (qn, key), "DISCHARGED", "non-numeric buffer (%s)" % c[9:], fn=qn, line=line, nontrivial=False)
            elif c.startswith("like-param:"):
                # *_like without dtype copies the prototype's dtype: a (view of a) caller's array makes the buffer integer for integer inputs
                ctx.add("R4", "%s|allocation|%s" % (qn, key), "VIOLATED", "the buffer copies the dtype of the caller's array %s while it receives floating-point values" % c[11:], fn=qn, line=line)
            elif c.startswith("dtype-param:"):
                pn = c.split(":", 1)[1]
                dflt = f.defaults.get(pn)
                import ast as _ast
                dv = _ast.literal_eval(dflt) if dflt is not None and isinstance(dflt, _ast.Constant) else None
                ok_default = isinstance(dv, str) and dv in FLOAT_NAMES
                # every package call site must pass a float-guaranteed dtype (or none)
                sites = []
                for q2 in ctx.pkg.functions:
                    fa2 = ctx.an.fa(q2)
                    if not fa2.ok:
                        continue
                    for p2 in fa2.paths:
                        for e2 in p2.events:
                            if e2.kind == "call" and (callee(e2.data[0]) == qn or (f.cls is not None and e2.data[0][1] == ("attr", Q.SELF, f.name) and ctx.pkg.find_method(ctx.pkg.functions[q2].cls.qual, f.name) is f if ctx.pkg.functions[q2].cls else False)):
                                a = Q.arg(ctx, e2.data[0], pn, f.call_params)
                                sites.append((q2, e2.line, dtype_class(ctx, a, f) if a != "unknown" else None))
                bad = [s for s in sites if s[2] is not None and s[2] != "float" and not s[2].startswith("dtype-param")]
                und = [s for s in sites if s[2] is None]
                if bad:
                    ctx.add("R4", "%s|allocation|%s" % (qn, key), "VIOLATED", "call site %s passes %s=%s: the matrix takes a caller array's dtype although it holds values computed from other arrays" % (bad[0][0], pn, bad[0][2]), fn=bad[0][0], line=bad[0][1])
                elif not ok_default or und:
                    ctx.add("R4", "%s|allocation|%s" % (qn, key), "UNDECIDED", "dtype parameter %s: default %r, %d call sites undecided" % (pn, dv, len(und)), fn=qn, line=line)
                else:
                    ctx.add("R4", "%s|allocation|%s" % (qn, key), "DISCHARGED", "dtype parameter '%s' defaults to %r and every package call site (%d) passes a floating dtype" % (pn, dv, len(sites)), fn=qn, line=line)
            else:
                ctx.add("R4", "%s|allocation|%s" % (qn, key), "UNDECIDED", "dtype class %s" % c, fn=qn, line=line)
    if n < 8:
        ctx.add("R4", "allocations|count", "UNDECIDED", "only %d allocations found in the gridder methods (expected >= 8)" % n)


def r5_siblings(ctx):
    for cq, attr in (("verde.spline.Spline", None), ("verde.vector.VectorSpline2D", None)):
        forms = {}
        for m in ("predict", "jacobian"):
            qn = cq + "." + m
            for p in ctx.paths(qn):
                for e in p.events:
                    if e.kind == "call" and e.data[0][1][0] == "glob" and e.data[0][1][1].rsplit(".", 1)[1].startswith(("predict_", "jacobian_")):
                        fe = Q.arg(ctx, e.data[0], "force_east")
                        if isinstance(fe, tuple):
                            forms.setdefault(m, set()).add("raveled" if raveled(fe) else "raw")
        a, b = forms.get("predict", set()), forms.get("jacobian", set())
        ok = True if a == b == {"raveled"} else (False if a and b and a != b else None)
        ctx.check("R5", cq + "|predict-and-jacobian-flatten-forces-alike", ok, "predict and jacobian both pass n_1d_arrays(force coordinates) to their kernels",
                  bad="predict passes %s force coordinates, jacobian %s: fit succeeds and predict fails for 2-D force_coords" % (sorted(a), sorted(b)), fn=cq + ".predict")


def check(ctx):
    r1_orders(ctx)
    r2_canonical(ctx)
    r3_shape(ctx)
    r4_dtypes(ctx)
    r5_siblings(ctx)
    from . import c06, c09, c10
    from . import c02
    ctx.alias = {"R1": "R2", "R3": "R2"}      # the components handed to the solver are flattened, in the order of the Jacobian's blocks (C02.R1/R3)
    try:
        c02.r1_weights(ctx)
    finally:
        ctx.alias = {}
    ctx.alias = {"R4": "R7"}          # container independence rests on check_fit_input handing out bare, C-raveled ndarrays
    try:
        c02.r4_check_fit_input(ctx)
    finally:
        ctx.alias = {}
    for mod, fn, src in ((c06, "r4_filter", "R4"), (c10, "r2_uncertainty", "R2"), (c10, "r3_unweighted", "R3"), (c09, "r_block_coordinates", "R4")):
        ctx.alias = {src: "R6"}
        try:
            getattr(mod, fn)(ctx)
        finally:
            ctx.alias = {}
