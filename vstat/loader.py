"""Front end: parse the package (with optional in-memory overlay), resolve imports, classes, MRO.

Nothing is imported or executed; everything is read from the syntax trees.
"""
import ast
import builtins as _b
import hashlib
import pathlib

BUILTINS = set(dir(_b))


class AnalysisError(Exception):
    """the analyser cannot do its job (anchor vanished, file unparsable) -> exit 2"""


class Module:
    def __init__(self, qual, path, src, is_package):
        self.qual, self.path, self.src, self.is_package = qual, path, src, is_package
        self.tree = ast.parse(src, filename=str(path))
        self.imports = {}       # local name -> qualified name (first alternative)
        self.alt_imports = {}   # local name -> [other alternatives] (try/except ImportError)
        self.defs = {}          # name -> "function" | "class" | "assign"
        self.assigns = {}       # name -> ast expr (module-level simple assignments)
        self._collect()

    def _pkg(self, level):
        parts = self.qual.split(".")
        if not self.is_package:
            parts = parts[:-1]
        if level > 1:
            parts = parts[: len(parts) - (level - 1)]
        return parts

    def _imp(self, node, table):
        if isinstance(node, ast.Import):
            for a in node.names:
                if a.asname:
                    table.setdefault(a.asname, []).append(a.name)
                else:
                    table.setdefault(a.name.split(".")[0], []).append(a.name.split(".")[0])
        elif isinstance(node, ast.ImportFrom):
            if node.level:
                base = ".".join(self._pkg(node.level) + ([node.module] if node.module else []))
            else:
                base = node.module or ""
            for a in node.names:
                table.setdefault(a.asname or a.name, []).append(base + "." + a.name)

    def _collect(self):
        table = {}
        for n in self.tree.body:
            if isinstance(n, (ast.Import, ast.ImportFrom)):
                self._imp(n, table)
            elif isinstance(n, ast.Try):
                for m in n.body:
                    self._imp(m, table)
                    if isinstance(m, ast.Assign):
                        self._assign(m)
                for h in n.handlers:
                    for m in h.body:
                        self._imp(m, table)
                        if isinstance(m, ast.Assign):
                            for t in m.targets:
                                if isinstance(t, ast.Name):
                                    table.setdefault(t.id, []).append("<" + ast.unparse(m.value) + ">")
            elif isinstance(n, ast.FunctionDef):
                self.defs[n.name] = "function"
            elif isinstance(n, ast.ClassDef):
                self.defs[n.name] = "class"
            elif isinstance(n, ast.Assign):
                self._assign(n)
        for k, v in table.items():
            self.imports[k] = v[0]
            if len(v) > 1:
                self.alt_imports[k] = v[1:]

    def _assign(self, n):
        for t in n.targets:
            if isinstance(t, ast.Name):
                self.defs.setdefault(t.id, "assign")
                self.assigns[t.id] = n.value


class Function:
    def __init__(self, qual, module, node, cls=None, parent=None):
        self.qual, self.module, self.node, self.cls, self.parent = qual, module, node, cls, parent
        a = node.args
        self.posparams = [p.arg for p in a.posonlyargs + a.args]
        self.kwonly = [p.arg for p in a.kwonlyargs]
        self.vararg = a.vararg.arg if a.vararg else None
        self.kwarg = a.kwarg.arg if a.kwarg else None
        self.params = self.posparams + self.kwonly
        self.defaults = {}
        for p, d in zip(reversed(a.posonlyargs + a.args), reversed(a.defaults)):
            self.defaults[p.arg] = d
        for p, d in zip(a.kwonlyargs, a.kw_defaults):
            if d is not None:
                self.defaults[p.arg] = d
        self.decorators = [ast.unparse(d) for d in node.decorator_list]
        self.name = node.name

    @property
    def is_method(self):
        return self.cls is not None and "staticmethod" not in self.decorators

    @property
    def is_property(self):
        return "property" in self.decorators

    @property
    def call_params(self):
        """positional parameters as seen by a caller (without self/cls)"""
        ps = list(self.posparams)
        if self.is_method and ps:
            ps = ps[1:]
        return ps

    def docstring(self):
        return ast.get_docstring(self.node) or ""

    def __repr__(self):
        return "<Function %s>" % self.qual


class Class:
    def __init__(self, qual, module, node):
        self.qual, self.module, self.node = qual, module, node
        self.base_exprs = [ast.unparse(b) for b in node.bases]
        self.bases = []        # resolved qualified names
        self.methods = {}      # name -> Function (own)
        self.attrs = {}        # class-level assignments: name -> ast expr
        self.name = node.name


class Package:
    def __init__(self, root="/repo/verde", overlay=None, name="verde"):
        self.root = pathlib.Path(root)
        self.name = name
        self.overlay = overlay or {}
        self.modules, self.functions, self.classes = {}, {}, {}
        self.files = []
        self.unused_ok = set()
        if not self.root.is_dir():
            raise AnalysisError("package root %s not found" % root)
        h = hashlib.sha256()
        for p in sorted(self.root.rglob("*.py")):
            rel = p.relative_to(self.root)
            if "tests" in rel.parts:
                continue
            parts = list(rel.with_suffix("").parts)
            is_pkg = parts[-1] == "__init__"
            if is_pkg:
                parts = parts[:-1]
            qual = ".".join([name] + parts)
            src = self.overlay.get(str(rel), None)
            if src is None:
                src = p.read_text()
            h.update(str(rel).encode() + b"\0" + src.encode())
            try:
                m = Module(qual, p, src, is_pkg)
            except SyntaxError as e:
                raise AnalysisError("cannot parse %s: %s" % (rel, e)) from e
            self.modules[qual] = m
            self.files.append(str(rel))
            # functions whose arguments the repository itself marks as intentionally unused (flake8 U100); read from the file on
            # disk, because in-memory variants are re-emitted by ast.unparse and lose their comments
            import re as _re
            for ln in p.read_text().splitlines():
                mm = _re.match(r"\s*def\s+(\w+)\s*\(.*#\s*noqa:.*\bU100\b", ln)
                if mm:
                    self.unused_ok.add((qual, mm.group(1)))
        self.digest = h.hexdigest()[:16]
        for m in list(self.modules.values()):
            self._collect_defs(m)
        for c in self.classes.values():
            c.bases = [self.resolve_name(c.module, b) for b in c.base_exprs]

    # ------------------------------------------------------------------ definitions
    def _collect_defs(self, m):
        def visit(body, cls=None, prefix=m.qual):
            for n in body:
                if isinstance(n, ast.ClassDef):
                    c = Class(prefix + "." + n.name, m, n)
                    self.classes[c.qual] = c
                    for s in n.body:
                        if isinstance(s, ast.Assign):
                            for t in s.targets:
                                if isinstance(t, ast.Name):
                                    c.attrs[t.id] = s.value
                    visit(n.body, c, c.qual)
                elif isinstance(n, ast.FunctionDef):
                    f = Function(prefix + "." + n.name, m, n, cls)
                    self.functions[f.qual] = f
                    if cls is not None:
                        cls.methods[n.name] = f
                elif isinstance(n, ast.Try):
                    visit(n.body, cls, prefix)
        visit(m.tree.body)

    # ------------------------------------------------------------------ names
    def canon_qual(self, q):
        """follow re-exports and module-level aliases to the defining qualified name"""
        for _ in range(8):
            mod, _, nm = q.rpartition(".")
            if mod in self.modules:
                m = self.modules[mod]
                if nm in m.defs and m.defs[nm] in ("function", "class"):
                    return q
                if nm in m.imports:
                    q2 = m.imports[nm]
                    if q2 == q:
                        return q
                    q = q2
                    continue
                if nm in m.assigns:
                    v = m.assigns[nm]
                    # NAME = decorator(...)(function)  -> alias of function
                    if isinstance(v, ast.Call) and isinstance(v.func, ast.Call) and len(v.args) == 1 and isinstance(v.args[0], ast.Name):
                        q = self.resolve_name(m, v.args[0].id)
                        continue
                    if isinstance(v, ast.Name):
                        q = self.resolve_name(m, v.id)
                        continue
                return q
            return q
        return q

    def resolve_name(self, module, dotted):
        """qualified name of a (possibly dotted) name used in `module`"""
        head, _, rest = dotted.partition(".")
        if head in module.imports:
            q = module.imports[head]
        elif head in module.defs:
            q = module.qual + "." + head
        elif head in BUILTINS:
            q = "builtins." + head
        else:
            q = module.qual + "." + head
        if rest:
            q = q + "." + rest
        if q == "np" or q.startswith("np."):
            q = "numpy" + q[2:]
        return self.canon_qual(q)

    # ------------------------------------------------------------------ classes
    def mro(self, cq):
        out, seen = [], set()

        def go(q):
            if q in seen:
                return
            seen.add(q)
            out.append(q)
            c = self.classes.get(q)
            if c:
                for b in c.bases:
                    go(b)
        go(cq)
        return out

    def find_method(self, cq, name):
        for q in self.mro(cq):
            c = self.classes.get(q)
            if c and name in c.methods:
                return c.methods[name]
        return None

    def class_attr(self, cq, name):
        for q in self.mro(cq):
            c = self.classes.get(q)
            if c and name in c.attrs:
                return c, c.attrs[name]
        return None, None

    def subclasses(self, cq):
        return [c.qual for c in self.classes.values() if cq in self.mro(c.qual)[1:]]

    def is_subclass(self, cq, base):
        return base in self.mro(cq)

    def fn(self, qual):
        f = self.functions.get(qual)
        if f is None:
            raise AnalysisError("anchor vanished: function %s not found in %s" % (qual, self.root))
        return f

    def cls(self, qual):
        c = self.classes.get(qual)
        if c is None:
            raise AnalysisError("anchor vanished: class %s not found in %s" % (qual, self.root))
        return c

    def exported(self):
        """qualified names reachable from verde/__init__.py and verde/base/__init__.py imports"""
        out = {}
        for mq in (self.name, self.name + ".base", self.name + ".synthetic", self.name + ".datasets"):
            m = self.modules.get(mq)
            if not m:
                continue
            for local, q in m.imports.items():
                cq = self.canon_qual(q)
                if cq in self.functions or cq in self.classes:
                    out[cq] = mq + "." + local
            if mq.endswith("synthetic"):
                for nm, kind in m.defs.items():
                    if kind in ("function", "class") and not nm.startswith("_"):
                        out[mq + "." + nm] = mq + "." + nm
        return out
