"""Confirm and file one independently produced seeded change under /verif/seeded/<name>/.
Usage: /venv/bin/python tools/keep_seeded.py <out dir of the agent> <k> <name> [--suite]
Steps (all in a scratch worktree of /repo under /tmp, removed afterwards): the demonstration passes on the clean tree, fails with
the patch; optionally the pinned suite still passes with the patch; then every quick check is run against /repo with the patch
applied (and undone straight afterwards) and what they report is recorded in meta.json."""
import json
import os
import pathlib
import shutil
import subprocess
import sys
import tempfile
import xml.etree.ElementTree as ET

VERIF = pathlib.Path(__file__).resolve().parent.parent


def sh(cmd, **kw):
    return subprocess.run(cmd, shell=True, capture_output=True, text=True, **kw)


def main():
    out, k, name = pathlib.Path(sys.argv[1]), sys.argv[2], sys.argv[3]
    suite = "--suite" in sys.argv
    patch, demo, meta = out / ("change_%s.diff" % k), out / ("demo_%s.py" % k), out / ("meta_%s.json" % k)
    if not patch.exists() or not demo.exists():
        print("missing patch or demo")
        return 2
    conf = pathlib.Path("/tmp/seedconf/%s.json" % name)
    if "--use-confirm" in sys.argv and conf.exists():
        res = json.load(open(conf))
        return file_it(res, patch, demo, meta, name, suite)
    wt = tempfile.mkdtemp(prefix="seedchk_", dir="/tmp")
    os.rmdir(wt)
    r = sh("git -C /repo worktree add -q --detach %s HEAD" % wt)
    if r.returncode:
        print(r.stderr)
        return 2
    res = {}
    try:
        env = dict(os.environ, PYTHONPATH=wt, OMP_NUM_THREADS="1", OPENBLAS_NUM_THREADS="1", MKL_NUM_THREADS="1", NUMBA_NUM_THREADS="1")
        clean = sh("cd %s && timeout 600 /venv/bin/python %s" % (wt, demo), env=env)
        res["demo_on_clean_tree"] = clean.returncode
        ap = sh("git -C %s apply %s" % (wt, patch))
        if ap.returncode:
            print("patch does not apply to the current /repo HEAD:", ap.stderr.strip()[:300])
            return 2
        broken = sh("cd %s && timeout 600 /venv/bin/python %s" % (wt, demo), env=env)
        res["demo_with_patch"] = broken.returncode
        res["demo_failure_tail"] = (broken.stdout + broken.stderr).strip().splitlines()[-3:]
        imp = sh("cd %s && /venv/bin/python -c 'import verde'" % wt, env=env)
        res["imports"] = imp.returncode == 0
        if suite:
            jx = pathlib.Path(wt) / "junit.xml"
            sh("cd %s && /venv/bin/python -m pytest -q -p no:cacheprovider --timeout=900 --continue-on-collection-errors -n 4 --junitxml=%s" % (wt, jx), env=env)
            base = set(json.load(open("/root/.vp/BASELINE.json"))["stable_pass"])
            got = {}
            for tc in ET.parse(jx).iter("testcase"):
                nm = tc.get("classname") + "::" + tc.get("name")
                got[nm] = not any(c.tag in ("failure", "error", "skipped") for c in tc)
            res["pinned_tests_failing_with_patch"] = sorted(n for n in base if not got.get(n))
    finally:
        sh("git -C /repo worktree remove --force %s" % wt)
        shutil.rmtree(wt, ignore_errors=True)
    if "--confirm-only" in sys.argv:
        conf.parent.mkdir(exist_ok=True)
        conf.write_text(json.dumps(res, indent=1))
        print(name, json.dumps(res)[:400])
        return 0
    return file_it(res, patch, demo, meta, name, suite)


def file_it(res, patch, demo, meta, name, suite):
    ok = res.get("demo_on_clean_tree") == 0 and res.get("demo_with_patch") not in (0, None) and res.get("imports")
    print(json.dumps(res, indent=1))
    if not ok:
        print("NOT CONFIRMED")
        return 1
    tmpj = tempfile.mktemp(suffix=".json")
    d = sh("cd %s && /venv/bin/python tools/try_seeded.py %s --keep-json %s" % (VERIF, patch, tmpj))
    detected = json.load(open(tmpj)) if os.path.exists(tmpj) else {}
    dest = VERIF / "seeded" / name
    dest.mkdir(parents=True, exist_ok=True)
    shutil.copy(patch, dest / "patch.diff")
    shutil.copy(demo, dest / "demo.py")
    m = json.load(open(meta)) if meta.exists() else {}
    m.update({"confirmed": res, "ran": ["demo.py on a clean scratch worktree (exit 0)", "demo.py with patch.diff applied (non-zero exit)"] + (["pinned suite with the patch"] if suite else []) +
              ["git -C /repo apply patch.diff; every quick check; git -C /repo checkout -- ."],
              "checks": {pid: {"exit": v["exit"], "violation": v["exit"] == 1, "first_reports": v["reports"][:3]} for pid, v in detected.items()}})
    (dest / "meta.json").write_text(json.dumps(m, indent=1))
    print("filed under", dest, "| checks firing:", {p: v["exit"] for p, v in detected.items()})
    return 0


if __name__ == "__main__":
    sys.exit(main())
