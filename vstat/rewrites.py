"""Behaviour-preserving whole-package rewrites (DESIGN 8.5/8.6): used by tools/neutral_sweep.py and by the thorough tier, which
re-analyses the CURRENT source after all of them have been applied at once.  Pure ast -> ast; nothing is executed."""
import ast
import pathlib

class Renamer(ast.NodeTransformer):
    def visit_FunctionDef(self, node):
        params = {a.arg for a in node.args.posonlyargs + node.args.args + node.args.kwonlyargs}
        if node.args.vararg:
            params.add(node.args.vararg.arg)
        if node.args.kwarg:
            params.add(node.args.kwarg.arg)
        own, nested_names = set(), set()

        def scan(n, depth):
            for c in ast.iter_child_nodes(n):
                if isinstance(c, (ast.FunctionDef, ast.Lambda, ast.ClassDef)):
                    if isinstance(c, ast.FunctionDef):
                        nested_names.add(c.name)
                        for a in c.args.args + c.args.kwonlyargs:
                            nested_names.add(a.arg)
                    for cc in ast.walk(c):
                        if isinstance(cc, ast.Name) and isinstance(cc.ctx, ast.Store):
                            nested_names.add(cc.id)
                        if isinstance(cc, ast.arg):
                            nested_names.add(cc.arg)
                    continue
                if isinstance(c, (ast.ListComp, ast.SetComp, ast.DictComp, ast.GeneratorExp)):
                    for g in c.generators:
                        for cc in ast.walk(g.target):
                            if isinstance(cc, ast.Name):
                                nested_names.add(cc.id)
                if isinstance(c, ast.Name) and isinstance(c.ctx, ast.Store) and depth == 0:
                    own.add(c.id)
                if isinstance(c, (ast.Global, ast.Nonlocal)):
                    nested_names.update(c.names)
                scan(c, depth)
        scan(node, 0)
        targets = {n for n in own if n not in params and n not in nested_names and not n.startswith("__")}
        for c in ast.walk(node):
            if isinstance(c, ast.Name) and c.id in targets:
                c.id = c.id + "_rn"
        self.generic_visit(node)
        return node


class Commute(ast.NodeTransformer):
    """a * b -> b * a for every multiplication (numbers and arrays commute; list * int also does)"""

    def visit_BinOp(self, node):
        self.generic_visit(node)
        if isinstance(node.op, ast.Mult):
            node.left, node.right = node.right, node.left
        return node


class Keywordize(ast.NodeTransformer):
    """f(a, b) -> f(x=a, y=b) for calls of package functions / classes by plain name (positional <-> keyword is behaviour-preserving)"""

    def __init__(self, pkg, module):
        self.pkg, self.module = pkg, module

    def visit_Call(self, node):
        self.generic_visit(node)
        if isinstance(node.func, ast.Name) and node.args and not any(isinstance(a, ast.Starred) for a in node.args):
            q = self.pkg.resolve_name(self.module, node.func.id)
            names = None
            if q in self.pkg.functions and self.pkg.functions[q].cls is None and not self.pkg.functions[q].vararg:
                names = self.pkg.functions[q].call_params
            elif q in self.pkg.classes:
                init = self.pkg.find_method(q, "__init__")
                names = init.call_params if init and not init.vararg else None
            if names and len(node.args) <= len(names) and not any(k.arg in names[: len(node.args)] for k in node.keywords if k.arg):
                node.keywords = [ast.keyword(arg=n, value=a) for n, a in zip(names, node.args)] + node.keywords
                node.args = []
        return node


class Hoist(ast.NodeTransformer):
    """y = f(g(a), h(b))  ->  t1 = g(a); t2 = h(b); y = f(t1, t2)   (left-to-right evaluation order is preserved)"""

    def __init__(self):
        self.n = 0

    def _hoist_stmt(self, stmt):
        val = getattr(stmt, "value", None)
        if not isinstance(stmt, (ast.Assign, ast.Return, ast.Expr)) or not isinstance(val, ast.Call):
            return [stmt]
        if any(isinstance(x, (ast.Yield, ast.YieldFrom, ast.Await)) for x in ast.walk(val)):
            return [stmt]
        if not isinstance(val.func, (ast.Name, ast.Attribute)) or any(isinstance(x, ast.Call) for x in ast.walk(val.func)):
            return [stmt]
        pre = []
        new_args = []
        for a in val.args:
            if isinstance(a, ast.Call) and not any(isinstance(x, (ast.Lambda, ast.ListComp, ast.GeneratorExp, ast.DictComp, ast.SetComp, ast.Starred)) for x in ast.walk(a)):
                self.n += 1
                nm = "hoisted_%d" % self.n
                pre.append(ast.Assign(targets=[ast.Name(id=nm, ctx=ast.Store())], value=a))
                new_args.append(ast.Name(id=nm, ctx=ast.Load()))
            else:
                # an argument we keep in place: later hoists would move calls across it; stop to preserve evaluation order
                new_args.append(a)
                if any(isinstance(x, ast.Call) for x in ast.walk(a)):
                    new_args.extend(val.args[len(new_args):])
                    break
        val.args = new_args
        return pre + [stmt]

    def _body(self, body):
        out = []
        for st in body:
            st = self.visit(st)
            out.extend(self._hoist_stmt(st))
        return out

    def generic_visit(self, node):
        for field in ("body", "orelse", "finalbody"):
            b = getattr(node, field, None)
            if isinstance(b, list) and b and isinstance(b[0], ast.stmt) and not isinstance(node, (ast.Module, ast.ClassDef)):
                setattr(node, field, self._body(b))
            elif isinstance(b, list):
                setattr(node, field, [self.visit(x) if isinstance(x, ast.AST) else x for x in b])
        for h in getattr(node, "handlers", []) or []:
            h.body = self._body(h.body)
        return node


NEG = {ast.Eq: ast.NotEq, ast.NotEq: ast.Eq, ast.Is: ast.IsNot, ast.IsNot: ast.Is, ast.In: ast.NotIn, ast.NotIn: ast.In}


class InvertIf(ast.NodeTransformer):
    """if t: A else: B  ->  if not t: B else: A  for every two-armed `if` (==/!=, is/is not, in/not in negated in place;
    ordering comparisons are wrapped in `not` because of NaN)"""

    def visit_If(self, node):
        self.generic_visit(node)
        if not node.orelse:
            return node
        t = node.test
        if isinstance(t, ast.Compare) and len(t.ops) == 1 and type(t.ops[0]) in NEG:
            nt = ast.Compare(left=t.left, ops=[NEG[type(t.ops[0])]()], comparators=t.comparators)
        elif isinstance(t, ast.UnaryOp) and isinstance(t.op, ast.Not):
            nt = t.operand
        else:
            nt = ast.UnaryOp(op=ast.Not(), operand=t)
        node.test, node.body, node.orelse = nt, node.orelse, node.body
        return node


MIR = {ast.Eq: ast.Eq, ast.NotEq: ast.NotEq, ast.Lt: ast.Gt, ast.Gt: ast.Lt, ast.LtE: ast.GtE, ast.GtE: ast.LtE, ast.Is: ast.Is, ast.IsNot: ast.IsNot}


class Yoda(ast.NodeTransformer):
    """a OP b -> b MIRROR(OP) a for every single comparison (==, !=, <, <=, >, >=, is, is not)"""

    def visit_Compare(self, node):
        self.generic_visit(node)
        if len(node.ops) == 1 and type(node.ops[0]) in MIR:
            return ast.Compare(left=node.comparators[0], ops=[MIR[type(node.ops[0])]()], comparators=[node.left])
        return node


class MethodToFunction(ast.NodeTransformer):
    """x.min() / x.max() / x.ravel() / x.reshape(s) -> np.min(x) / np.max(x) / np.ravel(x) / np.reshape(x, s) (all receivers in the
    package are ndarrays at these sites; only in modules that import numpy as np)"""

    def visit_Call(self, node):
        self.generic_visit(node)
        f = node.func
        if isinstance(f, ast.Attribute) and f.attr in ("min", "max", "ravel", "reshape") and not node.keywords and \
                not (isinstance(f.value, ast.Name) and f.value.id in ("np", "numpy")):
            if f.attr in ("min", "max", "ravel") and node.args:
                return node
            args = node.args
            if f.attr == "reshape" and len(args) > 1:
                args = [ast.Tuple(elts=list(args), ctx=ast.Load())]          # x.reshape(a, b) is np.reshape(x, (a, b))
            return ast.Call(func=ast.Attribute(value=ast.Name(id="np", ctx=ast.Load()), attr=f.attr, ctx=ast.Load()), args=[f.value] + args, keywords=[])
        return node


class ElseAfterReturn(ast.NodeTransformer):
    """if c: ...; return/raise   followed by S   ->   if c: ...; return/raise  else: S"""

    def _body(self, body):
        for i, st in enumerate(body):
            if isinstance(st, ast.If) and not st.orelse and st.body and isinstance(st.body[-1], (ast.Return, ast.Raise)) and body[i + 1:]:
                st.orelse = self._body(body[i + 1:])
                return body[:i + 1]
        return body

    def visit_FunctionDef(self, node):
        self.generic_visit(node)
        node.body = self._body(node.body)
        return node


class ReverseKeywords(ast.NodeTransformer):
    """f(a=1, b=2) -> f(b=2, a=1) (keyword order is irrelevant; **kwargs entries stay last)"""

    def visit_Call(self, node):
        self.generic_visit(node)
        named = [k for k in node.keywords if k.arg is not None]
        rest = [k for k in node.keywords if k.arg is None]
        node.keywords = list(reversed(named)) + rest
        return node


class FormatToFString(ast.NodeTransformer):
    """"...{}...".format(a, b) -> f"...{a}...{b}" for plain positional fields"""

    def visit_Call(self, node):
        self.generic_visit(node)
        f = node.func
        if isinstance(f, ast.Attribute) and f.attr == "format" and isinstance(f.value, ast.Constant) and isinstance(f.value.value, str) and not node.keywords \
                and not any(isinstance(a, ast.Starred) for a in node.args):
            parts = f.value.value.split("{}")
            if len(parts) == len(node.args) + 1 and "{" not in "".join(parts) and "}" not in "".join(parts):
                vals = []
                for i, txt in enumerate(parts):
                    if txt:
                        vals.append(ast.Constant(value=txt))
                    if i < len(node.args):
                        vals.append(ast.FormattedValue(value=node.args[i], conversion=-1, format_spec=None))
                return ast.JoinedStr(values=vals)
        return node


class UnpackToIndex(ast.NodeTransformer):
    """a, b = value  ->  _u = value; a = _u[0]; b = _u[1]   (value a name, subscript, attribute or call other than zip/map/iter/generators)"""

    def __init__(self):
        self.k = 0

    def _body(self, body):
        out = []
        for st in body:
            if isinstance(st, ast.Assign) and len(st.targets) == 1 and isinstance(st.targets[0], ast.Tuple) and all(isinstance(t, ast.Name) for t in st.targets[0].elts) \
                    and isinstance(st.value, (ast.Name, ast.Subscript, ast.Attribute, ast.Call)) and not \
                    (isinstance(st.value, ast.Call) and isinstance(st.value.func, ast.Name) and st.value.func.id in ("zip", "map", "iter", "reversed", "enumerate", "filter")):
                self.k += 1
                tmp = "_u%d" % self.k
                out.append(ast.Assign(targets=[ast.Name(id=tmp, ctx=ast.Store())], value=st.value))
                for i, t in enumerate(st.targets[0].elts):
                    out.append(ast.Assign(targets=[ast.Name(id=t.id, ctx=ast.Store())], value=ast.Subscript(value=ast.Name(id=tmp, ctx=ast.Load()), slice=ast.Constant(value=i), ctx=ast.Load())))
            else:
                out.append(st)
        return out

    def generic_visit(self, node):
        super().generic_visit(node)
        for f in ("body", "orelse", "finalbody"):
            b = getattr(node, f, None)
            if isinstance(b, list) and b and isinstance(b[0], ast.stmt):
                setattr(node, f, self._body(b))
        return node


class ExtractHelper(ast.NodeTransformer):
    """x = f(...)  ->  x = _xh_N(free variables)  with a new module-level  def _xh_N(free variables): return f(...)
    for every assignment of a call in a top-level function or method (undecorated, no closures involved)"""

    def __init__(self, module_names):
        self.k = 0
        self.new = []
        self.module_names = module_names

    def visit_ClassDef(self, node):
        node.body = [self.fn(n) if isinstance(n, ast.FunctionDef) else n for n in node.body]
        return node

    def visit_FunctionDef(self, node):
        return self.fn(node)

    def fn(self, node):
        if node.decorator_list or any(isinstance(x, (ast.FunctionDef, ast.Lambda, ast.Global, ast.Nonlocal, ast.Yield, ast.YieldFrom)) for b in node.body for x in ast.walk(b)):
            return node
        local = {a.arg for a in node.args.posonlyargs + node.args.args + node.args.kwonlyargs}
        if node.args.vararg:
            local.add(node.args.vararg.arg)
        if node.args.kwarg:
            local.add(node.args.kwarg.arg)
        for x in ast.walk(node):
            if isinstance(x, ast.Name) and isinstance(x.ctx, ast.Store):
                local.add(x.id)
        self.local = local
        self.generic_stmts(node)
        return node

    def generic_stmts(self, node):
        for f in ("body", "orelse", "finalbody"):
            b = getattr(node, f, None)
            if isinstance(b, list):
                for st in b:
                    if isinstance(st, ast.Assign) and isinstance(st.value, ast.Call) and len(st.targets) == 1 and isinstance(st.targets[0], (ast.Name, ast.Tuple)):
                        self.extract(st)
                    elif isinstance(st, (ast.If, ast.For, ast.While, ast.Try, ast.With)):
                        self.generic_stmts(st)
        for h in getattr(node, "handlers", []):
            self.generic_stmts(h)

    def extract(self, st):
        expr = st.value
        if any(isinstance(x, (ast.Starred, ast.NamedExpr, ast.Await)) for x in ast.walk(expr)) or any(k.arg is None for x in ast.walk(expr) if isinstance(x, ast.Call) for k in x.keywords):
            return
        bound = set()
        for x in ast.walk(expr):
            if isinstance(x, ast.comprehension):
                for y in ast.walk(x.target):
                    if isinstance(y, ast.Name):
                        bound.add(y.id)
        free = []
        for x in ast.walk(expr):
            if isinstance(x, ast.Name) and isinstance(x.ctx, ast.Load) and x.id in self.local and x.id not in bound and x.id not in free:
                free.append(x.id)
        if any(n in bound for n in free):
            return
        self.k += 1
        name = "_xh_%d" % self.k
        self.new.append(ast.FunctionDef(name=name, args=ast.arguments(posonlyargs=[], args=[ast.arg(arg=n) for n in free], kwonlyargs=[], kw_defaults=[], defaults=[]),
                                        body=[ast.Return(value=expr)], decorator_list=[], type_params=[]))
        st.value = ast.Call(func=ast.Name(id=name, ctx=ast.Load()), args=[ast.Name(id=n, ctx=ast.Load()) for n in free], keywords=[])


class ExtractMethod(ast.NodeTransformer):
    """def m(self, a, b=1): BODY   ->   def m(self, a, b=1): return self._m_impl(a, b)   +   def _m_impl(self, a, b): BODY
    for every undecorated, non-generator method with plain parameters"""

    def visit_ClassDef(self, node):
        out = []
        for n in node.body:
            out.append(n)
            if not isinstance(n, ast.FunctionDef) or n.decorator_list or n.args.vararg or n.args.kwarg or n.args.kwonlyargs or n.args.posonlyargs:
                continue
            if not n.args.args or n.args.args[0].arg != "self" or n.name.startswith("__") and n.name != "__init__":
                continue
            if any(isinstance(x, (ast.Yield, ast.YieldFrom, ast.Nonlocal, ast.Global)) for b in n.body for x in ast.walk(b)):
                continue
            if any(isinstance(x, ast.Call) and isinstance(x.func, ast.Name) and x.func.id == "super" for b in n.body for x in ast.walk(b)):
                continue
            names = [a.arg for a in n.args.args[1:]]
            impl = "_%s_impl" % n.name.strip("_")
            body = n.body
            doc = []
            if body and isinstance(body[0], ast.Expr) and isinstance(body[0].value, ast.Constant) and isinstance(body[0].value.value, str):
                doc, body = [body[0]], body[1:]
            if not body:
                continue
            call = ast.Call(func=ast.Attribute(value=ast.Name(id="self", ctx=ast.Load()), attr=impl, ctx=ast.Load()), args=[ast.Name(id=a, ctx=ast.Load()) for a in names], keywords=[])
            new = ast.FunctionDef(name=impl, args=ast.arguments(posonlyargs=[], args=[ast.arg(arg="self")] + [ast.arg(arg=a) for a in names], kwonlyargs=[], kw_defaults=[], defaults=[]),
                                  body=body, decorator_list=[], type_params=[])
            n.body = doc + [ast.Return(value=call)]
            out.append(new)
        node.body = out
        return node


class AugToAssign(ast.NodeTransformer):
    """x OP= y -> x = x OP y   (every augmented assignment of the package works on a local value or an element of a local container)"""

    def visit_AugAssign(self, node):
        load = ast.parse(ast.unparse(node.target), mode="eval").body
        return ast.Assign(targets=[node.target], value=ast.BinOp(left=load, op=node.op, right=node.value))


class IfToIfExp(ast.NodeTransformer):
    """if c: x = A  else: x = B   ->   x = A if c else B   (both arms one assignment to the same plain name)"""

    def visit_If(self, node):
        self.generic_visit(node)
        if len(node.body) == 1 and len(node.orelse) == 1 and all(isinstance(b, ast.Assign) and len(b.targets) == 1 and isinstance(b.targets[0], ast.Name) for b in (node.body[0], node.orelse[0])) \
                and node.body[0].targets[0].id == node.orelse[0].targets[0].id:
            return ast.Assign(targets=[ast.Name(id=node.body[0].targets[0].id, ctx=ast.Store())], value=ast.IfExp(test=node.test, body=node.body[0].value, orelse=node.orelse[0].value))
        return node


class ExplicitDefaults(ast.NodeTransformer):
    """library calls get their documented default keywords spelled out (np.meshgrid(..., indexing="xy"), .groupby(..., sort=True), ...)"""

    def visit_Call(self, node):
        self.generic_visit(node)
        from .contracts import LIB_DEFAULTS
        f = node.func
        if isinstance(f, ast.Attribute) and isinstance(f.value, ast.Name) and f.value.id == "np":
            key = "numpy." + f.attr
        elif isinstance(f, ast.Attribute) and isinstance(f.value, ast.Attribute) and isinstance(f.value.value, ast.Name) and f.value.value.id == "np":
            key = "numpy.%s.%s" % (f.value.attr, f.attr)
        elif isinstance(f, ast.Attribute):
            key = "." + f.attr
        else:
            return node
        have = {k.arg for k in node.keywords}
        npos = len(node.args)
        for (c, nm), d in LIB_DEFAULTS.items():
            if c == key and nm not in have and not (key.startswith("numpy.") and npos >= 3) and not any(k.arg is None for k in node.keywords) and nm not in ("axis", "axes", "rtol", "atol", "k", "p"):
                node.keywords.append(ast.keyword(arg=nm, value=ast.Constant(value=d)))
        return node



def _neg(t):
    """the negation of a test, written the way a person would: ==/is/in negated in place, `not x` unwrapped, anything else wrapped"""
    if isinstance(t, ast.Compare) and len(t.ops) == 1 and type(t.ops[0]) in NEG:
        return ast.Compare(left=t.left, ops=[NEG[type(t.ops[0])]()], comparators=t.comparators)
    if isinstance(t, ast.UnaryOp) and isinstance(t.op, ast.Not):
        return t.operand
    return ast.UnaryOp(op=ast.Not(), operand=t)


class DeMorgan(ast.NodeTransformer):
    """a and b -> not (not a or not b);  a or b -> not (not a and not b), for the tests of if / while / conditional expressions / assert
    (a test is only used for its truth, so returning a bool instead of an operand is behaviour-preserving there)"""

    def _t(self, t):
        if isinstance(t, ast.BoolOp):
            other = ast.Or() if isinstance(t.op, ast.And) else ast.And()
            return ast.UnaryOp(op=ast.Not(), operand=ast.BoolOp(op=other, values=[_neg(self._t(v)) for v in t.values]))
        return t

    def visit_If(self, node):
        self.generic_visit(node)
        node.test = self._t(node.test)
        return node

    visit_While = visit_If
    visit_IfExp = visit_If
    visit_Assert = visit_If


class NestAnd(ast.NodeTransformer):
    """if a and b: BODY  (no else)  ->  if a: if b: BODY"""

    def visit_If(self, node):
        self.generic_visit(node)
        if not node.orelse and isinstance(node.test, ast.BoolOp) and isinstance(node.test.op, ast.And):
            inner = node.body
            for v in reversed(node.test.values):
                inner = [ast.If(test=v, body=inner, orelse=[])]
            return inner[0]
        return node


class MergeNested(ast.NodeTransformer):
    """if a: if b: BODY  (no elses, nothing else in the outer body)  ->  if a and b: BODY"""

    def visit_If(self, node):
        self.generic_visit(node)
        if not node.orelse and len(node.body) == 1 and isinstance(node.body[0], ast.If) and not node.body[0].orelse:
            inner = node.body[0]
            return ast.If(test=ast.BoolOp(op=ast.And(), values=[node.test, inner.test]), body=inner.body, orelse=[])
        return node


class SplitOr(ast.NodeTransformer):
    """if a or b: raise E  (no else)  ->  if a: raise E  followed by  if b: raise E   (the tests of the package have no side effects)"""

    def visit_If(self, node):
        self.generic_visit(node)
        if not node.orelse and isinstance(node.test, ast.BoolOp) and isinstance(node.test.op, ast.Or) and len(node.body) == 1 and isinstance(node.body[0], ast.Raise):
            return [ast.If(test=v, body=[ast.parse(ast.unparse(node.body[0])).body[0]], orelse=[]) for v in node.test.values]
        return node


class FlagGuard(ast.NodeTransformer):
    """if T: raise E(msg)  ->  _bad_N = T; if _bad_N: _msg_N = msg; raise E(_msg_N)   (first-level ifs of a body; T evaluated once as before)"""

    def __init__(self):
        self.n = 0

    def _body(self, body):
        out = []
        for st in body:
            if isinstance(st, ast.If) and not st.orelse and len(st.body) == 1 and isinstance(st.body[0], ast.Raise) and st.body[0].exc is not None:
                self.n += 1
                flag = "_bad_%d" % self.n
                out.append(ast.Assign(targets=[ast.Name(id=flag, ctx=ast.Store())], value=st.test))
                r = st.body[0]
                body2 = [r]
                if isinstance(r.exc, ast.Call) and len(r.exc.args) == 1 and not r.exc.keywords:
                    m = "_msg_%d" % self.n
                    body2 = [ast.Assign(targets=[ast.Name(id=m, ctx=ast.Store())], value=r.exc.args[0]),
                             ast.Raise(exc=ast.Call(func=r.exc.func, args=[ast.Name(id=m, ctx=ast.Load())], keywords=[]), cause=r.cause)]
                out.append(ast.If(test=ast.Name(id=flag, ctx=ast.Load()), body=body2, orelse=[]))
            else:
                out.append(st)
        return out

    def generic_visit(self, node):
        super().generic_visit(node)
        for f in ("body", "orelse", "finalbody"):
            b = getattr(node, f, None)
            if isinstance(b, list) and b and isinstance(b[0], ast.stmt):
                setattr(node, f, self._body(b))
        return node


class AnyAllDual(ast.NodeTransformer):
    """any(p for x in s) -> not all(not p for x in s);  all(p for x in s) -> not any(not p for x in s)"""

    def visit_Call(self, node):
        self.generic_visit(node)
        if isinstance(node.func, ast.Name) and node.func.id in ("any", "all") and len(node.args) == 1 and not node.keywords and isinstance(node.args[0], (ast.GeneratorExp, ast.ListComp)):
            g = node.args[0]
            dual = "all" if node.func.id == "any" else "any"
            g2 = type(g)(elt=_neg(g.elt), generators=g.generators)
            return ast.UnaryOp(op=ast.Not(), operand=ast.Call(func=ast.Name(id=dual, ctx=ast.Load()), args=[g2], keywords=[]))
        return node


class _RenameName(ast.NodeTransformer):
    def __init__(self, mapping):
        self.mapping = mapping

    def visit_Name(self, node):
        if node.id in self.mapping:
            node.id = self.mapping[node.id]
        return node


class CompToLoop(ast.NodeTransformer):
    """x = [E for t in S if c]  ->  x = []; for t' in S: if c: x.append(E)      (one generator; plain-name target; the loop variables are
    renamed so that nothing of the enclosing scope is overwritten).  x = {K: V for ...} and x = tuple(E for ...) likewise."""

    def __init__(self):
        self.n = 0

    def _body(self, body):
        out = []
        for st in body:
            done = False
            if isinstance(st, ast.Assign) and len(st.targets) == 1 and isinstance(st.targets[0], ast.Name):
                v, wrap = st.value, None
                if isinstance(v, ast.Call) and isinstance(v.func, ast.Name) and v.func.id in ("tuple", "list") and len(v.args) == 1 and not v.keywords and isinstance(v.args[0], (ast.GeneratorExp, ast.ListComp)):
                    wrap, v = v.func.id, v.args[0]
                name = st.targets[0].id
                if isinstance(v, (ast.ListComp, ast.DictComp)) or (wrap and isinstance(v, ast.GeneratorExp)):
                    if len(v.generators) == 1 and not v.generators[0].is_async and not any(isinstance(x, ast.Name) and x.id == name for x in ast.walk(v)) \
                            and not any(isinstance(x, (ast.Lambda, ast.ListComp, ast.GeneratorExp, ast.DictComp, ast.SetComp)) for c in ast.iter_child_nodes(v) for x in ast.walk(c)):
                        g = v.generators[0]
                        self.n += 1
                        mapping = {x.id: "_cl%d_%s" % (self.n, x.id) for x in ast.walk(g.target) if isinstance(x, ast.Name)}
                        ren = lambda n: _RenameName(mapping).visit(ast.parse(ast.unparse(n), mode="eval").body)
                        tgt = ast.parse(ast.unparse(ren(g.target))).body[0].value
                        for x in ast.walk(tgt):
                            if isinstance(x, (ast.Name, ast.Tuple, ast.List)):
                                x.ctx = ast.Store()
                        acc = "_cl%d_acc" % self.n if wrap == "tuple" else name
                        if isinstance(v, ast.DictComp):
                            init = ast.Dict(keys=[], values=[])
                            add = ast.Assign(targets=[ast.Subscript(value=ast.Name(id=acc, ctx=ast.Load()), slice=ren(v.key), ctx=ast.Store())], value=ren(v.value))
                        else:
                            init = ast.List(elts=[], ctx=ast.Load())
                            add = ast.Expr(value=ast.Call(func=ast.Attribute(value=ast.Name(id=acc, ctx=ast.Load()), attr="append", ctx=ast.Load()), args=[ren(v.elt)], keywords=[]))
                        inner = [add]
                        for c in reversed(g.ifs):
                            inner = [ast.If(test=ren(c), body=inner, orelse=[])]
                        out.append(ast.Assign(targets=[ast.Name(id=acc, ctx=ast.Store())], value=init))
                        out.append(ast.For(target=tgt, iter=g.iter, body=inner, orelse=[]))
                        if wrap == "tuple":
                            out.append(ast.Assign(targets=[ast.Name(id=name, ctx=ast.Store())], value=ast.Call(func=ast.Name(id="tuple", ctx=ast.Load()), args=[ast.Name(id=acc, ctx=ast.Load())], keywords=[])))
                        done = True
            if not done:
                out.append(st)
        return out

    def generic_visit(self, node):
        super().generic_visit(node)
        if isinstance(node, ast.ClassDef):
            return node
        for f in ("body", "orelse", "finalbody"):
            b = getattr(node, f, None)
            if isinstance(b, list) and b and isinstance(b[0], ast.stmt):
                setattr(node, f, self._body(b))
        return node


class ReturnTemp(ast.NodeTransformer):
    """return EXPR -> _ret = EXPR; return _ret   (not inside lambdas; generators have no valued return in the package)"""

    def generic_visit(self, node):
        super().generic_visit(node)
        for f in ("body", "orelse", "finalbody"):
            b = getattr(node, f, None)
            if isinstance(b, list) and b and isinstance(b[0], ast.stmt):
                out = []
                for st in b:
                    if isinstance(st, ast.Return) and st.value is not None and not isinstance(st.value, (ast.Name, ast.Constant)):
                        out.append(ast.Assign(targets=[ast.Name(id="_ret", ctx=ast.Store())], value=st.value))
                        out.append(ast.Return(value=ast.Name(id="_ret", ctx=ast.Load())))
                    else:
                        out.append(st)
                setattr(node, f, out)
        return node


class IfExpToIf(ast.NodeTransformer):
    """x = A if c else B  ->  if c: x = A  else: x = B   (plain-name target)"""

    def visit_Assign(self, node):
        if len(node.targets) == 1 and isinstance(node.targets[0], ast.Name) and isinstance(node.value, ast.IfExp):
            nm = node.targets[0].id
            return ast.If(test=node.value.test, body=[ast.Assign(targets=[ast.Name(id=nm, ctx=ast.Store())], value=node.value.body)],
                          orelse=[ast.Assign(targets=[ast.Name(id=nm, ctx=ast.Store())], value=node.value.orelse)])
        return node


class KwargsDict(ast.NodeTransformer):
    """f(a, k1=v1, k2=v2) -> f(a, **dict(k1=v1, k2=v2)) for calls with two or more plain keywords (evaluation order is unchanged)"""

    def visit_Call(self, node):
        self.generic_visit(node)
        if len(node.keywords) >= 2 and all(k.arg is not None for k in node.keywords) and not (isinstance(node.func, ast.Name) and node.func.id == "dict"):
            node.keywords = [ast.keyword(arg=None, value=ast.Call(func=ast.Name(id="dict", ctx=ast.Load()), args=[], keywords=node.keywords))]
        return node


class StarArgs(ast.NodeTransformer):
    """f(a, b, ...) -> f(*(a, b, ...)) for calls with two or more plain positional arguments and no keywords... kept: keywords stay"""

    def visit_Call(self, node):
        self.generic_visit(node)
        if len(node.args) >= 2 and not any(isinstance(a, ast.Starred) for a in node.args) and not (isinstance(node.func, ast.Name) and node.func.id in ("super", "isinstance", "hasattr", "getattr", "setattr", "range", "zip", "print")):
            node.args = [ast.Starred(value=ast.Tuple(elts=node.args, ctx=ast.Load()), ctx=ast.Load())]
        return node


class AttrToFunc(ast.NodeTransformer):
    """x.shape / x.ndim / x.size -> np.shape(x) / np.ndim(x) / np.size(x) for every receiver but `self` (constructor parameters of that
    name) and modules (only in files that import numpy as np; loads only)"""

    def visit_Attribute(self, node):
        self.generic_visit(node)
        if node.attr in ("shape", "ndim", "size") and isinstance(node.ctx, ast.Load) and not (isinstance(node.value, ast.Name) and node.value.id in ("self", "np", "numpy", "xr", "pd")):
            return ast.Call(func=ast.Attribute(value=ast.Name(id="np", ctx=ast.Load()), attr=node.attr, ctx=ast.Load()), args=[node.value], keywords=[])
        return node


class TransposeToT(ast.NodeTransformer):
    """np.transpose(x) -> np.asarray(x).T  (one argument; np.transpose converts its argument in the same way)"""

    def visit_Call(self, node):
        self.generic_visit(node)
        f = node.func
        if isinstance(f, ast.Attribute) and f.attr == "transpose" and isinstance(f.value, ast.Name) and f.value.id == "np" and len(node.args) == 1 and not node.keywords:
            conv = ast.Call(func=ast.Attribute(value=ast.Name(id="np", ctx=ast.Load()), attr="asarray", ctx=ast.Load()), args=node.args, keywords=[])
            return ast.Attribute(value=conv, attr="T", ctx=ast.Load())
        return node


class SplitChain(ast.NodeTransformer):
    """a < b < c -> a < b and b < c   when b is a name, attribute, subscript of names or constant (evaluating it twice changes nothing)"""

    def visit_Compare(self, node):
        self.generic_visit(node)
        if len(node.ops) >= 2 and all(isinstance(c, (ast.Name, ast.Constant, ast.Attribute, ast.Subscript)) for c in node.comparators[:-1]):
            parts, left = [], node.left
            for op, c in zip(node.ops, node.comparators):
                parts.append(ast.Compare(left=ast.parse(ast.unparse(left), mode="eval").body, ops=[op], comparators=[c]))
                left = c
            return ast.BoolOp(op=ast.And(), values=parts)
        return node


EXTRA = {"demorgan": DeMorgan, "nest-and": NestAnd, "merge-nested": MergeNested, "split-or": SplitOr, "flag-guard": FlagGuard, "any-all-dual": AnyAllDual,
         "comp-to-loop": CompToLoop, "return-temp": ReturnTemp, "ifexp-to-if": IfExpToIf, "kwargs-dict": KwargsDict, "star-args": StarArgs, "split-chain": SplitChain, "attr-to-func": AttrToFunc, "transpose-to-T": TransposeToT}

COMPOSED = ("keywordize", "rename", "commute", "invert-if", "yoda", "method-to-function", "else-after-return", "reverse-keywords", "fstring", "unpack-to-index",
            "demorgan", "split-or", "flag-guard", "any-all-dual", "comp-to-loop", "return-temp", "kwargs-dict", "split-chain")


def transformed(kind, root="/repo/verde", texts=None):
    """`kind` is one transformation, or "composed" = all of COMPOSED applied one after the other to every file"""
    root = pathlib.Path(root)
    overlay = {}
    kinds = COMPOSED if kind == "composed" else (kind,)
    if "keywordize" in kinds:
        from .loader import Package
        pkg = Package(root, overlay=texts)
    for p in root.rglob("*.py"):
        rel = p.relative_to(root)
        if "tests" in rel.parts:
            continue
        tree = ast.parse((texts or {}).get(str(rel)) or p.read_text())
        for k in kinds:
            if k == "rename":
                tree = Renamer().visit(tree)
            if k == "commute":
                tree = Commute().visit(tree)
            if k == "invert-if":
                tree = InvertIf().visit(tree)
            if k == "yoda":
                tree = Yoda().visit(tree)
            if k == "method-to-function" and any(isinstance(n, ast.Import) and any(a.name == "numpy" and a.asname == "np" for a in n.names) for n in tree.body):
                tree = MethodToFunction().visit(tree)
            if k == "else-after-return":
                tree = ElseAfterReturn().visit(tree)
            if k == "reverse-keywords":
                tree = ReverseKeywords().visit(tree)
            if k == "fstring":
                tree = FormatToFString().visit(tree)
            if k == "unpack-to-index":
                tree = UnpackToIndex().visit(tree)
            if k == "hoist":
                tree = Hoist().visit(tree)
            if k == "extract-method":
                tree = ExtractMethod().visit(tree)
            if k == "aug-to-assign":
                tree = AugToAssign().visit(tree)
            if k == "if-to-ifexp":
                tree = IfToIfExp().visit(tree)
            if k == "explicit-defaults":
                tree = ExplicitDefaults().visit(tree)
            if k in EXTRA and not (k == "attr-to-func" and not any(isinstance(n, ast.Import) and any(a.name == "numpy" and a.asname == "np" for a in n.names) for n in tree.body)):
                tree = EXTRA[k]().visit(tree)
            if k == "extract-helper":
                xh = ExtractHelper(set())
                tree = xh.visit(tree)
                tree.body.extend(xh.new)
            if k == "keywordize":
                parts = list(rel.with_suffix("").parts)
                if parts[-1] == "__init__":
                    parts = parts[:-1]
                tree = Keywordize(pkg, pkg.modules[".".join(["verde"] + parts)]).visit(tree)
            tree = ast.parse(ast.unparse(ast.fix_missing_locations(tree)))
        overlay[str(rel)] = ast.unparse(tree)
    return overlay


