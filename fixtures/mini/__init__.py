"""Tiny package used by the analyser's own unit tests (never imported, only parsed)."""
from .core import good_grid
