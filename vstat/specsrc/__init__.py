"""Documented formulas, transcribed once as functions in the Python subset the analyser reads.
They are parsed by the same front end as verde and NEVER executed or imported by a check."""
