"""Regenerate MANIFEST.json from the table below (run from /verif with /venv/bin/python tools/mkmanifest.py)."""
import json
import pathlib

VERIF = pathlib.Path(__file__).resolve().parent.parent
props = [json.loads(l) for l in (VERIF / "properties.jsonl").read_text().splitlines() if l.strip()]

LEVEL = ("static analysis (category other): every listed obligation - a dataflow, control-flow, role/axis-typing, effect or algebraic "
         "normal-form fact - is established on every enumerated path of the current source; decides the structural clauses named in "
         "DESIGN.md section 4 for this property, not the numerical behaviour")
NOTE = ("terms are compared in canonical form (argument spelling, branch polarity, comparison orientation, method/function spelling, helpers outside the function inventory looked through - DESIGN 8.6/8.7); "
        "trusted base: CPython ast front end, the vstat analyser (unit tests + seeded-fault corpus in setup_cmd/thorough tier), the library model "
        "(vstat/contracts.py) and the formula transcriptions (vstat/specsrc); value-level clauses listed as 'declined' in DESIGN.md 4 are NOT decided")

CLAIMED = {
    "C01": ("dataflow of force coordinates / design matrix / data / damping into the solver, configuration + normal form of the scaling undo, fit/predict shared state, SciPy point order, Trend monomial pairing",
            "declined: the tolerance/conditioning statement and every numeric equality (solver accuracy)"),
    "C02": ("end-to-end dataflow of weights into sample_weight, regressor/scaler configuration, stacking-order agreement, check_fit_input return contract",
            "declined: optimality itself, weight-scale invariance, the zero-weight limit (scikit-learn's semantics)"),
    "C04": ("package-wide flatten-order scan with positive control, ravel provenance of kernel arguments, output-shape plumbing, dtype provenance of every allocation, sibling agreement predict/jacobian, check_fit_input return contract (every weight handed out as a bare C-raveled ndarray), generic conversion/layout rules RT/RV/RF/RB",
            "declined: permutation invariance, linearity in the data, round-off (relations between pairs of executions); for pandas containers only the necessary condition 'inputs pass np.ravel / n_1d_arrays before they are indexed' is decided"),
    "C17": ("zone abstraction: exhaustive abstract interpretation of the modular longitude arithmetic over the finite partition of admissible (W, E) classes; dominance and exact disjunct coverage of the range checks; normal-form (or cell-by-cell) agreement of bound and longitude transforms",
            "declined: point-in-region equivalence enumerated over (W, E, longitude) classes; np.allclose read as exact equality; five seam classes are KNOWN FINDINGS (known_findings.json)"),
    # id: (technique, declined / extra note)
    "C03": ("rational normal forms of every kernel path vs transcribed docstring formulas; interval definedness; loop/block structure checks",
            "declined: SciPy's own results"),
    "C05": ("role/axis type checking (E/N units of measure) + projection-label dataflow over grid/scatter/profile paths",
            "declined: the predicted values"),
    "C06": ("loop-carried dataflow (prev/mu terms) through Chain.fit, guard/accumulation structure of Chain.predict, zip alignment in Vector, residual form and return identity in filter",
            "declined: 'prediction + last residual = data' as a numeric identity"),
    "C07": ("rational normal forms of spacing_to_size/shape_to_spacing/pixel shift/profile_coordinates matched path-by-path with transcribed docstring formulas; role/axis typing of grid_coordinates",
            "declined: that linspace hits the bounds, round() at exact .5 ties, floating-point effects of huge offsets"),
    "C08": ("forwarding/literal checks of the pixel-registered centre grid, role agreement of k-d tree and query, tuple-position and flatten-order checks",
            "declined: nearest centre = containing block (geometry of rectangular Voronoi cells), points outside the region"),
    "C09": ("reader/writer key-format agreement, loop-index alignment of weights/values/components, group order vs sorted unique labels, drop_coords slicing, return arity",
            "declined: the numeric value of the reductions; pandas groupby/index semantics are a library model"),
    "C10": ("guard-polarity analysis of the three aggregation paths, reader/writer agreement of columns and tuple positions, normal forms of the weight formulas, store analysis, effect analysis",
            "declined: ddof of pandas' variance, the (0,1] range and 'some weight equals 1' (arithmetic consequences)"),
    "C11": ("provenance dataflow of every yielded test set (pre-image of block ids under the block labels), delegation of the complement to scikit-learn, fold provenance, forwarding, argmin, RNG who-may-call",
            "declined: balance quality and exact fold sizes; non-emptiness is decided through its structural necessary condition (C11.R7: the guards that keep every np.split point strictly inside 1..n-1 - the missing guard was defect F8, repaired)"),
    "C12": ("TRAIN/TEST provenance labels at fit/score sinks, clone-per-split and single-use checks, guard polarity of metric selection, loop-index alignment in the scorer, argmax/refit in SplineCV, "
            "forwarding completeness, estimator-protocol who-may-call, effect analysis of dispatched tasks", "declined: metric values"),
    "C13": ("role/axis typing of bounds and comparisons, normal forms of get_region/pad_region, predicate-tree analysis of inside (incl. narrowing-conversion scan of the operands), out= buffer liveness, validation reachability, bit-exact stop of spacing_to_size",
            "declined: containment of generated nodes (semantics of uniform/linspace)"),
    "C14": ("normal form of the shrunk centre region, literal/operator checks of the closed square ball query, index-shape and flatten-order checks, rejection guards",
            "declined: coverage of the region, nesting by size (monotonicity of ball queries)"),
    "C15": ("literal/operator/tuple-position checks on every k-d tree query, cross-method axis-order agreement of tree and query, projection-label agreement",
            "declined: agreement with brute-force distances (SciPy's k-d tree)"),
    "C16": ("dataflow checks of the shared normalisation, hull-on-data/query-on-grid, the != -1 test, projection of both point sets, project_grid pipeline wiring",
            "declined: hull geometry, NaN/finite pattern, value preservation, range under antialiasing"),
    "C18": ("role/axis typing of every (dimension name, coordinate array) pairing, mesh slicing direction, meshgrid operand order and reversal; name-count rejection; flatten order; run-by-run comparison of name and column sequences (sorted against declaration order, reversed runs)",
            "declined: nothing structural; values are moved by numpy/xarray/pandas"),
    "C19": ("open/close pairing over all paths incl. the exceptional one, readline() call-instance ordinals for header order, role typing of shape/region, dominance of the integrity check, tokenisation of the header records (white-space split; a regular-expression tokeniser is folded against witness spellings)",
            "declined: numpy's parsing of whitespace/number formats, allclose tolerance, wrapped-row layouts (value-level)"),
    "C20": ("alias/effect analysis with call-graph summaries; typestate (event order) of fit/predict; constructor-contract and who-may-call checks; module-level state scan (incl. objects reached from module-level containers); clone-per-split of the caller's estimator",
            "declined: bit-identical repetition, behaviour after clone (follow from the checked clauses plus deterministic libraries)"),
}
PENDING_REASON = "check not built yet (framework under construction; see DESIGN.md section 7 build order)"


def main():
    checks, na = [], []
    for p in props:
        pid = p["id"]
        if pid in CLAIMED and (VERIF / "vstat" / "rules" / (pid.lower() + ".py")).exists():
            tech, decl = CLAIMED[pid]
            checks.append({
                "property_id": pid,
                "quick_cmd": "/venv/bin/python -m vstat check %s --tier quick" % pid,
                "thorough_cmd": "/venv/bin/python -m vstat check %s --tier thorough" % pid,
                "evidence_file": "/verif/evidence/%s.json" % pid,
                "replay_cmd_template": "/venv/bin/python -m vstat replay {path}",
                "engine": "vstat",
                "level_claimed": {"category": "other", "text": LEVEL, "design_ref": "DESIGN.md section 4 (%s), sections 2-3" % pid},
                "level_note": NOTE + "; " + decl,
                "technique": "static analysis: " + tech,
            })
        else:
            na.append({"property_id": pid, "reason": PENDING_REASON})
    m = {
        "version": 1,
        "setup_cmd": "/venv/bin/python -m unittest discover -s tests -q",
        "hooks": {"guard": "VERDE_VERIF", "enable": "none needed: the checks read /repo's source text; no instrumentation exists",
                  "baseline_off_cmd": "cd /repo && /venv/bin/python -m pytest -q -p no:cacheprovider --timeout=900 --continue-on-collection-errors",
                  "source_commits": [], "add_only": True},
        "engines": [{"name": "vstat", "path": "/verif/vstat", "serves_properties": [c["property_id"] for c in checks],
                     "kind_free_text": "purpose-built static analyser on the standard library ast module: per-path term builder, role/axis types, "
                                       "alias/effect summaries, event-order (typestate) queries, rational normal forms, interval definedness, zone abstraction"}],
        "checks": checks,
        "notes": "Static-analysis family only. Exit 0 = all obligations discharged; 1 = VIOLATION (positively established contradiction); "
                 "2 = ANALYSIS-UNDECIDED/ANALYSIS-ERROR (unmodelled construct, vanished anchor) - never a silent pass. Genuine defects found "
                 "on the pinned tree were repaired by fix: commits in /repo or are listed in known_findings.json. Self-validation (thorough tier, "
                 "tools/): 570 corpus variants, 32 whole-package behaviour-preserving rewrite sweeps, 235 independently written breaking changes "
                 "(seeded/: 187 reported as VIOLATION, 48 recorded undecided with the reason, none silent) and 120 independently written "
                 "behaviour-preserving rewrites (neutral/: none reported) - DESIGN.md 8.9-8.13.",
        "not_applicable": na,
    }
    (VERIF / "MANIFEST.json").write_text(json.dumps(m, indent=1))
    print("claimed", len(checks), "pending", len(na))


if __name__ == "__main__":
    main()
