"""Seeded faults and neutral edits for C11."""
M, B = "model_selection.py", "base/base_classes.py"
SS = "shuffle = ShuffleSplit(n_splits=self.n_splits * self.balancing, test_size=self.test_size, train_size=self.train_size, random_state=self.random_state).split(block_ids)"
KF_TAIL = "            test_points = np.where(np.isin(labels, block_ids[test_blocks]))[0]\n            yield test_points"
ENTRIES = [
    dict(name="BlockKFold: folds are the train parts", rule="R3", file=M, old="        else:\n            folds = [i for _, i in KFold(n_splits=self.n_splits).split(block_ids)]\n        for test_blocks in folds:",
         new="        else:\n            folds = [i for i, _ in KFold(n_splits=self.n_splits).split(block_ids)]\n        for test_blocks in folds:"),
    dict(name="BlockKFold: isin(labels, positions)", rule="R1", file=M, old=KF_TAIL, new=KF_TAIL.replace("block_ids[test_blocks]", "test_blocks")),
    dict(name="BlockKFold: complement yielded (invert=True)", rule="R1", file=M, old=KF_TAIL, new=KF_TAIL.replace("np.isin(labels, block_ids[test_blocks])", "np.isin(labels, block_ids[test_blocks], invert=True)")),
    dict(name="BlockKFold: point-level split ignoring blocks", rule="R1", file=M, old=KF_TAIL, new="            yield np.asarray(test_blocks)"),
    dict(name="BlockKFold: labels from (X[:,1], X[:,0])", rule="R1", file=M, old="        labels = block_split(coordinates=(X[:, 0], X[:, 1]), spacing=self.spacing, shape=self.shape, region=None, adjust='spacing')[1]\n        block_ids = np.unique(labels)\n        if self.n_splits > block_ids.size:",
         new="        labels = block_split(coordinates=(X[:, 1], X[:, 0]), spacing=self.spacing, shape=self.shape, region=None, adjust='spacing')[1]\n        block_ids = np.unique(labels)\n        if self.n_splits > block_ids.size:"),
    dict(name="BlockKFold: partition into n_splits - 1 parts", rule="R3", file=M, old="split_points = partition_by_sum(block_sizes, parts=self.n_splits)", new="split_points = partition_by_sum(block_sizes, parts=self.n_splits - 1)", expect="UNDECIDED"),
    dict(name="BlockKFold: sizes of the wrong blocks", rule="R3", file=M, old="block_sizes = [np.isin(labels, i).sum() for i in block_ids]", new="block_sizes = [np.isin(labels, i).sum() for i in np.sort(block_ids)]"),
    dict(name="BlockKFold: fallback KFold with 5 splits", rule="R3", file=M, old="                folds = [i for _, i in KFold(n_splits=self.n_splits).split(block_ids)]\n        else:", new="                folds = [i for _, i in KFold(n_splits=5).split(block_ids)]\n        else:"),
    dict(name="BlockKFold: np.random.shuffle", rule="R6", file=M, old="check_random_state(self.random_state).shuffle(block_ids)", new="np.random.shuffle(block_ids)"),
    dict(name="BlockKFold: shuffle ignores random_state", rule="R6", file=M, old="check_random_state(self.random_state).shuffle(block_ids)", new="check_random_state(None).shuffle(block_ids)"),
    dict(name="BlockShuffleSplit: yields the train points", rule="R1", file=M, old="                test_sets.append(test_points)", new="                test_sets.append(train_points)"),
    dict(name="BlockShuffleSplit: argmax", rule="R5", file=M, old="best = np.argmin(balance)", new="best = np.argmax(balance)"),
    dict(name="BlockShuffleSplit: random_state not forwarded", rule="R4", file=M, old=SS, new=SS.replace(", random_state=self.random_state", "")),
    dict(name="BlockShuffleSplit: test_size from train_size", rule="R4", file=M, old=SS, new=SS.replace("test_size=self.test_size", "test_size=self.train_size")),
    dict(name="BlockShuffleSplit: only n_splits candidates", rule="R4", file=M, old=SS, new=SS.replace("n_splits=self.n_splits * self.balancing", "n_splits=self.n_splits")),
    dict(name="BlockShuffleSplit: balance without abs", rule="R5", file=M, old="balance.append(abs(train_points.size / test_points.size - train_blocks.size / test_blocks.size))", new="balance.append(train_points.size / test_points.size - train_blocks.size / test_blocks.size)"),
    dict(name="BlockShuffleSplit: labels are the centres", rule="R1", file=M, old="adjust='spacing')[1]\n        block_ids = np.unique(labels)\n        shuffle =", new="adjust='spacing')[0]\n        block_ids = np.unique(labels)\n        shuffle ="),
    dict(name="BlockShuffleSplit: shape ignored", rule="R1", file=M, old="spacing=self.spacing, shape=self.shape, region=None, adjust='spacing')[1]\n        block_ids = np.unique(labels)\n        shuffle =", new="spacing=self.spacing, shape=None, region=None, adjust='spacing')[1]\n        block_ids = np.unique(labels)\n        shuffle ="),
    dict(name="split: train/test swapped", rule="R2", file=B, old="            yield (train, test)", new="            yield (test, train)"),
    dict(name="split: column check dropped", rule="R2", file=B, old="        if X.shape[1] != 2:\n            raise ValueError('X must have exactly 2 columns ({} given).'.format(X.shape[1]))\n", new=""),
    dict(name="train_test_split: kwargs dropped for blocks", rule="R6", file=M, old="BlockShuffleSplit(n_splits=1, spacing=spacing, shape=shape, **kwargs)", new="BlockShuffleSplit(n_splits=1, spacing=spacing, shape=shape)"),
    dict(name="neutral: isin via temporaries", expect="DISCHARGED", file=M, old=KF_TAIL, new="            chosen = block_ids[test_blocks]\n            member = np.isin(labels, chosen)\n            test_points = np.where(member)[0]\n            yield test_points"),
    dict(name="neutral: balance with operands swapped", expect="DISCHARGED", file=M, old="balance.append(abs(train_points.size / test_points.size - train_blocks.size / test_blocks.size))", new="balance.append(abs(train_blocks.size / test_blocks.size - train_points.size / test_points.size))"),
]
