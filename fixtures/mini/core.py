"""unit-test inputs for the analyser engines"""
import numpy as np


def good_grid(region, shape):
    east = np.linspace(region[0], region[1], shape[1])
    north = np.linspace(region[2], region[3], shape[0])
    return tuple(np.meshgrid(east, north))


def bad_grid(region, shape):
    east = np.linspace(region[0], region[1], shape[0])
    north = np.linspace(region[2], region[3], shape[1])
    return tuple(np.meshgrid(north, east))


def threaded(steps, a, b):
    args = (a, b)
    for step in steps:
        args = step.run(*args)
    return args


def unthreaded(steps, a, b):
    args = (a, b)
    for step in steps:
        args = step.run(a, b)
    return args


def buffers(x):
    tmp = tuple(np.empty_like(x) for i in range(3))
    return tmp


def writes_param(values):
    out = np.asarray(values)
    out[0] = 1
    return out


def writes_copy(values):
    out = np.array(values)
    out[0] = 1
    return out


def passes_on(values):
    return writes_param(np.ravel(values))


def guarded(path):
    handle = open(path)
    try:
        data = handle.read()
    finally:
        handle.close()
    return data


def leaky(path):
    handle = open(path)
    header = handle.readline()
    try:
        data = handle.read()
    finally:
        handle.close()
    return header, data


def kernel_a(e, n, m):
    r = np.sqrt(e**2 + n**2) + m
    return r**2 * (np.log(r) - 1)


def kernel_b(e, n, m):
    r = np.hypot(e, n) + m
    return np.log(r) * r * r - np.square(r)


def kernel_c(e, n, m):
    r = np.sqrt(e**2 + n**2) + m
    return r**2 * (np.log(r) + 1)


def kernel_d(e, n, m):
    r = np.sqrt(e**2 + n**2) + m
    return r**2 * (special(r) - 1)


def special(x):
    return x


def kernel_e(e, n, m):
    r = np.sqrt(e**2 + n**2) + m
    return r**2 * (np.i0(r) - 1)


def wrap(w, e):
    w = w % 360
    e = e % 360
    if w > e:
        w = ((w + 180) % 360) - 180
        e = ((e + 180) % 360) - 180
    out = np.array([w, e])
    out[:2] = w, e
    return out


def nested_windows_wrong(sizes, values):
    order = np.argsort(sizes)[::-1]
    nested = []
    for size in (sizes[i] for i in order):
        nested.append(values[:size])
    return [nested[i] for i in order]


def nested_windows_right(sizes, values):
    order = np.argsort(sizes)[::-1]
    nested = []
    for size in (sizes[i] for i in order):
        nested.append(values[:size])
    inverse = np.argsort(order)
    return [nested[i] for i in inverse]


def blocks_dropping_the_remainder(values, block=4):
    out = np.zeros(values.size)
    for k in range(values.size // block):
        part = slice(k * block, (k + 1) * block)
        out[part] = values[part] * 2
    return out


def blocks_with_a_ceiling_count(values, block=4):
    out = np.zeros(values.size)
    for k in range(-(-values.size // block)):
        part = slice(k * block, (k + 1) * block)
        out[part] = values[part] * 2
    return out


def blocks_with_a_tail(values, block=4):
    out = np.zeros(values.size)
    full = values.size // block
    for k in range(full):
        out[k * block:(k + 1) * block] = values[k * block:(k + 1) * block] * 2
    out[full * block:] = values[full * block:] * 2
    return out


def or_default(points, mindist=1.0):
    """
    Parameters
    ----------
    points : array
        The points.
    mindist : float
        A distance; 0 is allowed.
    """
    return points + (mindist or 10.0)


def none_default(points, mindist=None):
    """
    Parameters
    ----------
    points : array
        The points.
    mindist : float or None
        A distance; 0 is allowed.
    """
    if mindist is None:
        mindist = 10.0
    return points + mindist


def _fill_kernel(values, out):
    for i in range(values.size):
        out[i] = values[i] * 2
    return out


def fill_through_ravel_of_like(coordinates):
    result = np.empty_like(coordinates[0], dtype="float64")
    _fill_kernel(np.ravel(coordinates[0]), result.ravel())
    return result


def fill_through_ravel_of_empty(coordinates):
    result = np.empty(np.shape(coordinates[0]), dtype="float64")
    _fill_kernel(np.ravel(coordinates[0]), result.ravel())
    return result


def cast_to_foreign_dtype(coordinates, forces):
    return np.array(forces, dtype=coordinates[0].dtype)


def cast_to_own_or_promoted_dtype(coordinates, forces):
    a = np.array(forces, dtype=np.result_type(forces.dtype, np.float32))
    b = np.asarray(forces, dtype=forces.dtype)
    return a, b, np.asarray(coordinates[0], dtype="float64")


def best_by_truthiness(candidates, target):
    best_score, best = None, None
    for c in candidates:
        score = abs(c - target)
        if not best_score or score < best_score:
            best_score, best = score, c
    return best


def best_by_is_none(candidates, target):
    best_score, best = None, None
    for c in candidates:
        score = abs(c - target)
        if best_score is None or score < best_score:
            best_score, best = score, c
    return best


def _twice(values):
    base = np.log(values)
    if values.size == 1:
        return base, base, np.zeros_like(base)
    return base + 1, base + 2, base * 3


def scales_a_twin_in_place(values, f):
    first, second, third = _twice(values)
    first *= f
    return first + second + third


def scales_a_copy(values, f):
    first, second, third = _twice(values)
    return first * f + second + third


def separable_in_place(coordinates):
    out = np.sin(coordinates[0])
    out *= np.cos(coordinates[1])
    return out


def separable_out_of_place(coordinates):
    out = np.sin(coordinates[0]) * np.cos(coordinates[1])
    out *= 2
    return out


def _make_nodes(region, spacing=1.0, pixel_register=False):
    return np.arange(region[0], region[1], spacing) + (spacing / 2 if pixel_register else 0)


def pops_and_loses(region, **kwargs):
    label = "pixel" if kwargs.pop("pixel_register", False) else "gridline"
    return _make_nodes(region, **kwargs), label


def pops_and_forwards(region, **kwargs):
    pixel = kwargs.pop("pixel_register", False)
    return _make_nodes(region, pixel_register=pixel, **kwargs), "pixel" if pixel else "gridline"


_SUMMARY_CACHE = {}
_EXACT_CACHE = {}


def cached_by_summaries(points):
    key = (points.size, float(points.mean()), float(points.min()), float(points.max()))
    if key not in _SUMMARY_CACHE:
        _SUMMARY_CACHE[key] = np.sort(points)
    return _SUMMARY_CACHE[key]


def cached_by_bytes(points):
    key = (points.shape, points.tobytes())
    if key not in _EXACT_CACHE:
        _EXACT_CACHE[key] = np.sort(points)
    return _EXACT_CACHE[key]
