"""Engine F: rational normal forms over Q with interpreted atoms (DESIGN §3.7).

Terms of numeric kernels are normalised to num/den, both sparse polynomials with Fraction coefficients over
interned atoms (symbols and applications of interpreted functions to normal forms).  Equality is decided by
cross-multiplication.  Array code is read elementwise.
"""
from fractions import Fraction

from .terms import callee, is_const, show

ONE = {(): Fraction(1)}


class Undecided(Exception):
    pass


class Space:
    """atom table; one per comparison so that atoms of both sides are shared"""

    def __init__(self):
        self.atoms = []

    def atom(self, kind, *payload):
        for i, (k, p) in enumerate(self.atoms):
            if k == kind and len(p) == len(payload) and all(_eq(a, b) for a, b in zip(p, payload)):
                return i
        self.atoms.append((kind, payload))
        return len(self.atoms) - 1

    def sym(self, name):
        return R.a(self, self.atom("sym", name))

    def fn(self, name, *args):
        if name == "log" and len(args) == 1:
            x = args[0]
            a = x.single_atom()
            if a is not None and self.atoms[a][0] == "pow":
                base, ex = self.atoms[a][1]
                return ex * self.fn("log", base)
            if x.den == ONE and len(x.num) == 1:
                (m, c), = x.num.items()
                if c == 1 and len(m) >= 1 and not (len(m) == 1 and m[0][1] == 1):
                    out = R.c(self, 0)
                    for at, e in m:
                        out = out + R.c(self, e) * self.fn("log", R.a(self, at))
                    return out
        if name == "hypot":
            return self.fn("sqrt", args[0] ** 2 + args[1] ** 2)
        if name == "mod" and len(args) == 2 and args[1].is_const() and args[0].den == ONE:
            # mod(mod(a, m) + c, m) == mod(a + c, m)
            a, m = args
            num = {}
            changed = False
            for mono, coef in a.num.items():
                if len(mono) == 1 and mono[0][1] == 1 and coef == 1 and self.atoms[mono[0][0]][0] == "fn" and self.atoms[mono[0][0]][1][0] == "mod" \
                        and self.atoms[mono[0][0]][1][2] == m and self.atoms[mono[0][0]][1][1].den == ONE:
                    for m2, c2 in self.atoms[mono[0][0]][1][1].num.items():
                        num[m2] = num.get(m2, 0) + c2
                    changed = True
                else:
                    num[mono] = num.get(mono, 0) + coef
            if changed:
                return self.fn("mod", R(self, num), m)
            # mod(a + c, m) == mod(a + (c mod m), m): the constant term is reduced, so x - 180 and x + 180 and x + 540 (mod 360) are one form
            mv = m.constval()
            c0 = a.num.get((), Fraction(0))
            if mv > 0 and not (0 <= c0 < mv):
                num2 = dict(a.num)
                num2[()] = c0 % mv
                return self.fn("mod", R(self, num2), m)
        if name == "abs" and len(args) == 1:
            a = args[0].single_atom()
            if a is not None and self.atoms[a][0] == "fn" and self.atoms[a][1][0] in ("abs", "sqrt", "hypot"):
                return args[0]
        return R.a(self, self.atom("fn", name, *args))

    def ashow(self, i):
        k, p = self.atoms[i]
        if k == "sym":
            return p[0]
        if k == "fn":
            return p[0] + "(" + ", ".join(repr(x) for x in p[1:]) + ")"
        if k == "pow":
            return "(" + repr(p[0]) + ")**(" + repr(p[1]) + ")"
        if k == "idx":
            return repr(p[0]) + "[" + (repr(p[1]) if isinstance(p[1], R) else str(p[1])) + "]"
        return str((k, p))


def _eq(a, b):
    if isinstance(a, R) and isinstance(b, R):
        return a == b
    if isinstance(a, R) or isinstance(b, R):
        return False
    return a == b


class R:
    def __init__(self, sp, num, den=None):
        self.sp = sp
        self.num = {m: c for m, c in num.items() if c != 0}
        self.den = den if den is not None else ONE

    @staticmethod
    def c(sp, v):
        return R(sp, {(): Fraction(v)})

    @staticmethod
    def a(sp, i, e=1):
        return R(sp, {((i, e),): Fraction(1)})

    def __add__(s, o):
        if s.den == o.den:
            return R(s.sp, padd(s.num, o.num), s.den).norm()
        return R(s.sp, padd(pmul(s.num, o.den), pmul(o.num, s.den)), pmul(s.den, o.den)).norm()

    def __neg__(s):
        return R(s.sp, {m: -c for m, c in s.num.items()}, s.den)

    def __sub__(s, o):
        return s + (-o)

    def __mul__(s, o):
        return R(s.sp, pmul(s.num, o.num), pmul(s.den, o.den)).norm()

    def inv(s):
        if not s.num:
            raise Undecided("division by the zero form")
        return R(s.sp, s.den, s.num).norm()

    def __truediv__(s, o):
        return s * o.inv()

    def __pow__(s, n):
        if n < 0:
            return s.inv() ** (-n)
        out = R.c(s.sp, 1)
        for _ in range(n):
            out = out * s
        return out

    def __eq__(s, o):
        if not isinstance(o, R):
            return False
        left, right = pmul(s.num, o.den), pmul(o.num, s.den)
        # clear negative exponents so that sqrt(A)^2k -> A^k applies everywhere
        low = {}
        for p in (left, right):
            for m in p:
                for a, e in m:
                    if e < 0:
                        low[a] = min(low.get(a, 0), e)
        if low:
            mult = {tuple(sorted((a, -e) for a, e in low.items())): Fraction(1)}
            left, right = pmul(left, mult), pmul(right, mult)
        return s.sp.pnorm(left) == s.sp.pnorm(right)

    def __hash__(s):
        return 0

    def is_const(s):
        return s.den == ONE and set(s.num) <= {()}

    def constval(s):
        return s.num.get((), Fraction(0))

    def is_zero(s):
        return not s.sp.pnorm(s.num)

    def single_atom(s):
        if s.den == ONE and len(s.num) == 1:
            (m, c), = s.num.items()
            if c == 1 and len(m) == 1 and m[0][1] == 1:
                return m[0][0]
        return None

    def norm(s):
        if len(s.den) == 1:
            (m, c), = s.den.items()
            if m != () or c != 1:
                inv = tuple((a, -e) for a, e in m)
                s = R(s.sp, pmul(s.num, {inv: 1 / c}), ONE)
        s.num = s.sp.sqrt_simplify(s.num)
        return s

    def atoms_used(s):
        out = set()
        for p in (s.num, s.den):
            for m in p:
                for a, _e in m:
                    out.add(a)
        return out

    def __repr__(s):
        return s.sp.pshow(s.num) + ("" if s.den == ONE else " / (" + s.sp.pshow(s.den) + ")")


def padd(a, b):
    out = dict(a)
    for m, c in b.items():
        out[m] = out.get(m, 0) + c
    return {m: c for m, c in out.items() if c != 0}


def mmul(m1, m2):
    d = dict(m1)
    for a, e in m2:
        d[a] = d.get(a, 0) + e
    return tuple(sorted((a, e) for a, e in d.items() if e != 0))


def pmul(a, b):
    out = {}
    for m1, c1 in a.items():
        for m2, c2 in b.items():
            m = mmul(m1, m2)
            out[m] = out.get(m, 0) + c1 * c2
    return {m: c for m, c in out.items() if c != 0}


def _pnorm(self, p):
    return {m: c for m, c in self.sqrt_simplify(p).items() if c != 0}


def _sqrt_simplify(self, p):
    """sqrt(A)^(2k) -> A^k for polynomial A"""
    changed = True
    while changed:
        changed = False
        out = {}
        for m, c in p.items():
            hit = None
            for a, e in m:
                k, payload = self.atoms[a]
                if k == "fn" and payload[0] == "sqrt" and e >= 2 and payload[1].den == ONE:
                    hit = (a, e, payload[1])
                    break
            if hit is None:
                out[m] = out.get(m, 0) + c
                continue
            a, e, A_ = hit
            changed = True
            rest = tuple((x, y) for x, y in m if x != a)
            q_, r_ = divmod(e, 2)
            term = {tuple(sorted(rest + (((a, 1),) if r_ else ()))): c}
            Ak = ONE
            for _ in range(q_):
                Ak = pmul(Ak, A_.num)
            for mm, cc in pmul(term, Ak).items():
                out[mm] = out.get(mm, 0) + cc
        p = {m: c for m, c in out.items() if c != 0}
    return p


def _pshow(self, p):
    if not p:
        return "0"
    parts = []
    for m, c in sorted(p.items(), key=lambda kv: str(kv[0])):
        mon = "*".join(self.ashow(a) + ("" if e == 1 else "^%d" % e) for a, e in m)
        parts.append((str(c) if c != 1 or not mon else "") + ("*" if mon and c != 1 else "") + mon)
    return " + ".join(parts)


Space.pnorm = _pnorm
Space.sqrt_simplify = _sqrt_simplify
Space.pshow = _pshow

SYN = {"numpy.sqrt": "sqrt", "numpy.log": "log", "math.log": "log", "math.sqrt": "sqrt", "numpy.sin": "sin", "numpy.cos": "cos",
       "math.sin": "sin", "math.cos": "cos", "numpy.exp": "exp", "numpy.abs": "abs", "numpy.absolute": "abs", "builtins.abs": "abs",
       "numpy.arctan2": "arctan2", "math.atan2": "arctan2", "builtins.round": "round",
       "numpy.round": "round", "numpy.rint": "round", "numpy.around": "round", "builtins.int": "int", "numpy.floor": "floor",
       "numpy.ceil": "ceil", "math.floor": "floor", "math.ceil": "ceil", "numpy.trunc": "trunc", "math.trunc": "trunc",
       "builtins.min": "min", "builtins.max": "max", "numpy.min": "min", "numpy.max": "max", "numpy.amin": "min", "numpy.amax": "max",
       "numpy.nanmin": "nanmin", "numpy.nanmax": "nanmax", "numpy.median": "median", "numpy.mean": "mean", "numpy.sum": "sum",
       "numpy.average": "average", "numpy.var": "var", "numpy.tan": "tan", "numpy.linspace": "linspace", "numpy.minimum": "min", "numpy.maximum": "max",
       "numpy.hypot": "hypot", "math.hypot": "hypot", "numpy.nanmedian": "nanmedian", "numpy.nanmean": "nanmean"}
IDENT_FUNCS = {"numpy.asarray", "numpy.atleast_1d", "numpy.ravel", "numpy.array", "builtins.float", "numpy.float64", "numpy.asanyarray", "numpy.copy",
               "numpy.squeeze", "numpy.ascontiguousarray", "numpy.reshape"}
IDENT_METH = {"reshape", "ravel", "copy", "astype", "flatten", "squeeze"}
# symbol families: a different member in the same position is a definite mismatch (DESIGN §2.1)
FAMILIES = [{"round", "floor", "ceil", "trunc", "int", "floordiv"}, {"min", "max", "nanmin", "nanmax"}, {"sin", "cos", "tan"},
            {"median", "mean", "sum", "average", "nanmedian", "nanmean", "var"}, {"sqrt", "log", "exp", "abs", "hypot"}, {"arctan2"}, {"mod"}]
INTERPRETED = set().union(*FAMILIES) | {"linspace", "linspace01", "size", "pow"}


class Builder:
    def __init__(self, sp=None, masks=(), synonyms=None, opaque_calls=False):
        self.sp = sp or Space()
        self.masks = tuple(masks)
        self.synonyms = synonyms or {}
        self.opaque_calls = opaque_calls
        self.unknown_symbols = set()

    def nf(self, t, env=None):
        env = env or {}
        sp = self.sp
        if t in env:
            return env[t]
        k = t[0]
        if k == "const":
            v = t[1]
            if isinstance(v, bool) or v is None or isinstance(v, str) or isinstance(v, complex):
                raise Undecided("non-numeric constant %r" % (v,))
            return R.c(sp, Fraction(v) if isinstance(v, int) else Fraction(repr(v)))
        if k == "param":
            return sp.sym(self.synonyms.get(t[1], t[1]))
        if k == "lparam":
            return sp.sym("λ" + t[1])
        if k == "glob":
            if t[1] in ("numpy.pi", "math.pi"):
                return sp.sym("pi")
            if t[1] in ("numpy.inf", "math.inf"):
                return sp.sym("inf")
            if t[1] in ("numpy.e", "math.e"):
                return sp.sym("e")
            raise Undecided("global " + t[1])
        if k == "attr":
            if t[1] == ("param", "self"):
                return sp.sym(self.synonyms.get("self." + t[2], "self." + t[2]))
            if t[2] == "size":
                return sp.fn("size", self.nf(t[1], env))
            if t[2] in ("T", "values", "real"):
                return self.nf(t[1], env)
            return sp.sym(show(t))
        if k == "binop":
            op = t[1]
            a, b = self.nf(t[2], env), self.nf(t[3], env)
            if op == "+":
                return a + b
            if op == "-":
                return a - b
            if op == "*":
                return a * b
            if op == "/":
                return a / b
            if op == "**":
                if b.is_const() and b.constval().denominator == 1 and abs(b.constval()) <= 8:
                    return a ** int(b.constval())
                if b.is_const() and b.constval() == Fraction(1, 2):
                    return sp.fn("sqrt", a)
                return R.a(sp, sp.atom("pow", a, b))
            if op == "%":
                return sp.fn("mod", a, b)
            if op == "//":
                return sp.fn("floordiv", a, b)
            raise Undecided("binop " + op)
        if k == "unop":
            if t[1] == "neg":
                return -self.nf(t[2], env)
            if t[1] == "pos":
                return self.nf(t[2], env)
            raise Undecided("unop " + t[1])
        if k == "sub":
            base, idx = t[1], t[2]
            if idx[0] == "cmp" or (idx[0] == "unop" and idx[1] == "~") or idx in self.masks:
                return self.nf(base, env)        # elementwise reading under a boolean mask
            if idx[0] == "slice" or (idx[0] == "tuple" and any(e[0] == "slice" or e == ("const", None) for e in idx[1])):
                return R.a(sp, sp.atom("idx", self.nf(base, env), show(idx)))
            try:
                i = self.nf(idx, env)
            except Undecided:
                i = show(idx)
            return R.a(sp, sp.atom("idx", self.nf(base, env), i))
        if k == "prev":
            return sp.sym("prev<" + t[2] + ">")
        if k == "elem":
            try:
                return R.a(sp, sp.atom("idx", self.nf(t[1], env), "loop%s" % (t[2][1],)))
            except Undecided:
                return sp.sym("elem<%s>" % show(t[1])[:60])
        if k == "idx":
            return sp.sym("loop%s" % (t[1][1],))
        if k == "ifexp":
            raise Undecided("conditional expression")
        if k == "call":
            return self.call(t, env)
        if k == "mu":
            raise Undecided("loop-carried value")
        raise Undecided(k + " " + show(t)[:60])

    def call(self, t, env):
        sp = self.sp
        f, args, kws = t[1], t[2], t[3]
        name = callee(t)
        if f[0] == "glob":
            if name in IDENT_FUNCS and args:
                return self.nf(args[0], env)
            if name == "numpy.nan_to_num" and args:
                return self.nf(args[0], env)
            if name == "numpy.square":
                return self.nf(args[0], env) ** 2
            if name == "numpy.power":
                return self.nf(("binop", "**", args[0], args[1]), env)
            if name in ("numpy.subtract", "numpy.add", "numpy.multiply", "numpy.divide", "numpy.true_divide") and len(args) >= 2:
                op = {"subtract": "-", "add": "+", "multiply": "*", "divide": "/", "true_divide": "/"}[name.split(".")[1]]
                return self.nf(("binop", op, args[0], args[1]), env)
            if name == "numpy.negative":
                return -self.nf(args[0], env)
            if name in SYN and SYN[name] == "hypot" and len(args) == 2 and not kws:
                a, b = self.nf(args[0], env), self.nf(args[1], env)
                return sp.fn("sqrt", a * a + b * b)
            if name in SYN and SYN[name] in ("cos", "sin") and len(args) == 1 and args[0][0] == "call" and SYN.get(callee(args[0])) == "arctan2" and len(args[0][2]) == 2:
                # cos(atan2(y, x)) = x / hypot(x, y), sin(atan2(y, x)) = y / hypot(x, y)   (for (x, y) != (0, 0))
                y, x = self.nf(args[0][2][0], env), self.nf(args[0][2][1], env)
                return (x if SYN[name] == "cos" else y) / sp.fn("sqrt", x * x + y * y)
            if name in SYN and SYN[name] == "linspace" and len(args) == 3 and not [k_ for k_, _v in kws if k_ not in ("dtype",)]:
                # linspace(lo, hi, n) = lo + (hi - lo) * linspace(0, 1, n)
                lo, hi, n = (self.nf(a, env) for a in args)
                return lo + (hi - lo) * sp.fn("linspace01", n)
            if name in SYN:
                extra = [v for k_, v in kws if k_ in ("axis",)]
                return sp.fn(SYN[name], *[self.nf(a, env) for a in args], *[self.nf(v, env) for v in extra])
            if self.opaque_calls or name.startswith("verde.") or name.startswith("spec."):
                short = self.synonyms.get(name, name.split(".")[-1])
                try:
                    return sp.fn("call:" + short, *[self.nf(a, env) for a in args])
                except Undecided:
                    return sp.sym(show(t)[:80])
            raise Undecided("call " + name)
        if f[0] == "attr":
            if f[2] in IDENT_METH:
                return self.nf(f[1], env)
            if f[2] in ("min", "max", "sum", "mean", "std", "var"):
                return sp.fn(f[2], self.nf(f[1], env))
            raise Undecided("method ." + f[2])
        raise Undecided("call of " + f[0])


def family_of(name):
    for fam in FAMILIES:
        if name in fam:
            return fam
    return None


def compare(sp, got, want, nested=False):
    """True (equal) / False (definitely different) / None (undecided: uninterpreted symbols involved)"""
    if got == want:
        return True
    # both sides only use interpreted functions and plain symbols that also occur on the other side -> definite
    ga, wa = got.atoms_used(), want.atoms_used()

    def closure(atoms):
        seen, todo = set(), list(atoms)
        while todo:
            a = todo.pop()
            if a in seen:
                continue
            seen.add(a)
            for pl in sp.atoms[a][1]:
                if isinstance(pl, R):
                    todo.extend(pl.atoms_used())
        return seen
    gs, ws = closure(ga), closure(wa)
    gsym = {sp.atoms[a][1][0] for a in gs if sp.atoms[a][0] == "sym"}
    wsym = {sp.atoms[a][1][0] for a in ws if sp.atoms[a][0] == "sym"}
    gfn = {sp.atoms[a][1][0] for a in gs if sp.atoms[a][0] == "fn"}
    wfn = {sp.atoms[a][1][0] for a in ws if sp.atoms[a][0] == "fn"}
    for nm in gfn | wfn:
        if nm not in INTERPRETED and not nm.startswith("call:"):
            return None
    calls_g = {n for n in gfn if n.startswith("call:")}
    calls_w = {n for n in wfn if n.startswith("call:")}
    if calls_g != calls_w:
        return None
    extra = {n for n in gfn - wfn}
    missing = wfn - gfn
    for n in extra:
        fam = family_of(n)
        if fam is None or not (fam & missing):
            return None       # a function the specification does not use and that replaces nothing: possibly an identity we do not know
    for n in missing:
        fam = family_of(n)
        if fam is None or not (fam & extra):
            return None       # a function of the specification that the code does without: possibly eliminated through an identity we do not know
    if not nested and not (gsym <= wsym | {"pi"}):
        return None
    # Both sides are now rational expressions over atoms.  They are DEFINITELY different if they differ as polynomials over the same
    # function atoms (treated as independent indeterminates), or if they are the SAME polynomial up to a one-to-one replacement of
    # function atoms each of which certainly changes the value (another member of the family on the same argument: sin for cos, floor
    # for round; or the same function on an argument that is definitely different and not related by a symmetry of the function).
    # Anything else (log(a*b) against log(a) + log(b), an atom more or less) may hide an identity: undecided.
    def top_fn(r):
        out = set()
        for poly in (r.num, r.den):
            for mono in poly:
                for at, _e in mono:
                    if sp.atoms[at][0] == "fn":
                        out.add(at)
        return out
    tg, tw = top_fn(got), top_fn(want)
    only_g, only_w = sorted(tg - tw), sorted(tw - tg)
    if not only_g and not only_w:
        return False
    if len(only_g) != len(only_w) or len(only_g) > 4:
        return None
    import itertools
    for perm in itertools.permutations(only_w):
        mapping = dict(zip(only_g, perm))
        if _rename(got, mapping) != want:
            continue
        verdicts = [_atoms_differ(sp, a_, b_) for a_, b_ in mapping.items()]
        if all(v is True for v in verdicts):
            return False
    return None


def _rename(r, mapping):
    def poly(p):
        out = {}
        for mono, c in p.items():
            m2 = tuple(sorted((mapping.get(at, at), e) for at, e in mono))
            out[m2] = out.get(m2, 0) + c
        return {m: c for m, c in out.items() if c != 0}
    return R(r.sp, poly(r.num), poly(r.den) if r.den is not ONE else ONE)


def _atoms_differ(sp, a, b):
    """True: the two function atoms certainly denote different values; None: cannot tell"""
    na, *xa = sp.atoms[a][1]
    nb, *xb = sp.atoms[b][1]
    if na != nb:
        fam = family_of(na)
        if fam is not None and nb in fam and len(xa) == len(xb) and all(_eq(x, y) for x, y in zip(xa, xb)):
            return True
        return None
    if len(xa) != len(xb) or not all(isinstance(x, R) for x in xa + xb):
        return None
    if na in ("sin", "cos", "tan") and len(xa) == 1:
        d, s_ = xa[0] - xb[0], xa[0] + xb[0]
        if d.is_const() or s_.is_const():
            return None                      # x and x + 2*pi*k, x and pi - x, ...
        return True if compare(sp, xa[0], xb[0], nested=True) is False else None
    if na == "abs" and len(xa) == 1 and xa[0] == -xb[0]:
        return None
    if na == "mod" and len(xa) == 2 and xa[1] == xb[1] and (xa[0] - xb[0]).is_const():
        return None
    if na in ("min", "max") and sorted(repr(x) for x in xa) == sorted(repr(x) for x in xb):
        return None
    res = [True if x == y else compare(sp, x, y, nested=True) for x, y in zip(xa, xb)]
    if any(r_ is False for r_ in res) and all(r_ is not None for r_ in res):
        return True
    return None
