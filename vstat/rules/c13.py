"""C13 - regions, bounds and point-in-region tests are tight and consistent (DESIGN §4 C13)."""
from .. import q as Q
from .. import roles
from .. import spec
from ..nf import Builder, Space, Undecided, compare
from ..paths import lookup
from ..terms import callee, canon, const, is_const, kw, show, walk, NONE
from . import common as K

EXPLANATION = ("role/axis typing of every bound, coordinate and comparison; normal forms of get_region / pad_region vs the documented formulas; "
               "predicate-tree analysis of inside (closed, axis-matched, conjunction only); out= buffer liveness; validation reachability")
RULES = {
    "R1": "get_region == (min c0, max c0, min c1, max c1)",
    "R2": "pad_region == (W - pE, E + pE, S - pN, N + pN), scalar pad duplicated",
    "R3": "inside: check_region first; E >= W, E <= E_, N >= S, N <= N_ (closed, axis-matched) combined by conjunction only; result shaped like easting; "
          "no out= buffer is overwritten while its value is still live",
    "R4": "scatter_points: check_region first; RNG from check_random_state(random_state); uniform(W, E, size) then uniform(S, N, size); constant extras",
    "R5": "project_region: grid of the region -> projection(E.ravel(), N.ravel()) -> (E.min, E.max, N.min, N.max)",
    "R6": "maxabs == max_i max(|min a_i|, |max a_i|), nan-aware exactly when nan is true",
    "R8": "grid nodes stay inside the region: for adjust='spacing' spacing_to_size returns the caller's stop itself (bit-exact), so linspace ends on the bound (shared with C07.R1)",
    "R7": "check_region raises on length != 4, W > E, S > N (strict); generators/testers reach it before using the region",
}
ASSUMPTIONS = ["that generated nodes lie inside the region is the semantics of uniform/linspace (declined)"]

CR = "verde.coordinates.check_region"


def r1_get_region(ctx):
    qn = "verde.coordinates.get_region"
    K.roles_rule(ctx, "R1", [qn])
    sp = Space()
    co = ("param", "coordinates")
    env = {Q.sub(co, 0): sp.sym("easting"), Q.sub(co, 1): sp.sym("northing")}
    want = [p for p in spec.paths("coords.get_region") if p.exit == "return"][0].value
    for p in ctx.paths(qn):
        if p.exit != "return":
            continue
        v = p.value
        res, detail = True, ""
        if v[0] != "tuple" or len(v[1]) != 4:
            res, detail = None, "result is not a 4-tuple"
        else:
            for i in range(4):
                try:
                    g, w = Builder(sp).nf(v[1][i], env), Builder(sp).nf(want[1][i])
                    r = compare(sp, g, w)
                except Undecided as e:
                    r, g, w = None, str(e), ""
                if r is False:
                    res, detail = False, "element %d is %s, documented %s" % (i, repr(g)[:60], repr(w)[:60])
                    break
                if r is None and res is True:
                    res, detail = None, "element %d: %s" % (i, repr(g)[:80])
        ctx.check("R1", qn + "|formula", res, "get_region == (min E, max E, min N, max N) of the first two coordinates", bad="get_region: " + detail, fn=qn, undecided=detail)


def r2_pad_region(ctx):
    qn = "verde.coordinates.pad_region"
    K.roles_rule(ctx, "R2", [qn])
    want = [p for p in spec.paths("coords.pad_region") if p.exit == "return"][0].value
    pad = ("param", "pad")
    n = 0
    for p in ctx.paths(qn):
        if p.exit != "return":
            continue
        scalar = any(c[0] == "call" and callee(c) == "numpy.isscalar" and v for c, v in p.conds)
        sp = Space()
        if scalar:
            env = {pad: sp.sym("pad")}
            bs = Builder(sp, synonyms={"pad_north": "pad", "pad_east": "pad"})
        else:
            env = {Q.sub(pad, 0): sp.sym("pad_north"), Q.sub(pad, 1): sp.sym("pad_east")}
            bs = Builder(sp)
        v = p.value
        res, detail = True, ""
        if v[0] != "tuple" or len(v[1]) != 4:
            res, detail = None, "result is not a 4-tuple"
        else:
            for i in range(4):
                try:
                    g, w = Builder(sp).nf(v[1][i], env), bs.nf(want[1][i])
                    r = compare(sp, g, w)
                except Undecided as e:
                    r, g, w = None, str(e), ""
                if r is False:
                    res, detail = False, "element %d is %s, documented %s" % (i, repr(g)[:60], repr(w)[:60])
                    break
                if r is None and res is True:
                    res, detail = None, "element %d: %s" % (i, repr(g)[:80])
        n += 1
        ctx.check("R2", "%s|formula|%s" % (qn, "scalar" if scalar else "pair"), res, "padded == (W - pad_east, E + pad_east, S - pad_north, N + pad_north)",
                  bad="pad_region: " + detail, fn=qn, undecided=detail)
    if n < 2:
        ctx.add("R2", qn + "|paths", "UNDECIDED", "scalar and pair paths not both found", fn=qn)


AND_FUNCS = {"numpy.logical_and", "numpy.bitwise_and", "numpy.all"}
OR_FUNCS = {"numpy.logical_or", "numpy.bitwise_or", "numpy.logical_xor", "numpy.any"}
CMP_FUNCS = {"numpy.greater_equal": ">=", "numpy.less_equal": "<=", "numpy.greater": ">", "numpy.less": "<"}
FLIP = {">=": "<=", "<=": ">=", ">": "<", "<": ">"}


def predicate_leaves(t, out, ors):
    if t[0] == "call" and callee(t) in AND_FUNCS:
        for a in t[2]:
            predicate_leaves(a, out, ors)
        return
    if t[0] == "call" and callee(t) in OR_FUNCS:
        ors.append(callee(t))
        return
    if t[0] == "binop" and t[1] == "&":
        predicate_leaves(t[2], out, ors)
        predicate_leaves(t[3], out, ors)
        return
    if t[0] == "binop" and t[1] in ("|", "^"):
        ors.append(t[1])
        return
    if t[0] == "boolop":
        if t[1] == "Or":
            ors.append("or")
            return
        for a in t[2]:
            predicate_leaves(a, out, ors)
        return
    if t[0] == "call" and callee(t) in CMP_FUNCS and len(t[2]) >= 2:
        out.append((CMP_FUNCS[callee(t)], t[2][0], t[2][1]))
        return
    if t[0] == "cmp" and t[1] in FLIP:
        out.append((t[1], t[2], t[3]))
        return
    if (t[0] == "unop" and t[1] in ("~", "not")) or (t[0] == "call" and callee(t) in ("numpy.logical_not", "numpy.invert", "numpy.bitwise_not")):
        out.append(("?", t, None))      # a negated sub-formula (De Morgan forms) is not modelled: undecided, never a violation
        return
    out.append(("?", t, None))


def r3_inside(ctx):
    qn = "verde.coordinates.inside"
    K.roles_rule(ctx, "R3", [qn], with_return=False)
    okc = all(any(e.kind == "call" and callee(e.data[0]) == CR and e.data[0][2] == (("param", "region"),) for e in p.events) for p in ctx.paths(qn) if p.normal)
    ctx.check("R3", qn + "|check_region-first", True if okc else False, "every normal path validates the region with check_region(region)",
              bad="inside no longer rejects invalid regions (check_region is not called on a normal path)", fn=qn)
    for p in ctx.paths(qn):
        if p.exit != "return":
            continue
        leaves, ors = [], []
        predicate_leaves(p.value, leaves, ors)
        negated = any(op_ == "?" for op_, _a, _b in leaves)
        ctx.check("R3", qn + "|conjunction-only", (False if ors else True) if not negated else None, "the four tests are combined by conjunction only",
                  bad="the tests are combined with %s: points outside one interval are accepted" % ors, fn=qn)
        ck = roles.Checker(ctx.pkg, p, qn)
        got = set()
        unknown = []
        for op, a, b in leaves:
            if op == "?":
                unknown.append(show(a)[:60])
                continue
            ra, rb = ck.role(a), ck.role(b)
            if isinstance(ra, roles.A) and ra.kind in ("lo", "hi") and isinstance(rb, roles.A) and rb.kind == "arr":
                ra, rb, op = rb, ra, FLIP[op]
            if isinstance(ra, roles.A) and isinstance(rb, roles.A) and ra.kind == "arr" and rb.kind in ("lo", "hi"):
                got.add((ra.axis, op, rb.kind, rb.axis))
            else:
                unknown.append("%s %s %s" % (ra, op, rb))
        want = {("E", ">=", "lo", "E"), ("E", "<=", "hi", "E"), ("N", ">=", "lo", "N"), ("N", "<=", "hi", "N")}
        # the comparison must see the caller's values: an operand converted to a dtype that does not depend on it (bounds cast to
        # the coordinates' dtype, coordinates cast to int, ...) truncates, and boundary points change side
        casts = [(c, k) for op_, a, b in leaves if op_ != "?" for t in (a, b) for c, k in Q.narrowing_casts(t)]
        lossy = [c for c, k in casts if k in ("narrowing", "integer")]
        ctx.check("R3", qn + "|operands-compared-exactly", False if lossy else (None if casts else True), "coordinates and bounds are compared as given (no narrowing conversion)",
                  bad="a comparison operand is converted with %s: values that the target dtype cannot represent are truncated before the test" % show(lossy[0])[:110] if lossy else "", fn=qn,
                  undecided="a comparison operand is converted to a dtype that cannot be classified: %s" % show(casts[0][0])[:100] if casts else "")
        if got == want and not unknown:
            ctx.add("R3", qn + "|closed-box-predicate", "DISCHARGED", "the result is E >= W and E <= E_max and N >= S and N <= N_max (closed, axis-matched)", fn=qn)
        elif unknown:
            ctx.add("R3", qn + "|closed-box-predicate", "UNDECIDED", "unrecognised predicate leaves: %s" % unknown[:3], fn=qn)
        else:
            extra = sorted(got - want)
            missing = sorted(want - got)
            ctx.add("R3", qn + "|closed-box-predicate", "VIOLATED",
                    "inside is not the closed box predicate: unexpected tests %s, missing tests %s" % (["%s %s %s[%s]" % e for e in extra], ["%s %s %s[%s]" % m for m in missing]), fn=qn)
        # result buffer shaped like the input
        outs = kw(p.value, "out") if p.value[0] == "call" else None
        alloc = outs if outs is not None else p.value
        ok = None
        if alloc[0] == "call" and callee(alloc) in ("numpy.empty_like", "numpy.zeros_like", "numpy.ones_like") and alloc[2]:
            ok = True if alloc[2][0] in (Q.sub(("param", "coordinates"), 0), Q.sub(("param", "coordinates"), 1)) else None
        elif outs is None:
            ok = True      # ufunc results have the broadcast shape of the inputs
        ctx.check("R3", qn + "|result-shape", ok, "the result has the shape of the input coordinates", fn=qn)
        # buffer liveness: an out= buffer may not be rewritten while the value it holds is still used later
        calls = [e.data[0] for e in p.events if e.kind == "call"]
        holder = {}
        problem = None
        for i, c in enumerate(calls):
            o = kw(c, "out")
            if o is None:
                continue
            if o in holder:
                old = holder[o]
                # the value held by the buffer is live if a later call reads it as a direct operand, or it is (part of) the result
                live = any(old in L[2] or any(v == old for k, v in L[3] if k != "out") for L in calls[i + 1:]) \
                    or old == p.value or (p.value[0] in ("tuple", "list") and old in p.value[1])
                if live:
                    problem = (show(o)[:40], show(old)[:70])
            holder[o] = c
        ctx.check("R3", qn + "|buffer-liveness", False if problem else True,
                  "no out= buffer is reused while the value it holds is still live (%d buffers)" % len(holder),
                  bad="buffer %s is overwritten while %s (stored in it) is still used afterwards" % (problem or ("", "")), fn=qn,
                  undecided="no out= buffers found")


def _only_inside(later, old, newer):
    """True if `old` occurs in `later` only as part of ... (kept simple: never)"""
    return False


def r4_scatter(ctx):
    qn = "verde.coordinates.scatter_points"
    K.roles_rule(ctx, "R4", [qn], require={qn: [{"uniform-bounds"}, {"region-arg"}]})
    K.precedes(ctx, "R4", qn, K.is_call(CR), lambda e: e.kind == "call" and callee(e.data[0]) == ".uniform", "check_region-first", "check_region(region) precedes the draws")
    for p in ctx.paths(qn):
        if p.exit != "return":
            continue
        draws = [e.data[0] for e in p.events if e.kind == "call" and callee(e.data[0]) == ".uniform"]
        tag = "extra" if lookup(p.decided, ("cmp", "is", ("param", "extra_coords"), NONE)) is False else "noextra"
        rng_ok = all(d[1][1][0] == "call" and callee(d[1][1]) in ("sklearn.utils.check_random_state", "sklearn.utils.validation.check_random_state")
                     and d[1][1][2] == (("param", "random_state"),) for d in draws)
        seeded_const = any(d[1][1][0] == "call" and d[1][1][2] and is_const(d[1][1][2][0]) for d in draws)
        global_rng = [callee(e.data[0]) for e in p.events if e.kind == "call" and (callee(e.data[0]).startswith("numpy.random.") or callee(e.data[0]).startswith("random."))
                      and callee(e.data[0]) not in ("numpy.random.RandomState", "numpy.random.default_rng")]
        ctx.check("R4", "%s|rng-provenance|%s" % (qn, tag), True if draws and rng_ok and not global_rng else (False if seeded_const or global_rng else None),
                  "both draws come from check_random_state(random_state)", bad="the random generator ignores the random_state argument", fn=qn)
        reg = ("param", "region")
        want = [(Q.sub(reg, 0), Q.sub(reg, 1)), (Q.sub(reg, 2), Q.sub(reg, 3))]
        ok = None
        if len(draws) == 2:
            got = [(d[2][0], d[2][1]) if len(d[2]) >= 2 else None for d in draws]
            sizes = [Q.arg(ctx, d, "size") for d in draws]
            if got == want and all(s == ("param", "size") for s in sizes):
                ok = True
            elif got == want[::-1]:
                ok = False
            elif any(isinstance(s, tuple) and is_const(s) for s in sizes) or any(s is None for s in sizes):
                ok = False
        ctx.check("R4", "%s|draws|%s" % (qn, tag), ok, "easting ~ uniform(W, E, size) first, northing ~ uniform(S, N, size) second",
                  bad="the draws are %s" % [show(("tuple", d[2]))[:60] for d in draws], fn=qn)


def r5_project_region(ctx):
    qn = "verde.projections.project_region"
    K.roles_rule(ctx, "R5", [qn], require={qn: [{"projection-args"}, {"region-arg"}]})
    for p in ctx.paths(qn):
        if p.exit != "return":
            continue
        gc = [e.data[0] for e in p.events if e.kind == "call" and callee(e.data[0]) == "verde.coordinates.grid_coordinates"]
        pr = [e.data[0] for e in p.events if e.kind == "call" and e.data[0][1] == ("param", "projection")]
        ok = None
        if len(gc) == 1 and len(pr) == 1:
            a = pr[0][2]
            ok = True if len(a) == 2 and Q.unwrap(a[0]) == Q.sub(gc[0], 0) and Q.unwrap(a[1]) == Q.sub(gc[0], 1) and Q.arg(ctx, gc[0], "region") == ("param", "region") else None
        if len(gc) == 1:
            # the extreme of a projected rectangle need not be at a corner or on the diagonal: the whole 2-D grid must be projected
            mgv = Q.arg(ctx, gc[0], "meshgrid")
            ctx.check("R5", qn + "|full-2d-grid", True if mgv is None or mgv == const(True) else (False if mgv == const(False) else None),
                      "the sampling grid is the full 2-D mesh of the region", bad="grid_coordinates is called with meshgrid=False: only the diagonal of the region is projected, "
                      "so the box of a non-separable projection is too small", fn=qn)
        ctx.check("R5", qn + "|projects-a-grid-of-the-region", ok, "the projection is applied to the raveled (easting, northing) grid of the region", fn=qn)
        v = p.value
        ok = None
        if v[0] == "tuple" and len(v[1]) == 4 and len(pr) == 1:
            def mm(t):
                if Q.minmax_of(t) is not None:
                    return Q.minmax_of(t)
                if t[0] == "call" and callee(t) in ("numpy.min", "numpy.max", "numpy.nanmin", "numpy.nanmax") and len(t[2]) == 1:
                    return callee(t).split(".")[1].replace("nan", ""), t[2][0]
                return None, None
            got = [mm(x) for x in v[1]]
            want = [("min", Q.sub(pr[0], 0)), ("max", Q.sub(pr[0], 0)), ("min", Q.sub(pr[0], 1)), ("max", Q.sub(pr[0], 1))]
            ok = True if got == want else (False if all(g[0] for g in got) else None)
        ctx.check("R5", qn + "|bounding-box-of-projected", ok, "returns (E.min, E.max, N.min, N.max) of the projected grid",
                  bad="returns %s" % show(v)[:120], fn=qn)


def r6_maxabs(ctx):
    qn = "verde.utils.maxabs"
    n = 0
    for p in ctx.paths(qn):
        if p.exit != "return":
            continue
        nan = lookup(p.decided, ("param", "nan"))
        MIN, MAX = ("numpy.nanmin", "numpy.nanmax") if nan else ("numpy.min", "numpy.max")
        tag = "nan" if nan else "plain"
        v = p.value
        ok, why = None, ""
        if v[0] == "call" and v[1][0] == "glob" and len(v[2]) == 1 and v[2][0][0] == "comp":
            outer = v[1][1]
            c = v[2][0]
            elt = c[2]
            if elt[0] == "call" and elt[1][0] == "glob" and len(elt[2]) == 1 and elt[2][0][0] == "call" and callee(elt[2][0]) in ("numpy.abs", "numpy.absolute", "numpy.fabs"):
                inner = elt[1][1]
                pair = elt[2][0][2][0]
                if pair[0] in ("list", "tuple") and len(pair[1]) == 2 and all(x[0] == "call" and x[1][0] == "glob" and len(x[2]) == 1 for x in pair[1]):
                    fns = {pair[1][0][1][1], pair[1][1][1][1]}
                    a0 = pair[1][0][2][0]
                    while a0[0] == "call" and callee(a0) in ("numpy.atleast_1d", "numpy.asarray", "numpy.array") and len(a0[2]) == 1 and not a0[3]:
                        a0 = a0[2][0]
                    same_elem = pair[1][0][2][0] == pair[1][1][2][0] and a0[0] == "elem"
                    all_arrays = a0[0] == "elem" and a0[1] == ("param", "*args") and c[3] == ("param", "*args")
                    if outer == MAX and inner == MAX and fns == {MIN, MAX} and same_elem and all_arrays:
                        ok = True
                    else:
                        names = {outer, inner} | fns
                        known = {"numpy.min", "numpy.max", "numpy.nanmin", "numpy.nanmax"}
                        if names <= known and same_elem and not (outer == MAX and inner == MAX and fns == {MIN, MAX}):
                            ok, why = False, "uses outer=%s inner=%s over %s (expected %s of %s of |%s, %s|)" % (outer, inner, sorted(fns), MAX, MAX, MIN, MAX)
        n += 1
        ctx.check("R6", "%s|formula|%s" % (qn, tag), ok, "maxabs == %s_i %s(|%s a_i|, |%s a_i|) over every argument" % (MAX.split(".")[1], MAX.split(".")[1], MIN.split(".")[1], MAX.split(".")[1]),
                  bad="maxabs " + why, fn=qn)
    if n < 2:
        ctx.add("R6", qn + "|paths", "UNDECIDED", "nan and plain paths not both found", fn=qn)


USERS = [
    # (function, what must not happen before check_region, region term expected at the check)
    ("verde.coordinates.grid_coordinates", "verde.coordinates.line_coordinates"),
    ("verde.coordinates.scatter_points", ".uniform"),
    ("verde.coordinates.inside", None),
    ("verde.projections.project_grid", "verde.chain.Chain"),
]


def r7_check_region(ctx):
    qn = CR
    reg = ("param", "region")
    paths = ctx.paths(qn)

    def raising(pred):
        return any(p.exit == "raise" and p.conds and p.conds[-1][1] and pred(p.conds[-1][0]) for p in paths)
    def is_len(t):
        return t[0] == "call" and callee(t) == "builtins.len"

    def not_four(c):
        if c[0] == "cmp" and c[1] == "!=" and c[3] == const(4) and is_len(c[2]):
            return True
        if c[0] == "boolop" and c[1] == "Or":           # len(region) < 4 or len(region) > 4
            ops = {x[1] for x in c[2] if x[0] == "cmp" and x[3] == const(4) and is_len(x[2])}
            return {"<", ">"} <= ops
        return False
    ok_len = raising(not_four)
    ctx.check("R7", qn + "|raises|length", True if ok_len else False, "a region without exactly 4 values raises", bad="regions of the wrong length are accepted", fn=qn)
    for nm, i, j in (("west>east", 0, 1), ("south>north", 2, 3)):
        strict = raising(lambda c: c == ("cmp", ">", Q.sub(reg, i), Q.sub(reg, j)) or c == ("cmp", "<", Q.sub(reg, j), Q.sub(reg, i)))
        closed = raising(lambda c: c == ("cmp", ">=", Q.sub(reg, i), Q.sub(reg, j)) or c == ("cmp", "<=", Q.sub(reg, j), Q.sub(reg, i)))
        # the same test written on the DIFFERENCE of the bounds (e - w < 0) is not the same test: for unsigned integer bounds the difference
        # wraps around to a large positive number exactly when W > E, so the invalid region is accepted
        def diff_form(c):
            if c[0] == "cmp" and c[1] in ("<", ">", "<=", ">=") and is_const(c[3]) and c[3][1] == 0 and c[2][0] == "binop" and c[2][1] == "-":
                return {c[2][2], c[2][3]} == {Q.sub(reg, i), Q.sub(reg, j)}
            return False
        by_difference = raising(diff_form)
        why = "non-strict: degenerate regions are rejected" if closed else "missing"
        if not strict and not closed and by_difference:
            why = ("made on the difference of the two bounds: for bounds of an unsigned integer dtype the difference wraps around instead of becoming negative, "
                   "so %s is accepted (the documented test compares the bounds themselves)" % nm)
        ctx.check("R7", "%s|raises|%s" % (qn, nm), True if strict else (False if closed or not any(p.exit == "raise" for p in paths) else False),
                  "region[%d] > region[%d] raises (strict: degenerate regions pass)" % (i, j),
                  bad="the %s test is %s" % (nm, why), fn=qn)
    falls = [p for p in paths if p.normal]
    ctx.check("R7", qn + "|valid-regions-pass", True if falls else False, "a valid region passes without an exception", bad="check_region never returns normally", fn=qn)
    # reachability from the functions that generate from / test against a region
    for user, use in USERS:
        ups = ctx.paths(user)
        verdict, why, line = "DISCHARGED", "", None
        seen = False
        for p in ups:
            if not p.normal:
                continue
            idx = [i for i, e in enumerate(p.events) if e.kind == "call" and callee(e.data[0]) == CR]
            if not idx:
                verdict, why, line = "VIOLATED", "a normal path never calls check_region", p.line
                break
            seen = True
            if use is not None:
                u = Q.first_index(p, lambda e: e.kind == "call" and callee(e.data[0]) == use)
                if u is not None and u < idx[0]:
                    verdict, why, line = "VIOLATED", "%s is used before check_region" % use, p.events[u].line
                    break
            arg = p.events[idx[0]].data[0][2][0] if p.events[idx[0]].data[0][2] else None
            if user != "verde.projections.project_grid" and arg != reg:
                verdict, why, line = ("UNDECIDED", "check_region receives %s" % (show(arg)[:60] if arg else None), p.events[idx[0]].line) if verdict == "DISCHARGED" else (verdict, why, line)
        if not seen and verdict == "DISCHARGED":
            verdict, why = "UNDECIDED", "no normal path found"
        ctx.add("R7", "%s|reaches-check_region" % user, verdict, why or "every normal path validates the region before using it", fn=user, line=line)
    # the CheckerBoard default region is validated when read
    qn2 = "verde.synthetic.CheckerBoard.region_"
    ok = all(any(e.kind == "call" and callee(e.data[0]) == CR and e.data[0][2] == (Q.self_attr("region"),) for e in p.events) for p in ctx.paths(qn2) if p.normal)
    ctx.check("R7", qn2 + "|reaches-check_region", True if ok else False, "the region_ property validates self.region", bad="CheckerBoard.region_ no longer validates the region", fn=qn2)
    # callers that hand their own region on unchanged
    for user, cal in (("verde.coordinates.block_split", "verde.coordinates.grid_coordinates"), ("verde.projections.project_region", "verde.coordinates.grid_coordinates")):
        K.forwarding(ctx, "R7", user, cal, {"region": (lambda g: True if g is not None and g != "unknown" and (g == reg or (g[0] == "call" and callee(g) == "verde.coordinates.get_region")) else None)},
                     key="region-validated-by-callee")


def check(ctx):
    r1_get_region(ctx)
    r2_pad_region(ctx)
    r3_inside(ctx)
    r4_scatter(ctx)
    r5_project_region(ctx)
    r6_maxabs(ctx)
    r7_check_region(ctx)
    from . import c07
    c07.exact_stop(ctx, "R8")
    ctx.alias = {"R2": "R8"}
    try:
        c07.r2_line_coordinates(ctx)
    finally:
        ctx.alias = {}
