"""C05 - grid / profile / scatter place each prediction at the right coordinate (DESIGN §4 C05)."""
import ast

from .. import q as Q
from ..paths import lookup
from ..terms import callee, canon, const, is_const, kw, show, walk, NONE
from . import common as K

EXPLANATION = ("role/axis typing (engine B) of every coordinate, name and region flowing through grid/scatter/profile and the grid "
               "builders, plus projection-label and plumbing checks on every path")
RULES = {
    "R1": "grid: region default, coordinates from grid_coordinates/meshgrid_from_1d, predict sees RAW or PROJ coordinates as the projection "
          "requires, make_xarray_grid receives the RAW coordinates, the prediction and (northing, easting) dims",
    "R2": "make_xarray_grid pairs dims[1] with easting and dims[0] with northing; variables are (dims, array) with unreversed dims",
    "R3": "mesh slicing directions in meshgrid_to_1d/check_meshgrid; meshgrid_from_1d calls np.meshgrid(easting, northing)",
    "R4": "profile: both end points projected or neither, predict on Cartesian coordinates, inverse projection of the output, column pairing",
    "R5": "scatter: points from scatter_points(region, size, random_state), same pairing and projection labels",
    "R6": "project_coordinates applies the projection to the first two coordinates only and appends the rest unchanged",
    "R7": "the dataset and each of its variables carry metadata derived from repr(self)",
    "R8": "defaults: region_ fallback, class dims, data name defaults",
}
ASSUMPTIONS = ["the predicted values themselves are declined (C01-C03)"]

PC = "verde.base.base_classes.project_coordinates"
GRID = "verde.base.base_classes.BaseGridder.grid"
SCATTERS = ["verde.base.base_classes.BaseGridder.scatter", "verde.synthetic.CheckerBoard.scatter"]
PROFILE = "verde.base.base_classes.BaseGridder.profile"


def labels(t):
    out = set()
    for x in walk(t):
        if x[0] == "call" and callee(x) == PC:
            out.add("INV" if kw(x, "inverse") == const(True) else "PROJ")
        if x[0] == "call" and x[1] == ("param", "projection"):
            out.add("INV" if kw(x, "inverse") == const(True) else "PROJ")
    return out


def proj_is_none(p):
    return lookup(p.decided, ("cmp", "is", ("param", "projection"), NONE))


def predict_calls(p):
    return [e for e in p.events if e.kind == "call" and e.data[0][1] == ("attr", Q.SELF, "predict")]


def predict_terms(p):
    return [e.data[0] for e in predict_calls(p)]


def r1_grid(ctx):
    qn = GRID
    paths = [p for p in ctx.paths(qn) if p.exit == "return"]
    if len(paths) < 6:
        ctx.add("R1", qn + "|paths", "UNDECIDED", "only %d return paths (expected 6: 3 coordinate sources x projection or not)" % len(paths), fn=qn)
    for p in paths:
        mk = [e for e in p.events if e.kind == "call" and callee(e.data[0]) == "verde.utils.make_xarray_grid"]
        pc = predict_calls(p)
        tag = "proj" if proj_is_none(p) is False else "noproj"
        given = lookup(p.decided, ("cmp", "is", ("param", "coordinates"), NONE)) is False
        src = "given" if given else "generated"
        if len(mk) != 1 or len(pc) != 1:
            ctx.add("R1", "%s|shape|%s,%s" % (qn, src, tag), "UNDECIDED", "expected one predict and one make_xarray_grid call on the path", fn=qn, line=p.line)
            continue
        m, pr = mk[0].data[0], pc[0].data[0]
        coords = Q.arg(ctx, m, "coordinates")
        # grid coordinates handed to the Dataset are unprojected
        lab = labels(coords)
        ctx.check("R1", "%s|make_xarray_grid-coordinates-RAW|%s,%s" % (qn, src, tag), (not lab) if coords not in (None, "unknown") else None,
                  "make_xarray_grid receives the unprojected grid coordinates", bad="make_xarray_grid receives %s coordinates: %s" % (sorted(lab), show(coords)[:80]),
                  fn=qn, line=mk[0].line)
        # what predict sees
        parg = pr[2][0] if pr[2] else None
        if parg is None:
            ctx.add("R1", "%s|predict-argument|%s,%s" % (qn, src, tag), "UNDECIDED", "predict called without a positional argument", fn=qn)
        elif tag == "noproj":
            ok = True if canon(parg) == canon(coords) else (False if labels(parg) else None)
            ctx.check("R1", "%s|predict-argument|%s,%s" % (qn, src, tag), ok, "without a projection predict receives the grid coordinates themselves",
                      bad="predict receives %s without a projection" % show(parg)[:80], fn=qn, line=pc[0].line)
        else:
            want = ("call", ("glob", PC), (coords, ("param", "projection")), (), 0)
            ok = True if canon(parg) == canon(want) else (False if (not labels(parg) or "INV" in labels(parg) or canon(parg) == canon(coords)) else None)
            ctx.check("R1", "%s|predict-argument|%s,%s" % (qn, src, tag), ok, "with a projection predict receives project_coordinates(grid coordinates, projection)",
                      bad="with a projection predict receives %s" % show(parg)[:100], fn=qn, line=pc[0].line)
        # data = check_data(prediction); dims, names
        data = Q.arg(ctx, m, "data")
        ok = data not in (None, "unknown") and canon(Q.unwrap(data)) == canon(pr)
        ctx.check("R1", "%s|make_xarray_grid-data|%s,%s" % (qn, src, tag), True if ok else None, "the data variables are the prediction at those coordinates", fn=qn)
        dims = Q.arg(ctx, m, "dims")
        wantd = ("call", ("attr", Q.SELF, "_get_dims"), (("param", "dims"),), (), 0)
        okd = True if dims not in (None, "unknown") and canon(dims) == canon(wantd) else (False if dims is None else None)
        ctx.check("R1", "%s|make_xarray_grid-dims|%s,%s" % (qn, src, tag), okd, "dims come from self._get_dims(dims)",
                  bad="make_xarray_grid is called without dims (falls back to a fixed default, ignoring the argument / class dims)", fn=qn)
        # coordinate source
        if not given:
            gc = [e.data[0] for e in p.events if e.kind == "call" and callee(e.data[0]) == "verde.coordinates.grid_coordinates"]
            okc = len(gc) == 1 and canon(coords) == canon(gc[0])
            ctx.check("R1", "%s|coordinates-from-grid_coordinates|%s" % (qn, tag), True if okc else None, "generated coordinates are the grid_coordinates result", fn=qn)
            if gc:
                g = gc[0]
                reg = Q.arg(ctx, g, "region")
                wantr = ("call", ("glob", "verde.base.base_classes.get_instance_region"), (Q.SELF, ("param", "region")), (), 0)
                okr = True if reg not in (None, "unknown") and canon(reg) == canon(wantr) else (False if reg == ("param", "region") else None)
                ctx.check("R1", "%s|region-default|%s" % (qn, tag), okr, "the region is get_instance_region(self, region) (defaults to the fitted data's bounding box)",
                          bad="grid_coordinates receives the raw region argument: the region_ default is lost", fn=qn)
                for nm in ("shape", "spacing"):
                    v = Q.arg(ctx, g, nm)
                    okv = True if v == ("param", nm) else (False if v is None or (v not in (None, "unknown") and v[0] == "param") or (v not in (None, "unknown") and is_const(v)) else None)
                    ctx.check("R1", "%s|grid_coordinates-%s|%s" % (qn, nm, tag), okv, "%s is forwarded under its own name" % nm,
                              bad="grid_coordinates receives %s=%s" % (nm, show(v) if isinstance(v, tuple) else v), fn=qn)
                ctx.check("R1", "%s|grid_coordinates-kwargs|%s" % (qn, tag), True if any(k is None and v == ("param", "**kwargs") for k, v in g[3]) else False,
                          "adjust/pixel_register/extra_coords travel through **kwargs", bad="**kwargs (adjust, pixel_register, extra_coords) are not forwarded to grid_coordinates", fn=qn)
        else:
            one_d = any(c[0] == "cmp" and c[1] == "==" and c[3] == const(1) and v for c, v in p.conds)
            if one_d:
                want = ("call", ("glob", "verde.utils.meshgrid_from_1d"), (("param", "coordinates"),), (), 0)
                ctx.check("R1", "%s|given-1d-coordinates|%s" % (qn, tag), True if canon(coords) == canon(want) else None,
                          "1-D coordinates go through meshgrid_from_1d", fn=qn)
            else:
                okm = any(e.kind == "call" and callee(e.data[0]) == "verde.utils.check_meshgrid" and e.data[0][2] == (("param", "coordinates"),) for e in p.events)
                ctx.check("R1", "%s|given-2d-coordinates|%s" % (qn, tag), True if (okm and coords == ("param", "coordinates")) else (False if not okm else None),
                          "2-D coordinates are used as given after check_meshgrid", bad="2-D coordinates are not validated by check_meshgrid", fn=qn)
    K.roles_rule(ctx, "R1", [qn], with_return=False, require={qn: [{"region-arg"}, {"coords-arg", "dims-arg"}]})


def r2_make_xarray_grid(ctx, rule="R2"):
    qn = "verde.utils.make_xarray_grid"
    K.roles_rule(ctx, rule, [qn], with_return=False, require={qn: [{"dict-entry", "zip-name-array", "name-array-pair"}]})
    paths = [p for p in ctx.paths(qn) if p.exit == "return"]
    dims = ("param", "dims")
    n_dv = n_ex = 0
    for p in paths:
        ds = [e.data[0] for e in p.events if e.kind == "call" and callee(e.data[0]) == "xarray.Dataset"]
        if len(ds) != 1:
            ctx.add(rule, qn + "|dataset-call", "UNDECIDED", "expected one xr.Dataset construction per path", fn=qn)
            continue
        dv = Q.arg(ctx, ds[0], "data_vars")
        co = Q.arg(ctx, ds[0], "coords")
        if dv is not None and dv != "unknown" and dv[0] == "comp":
            n_dv += 1
            elt = dv[2]
            ok = None
            if elt[0] == "tuple" and len(elt[1]) == 2 and elt[1][1][0] == "tuple" and len(elt[1][1][1]) == 2:
                name_t, (d_t, val_t) = elt[1][0], elt[1][1][1]
                instep = name_t[0] == "elem" and val_t[0] == "elem" and name_t[2] == val_t[2]
                names_ok = name_t[0] == "elem" and callee_is(name_t[1], "verde.base.utils.check_data_names")
                vals_ok = val_t[0] == "elem" and Q.unwrap(val_t[1]) == ("param", "data")
                if d_t == dims and instep and names_ok and vals_ok:
                    ok = True
                elif Q.is_reversed(d_t, dims):
                    ok = False
                elif not instep and name_t[0] == "elem" and val_t[0] == "elem":
                    ok = None
            ctx.check(rule, qn + "|data-variables|(dims, value)", ok, "each data variable is (dims, value) with unreversed dims, names and values zipped in step",
                      bad="data variables are built with reversed dims: values land transposed", fn=qn)
        if co is not None and co != "unknown" and co[0] == "dict":
            for k, v in co[1]:
                if k is not None and k[0] == "elem":
                    n_ex += 1
                    ok = None
                    if v[0] == "tuple" and len(v[1]) == 2:
                        if v[1][0] == dims and v[1][1][0] == "elem" and v[1][1][2] == k[2]:
                            ok = True
                        elif Q.is_reversed(v[1][0], dims):
                            ok = False
                    why = "extra coordinates use reversed dims"
                    if ok is None and v[0] == "tuple" and len(v[1]) == 2 and v[1][0][0] in ("tuple", "list") and all(is_const(x) for x in v[1][0][1]):
                        ok, why = False, "extra coordinates are attached to the fixed dims %s instead of the dims argument: with custom dims they do not sit on the grid's dimensions" % show(v[1][0])
                    ctx.check(rule, qn + "|extra-coordinate|(dims, value)", ok, "each extra coordinate is (dims, array), name and array from the same zip step",
                              bad=why, fn=qn)
                elif k is None and v[0] == "comp" and v[2][0] == "tuple" and len(v[2][1]) == 2 and v[2][1][1][0] == "tuple" and len(v[2][1][1][1]) == 2:
                    # the same entries added through coords.update({name: (dims, array) for ...})
                    n_ex += 1
                    name_t, (d_t, val_t) = v[2][1][0], v[2][1][1][1]
                    ok, why = None, "extra coordinates use reversed dims"
                    if d_t == dims and name_t[0] == "elem" and val_t[0] == "elem" and name_t[2] == val_t[2]:
                        ok = True
                    elif Q.is_reversed(d_t, dims):
                        ok = False
                    elif d_t[0] in ("tuple", "list") and all(is_const(x) for x in d_t[1]):
                        ok, why = False, "extra coordinates are attached to the fixed dims %s instead of the dims argument: with custom dims they do not sit on the grid's dimensions" % show(d_t)
                    ctx.check(rule, qn + "|extra-coordinate|(dims, value)", ok, "each extra coordinate is (dims, array), name and array from the same zip step", bad=why, fn=qn)
    if not n_dv or not n_ex:
        ctx.add(rule, qn + "|coverage", "UNDECIDED", "data-variable / extra-coordinate constructions not found (%d, %d)" % (n_dv, n_ex), fn=qn)
    # validation of names precedes their use
    K.precedes(ctx, rule, qn, K.is_call("verde.base.utils.check_data_names"),
               lambda e: e.kind == "call" and callee(e.data[0]) == "xarray.Dataset" and Q.arg(ctx, e.data[0], "data_vars") not in (None, NONE),
               "check_data_names-before-Dataset", "data names are validated against the data before the Dataset is built")


def callee_is(t, name):
    return t[0] == "call" and callee(t) == name


def r3_mesh(ctx, rule="R3"):
    K.roles_rule(ctx, rule, ["verde.utils.meshgrid_to_1d", "verde.utils.meshgrid_from_1d", "verde.utils.check_meshgrid"],
                 require={"verde.utils.meshgrid_to_1d": [{"mesh-slice"}], "verde.utils.meshgrid_from_1d": [{"meshgrid-operands"}], "verde.utils.check_meshgrid": [{"mesh-slice"}]})
    # meshgrid_to_1d validates first
    qn = "verde.utils.meshgrid_to_1d"
    for p in ctx.paths(qn):
        if p.exit != "return":
            continue
        els = Q.unseq(p.value)
        els = els[1] if els[0] in ("tuple", "list") else ()
        srt = [x for x in els[:2] if isinstance(x, tuple) and any(y[0] == "call" and callee(y) in ("numpy.unique", "numpy.sort", "builtins.sorted", "pandas.unique") for y in walk(x) if isinstance(y, tuple) and y)]
        ctx.check(rule, qn + "|vectors-in-the-given-order", False if srt else True, "the 1-D vectors are taken from the 2-D arrays in the order given (first row / first column)",
                  bad="a coordinate vector is produced by %s: coordinates that decrease with the index (north-up rasters) come back re-ordered while the data rows keep their order" % (show(srt[0])[:60] if srt else ""), fn=qn)
    K.precedes(ctx, rule, qn, K.is_call("verde.utils.check_meshgrid"), lambda e: False, "check_meshgrid-called", "", require_second=False)
    ok = all(any(e.kind == "call" and callee(e.data[0]) == "verde.utils.check_meshgrid" for e in p.events) for p in ctx.paths(qn) if p.normal)
    ctx.check(rule, qn + "|validates-meshgrid", ok, "2-D inputs are checked to be meshgrids on every normal path", bad="meshgrid_to_1d no longer rejects non-meshgrid 2-D inputs", fn=qn)
    # check_meshgrid raises on both directions
    qn = "verde.utils.check_meshgrid"
    east, north = Q.sub(("param", "coordinates"), 0), Q.sub(("param", "coordinates"), 1)

    def close_tests(c):
        """the arrays whose meshgrid test (an allclose / array_equal call) occurs in condition c"""
        out = set()
        for x in walk(c):
            if isinstance(x, tuple) and x and x[0] == "call" and callee(x) in ("numpy.allclose", "numpy.array_equal", "numpy.all"):
                for arr, nm in ((east, "E"), (north, "N")):
                    if any(y == arr for y in walk(x)):
                        out.add(nm)
        return out
    rejecting = set()
    for p in ctx.paths(qn):
        if p.exit == "raise" and p.conds:
            rejecting |= close_tests(p.conds[-1][0])
    n = sum(1 for p in ctx.paths(qn) if p.exit == "raise")
    ctx.check(rule, qn + "|raises-both-directions", True if rejecting == {"E", "N"} else False, "non-meshgrid easting and northing each raise",
              bad="the raising paths of check_meshgrid test %s only (%d raising path(s))" % (sorted(rejecting) or "nothing", n), fn=qn)
    # must-pass-through: the ONLY way to return normally is to have passed both tests (an early return for "trivial" shapes accepts
    # one-row / one-column arrays whose other coordinate varies, and meshgrid_to_1d then collapses it to its first value)
    def tested(p, arr):
        # the test held on this path: it is a decision of its own, or a conjunct of a conjunction that held (`not (a and b)` raising otherwise)
        for c, v in p.conds:
            if not v:
                continue
            parts = c[2] if c[0] == "boolop" and c[1] == "And" else (c,)
            if any(x[0] == "call" and callee(x) in ("numpy.allclose", "numpy.array_equal", "numpy.all") and any(y == arr for y in walk(x)) for x in parts):
                return True
        return False
    normal = [p for p in ctx.paths(qn) if p.normal]
    bad = [p for p in normal if not (tested(p, east) and tested(p, north))]
    ctx.check(rule, qn + "|every-accepting-path-tests-both", False if bad else (True if normal else None), "every path that accepts the input has compared easting along axis 0 and northing along axis 1",
              bad="a path returns without testing %s: such input is accepted as a meshgrid unchecked" % ("easting and northing" if bad and not tested(bad[0], east) and not tested(bad[0], north) else "one of the two arrays"),
              fn=qn, line=bad[0].line if bad else None)


def r4_profile(ctx):
    qn = PROFILE
    K.roles_rule(ctx, "R4", [qn], with_return=False, require={qn: [{"name-array-pair", "dict-entry"}]})
    for p in ctx.paths(qn):
        if p.exit != "return":
            continue
        tag = "proj" if lookup(p.decided, ("cmp", "is", ("param", "projection"), NONE)) is False else "noproj"
        pcs = [e.data[0] for e in p.events if e.kind == "call" and callee(e.data[0]) == "verde.coordinates.profile_coordinates"]
        pr = predict_terms(p)
        other_pcs = []
        if len(pcs) > 1 and len(pr) == 1 and pr[0][2]:
            # several profiles are built: the one the prediction is evaluated on is THE profile, the others are judged where they are used
            fed = [c for c in pcs if any(x == c for x in walk(pr[0][2][0]) if isinstance(x, tuple))]
            if len(fed) == 1:
                other_pcs = [c for c in pcs if c != fed[0]]
                pcs = fed
        if len(pcs) != 1 or len(pr) != 1:
            ctx.add("R4", "%s|shape|%s" % (qn, tag), "UNDECIDED", "expected one profile_coordinates and one predict call", fn=qn)
            continue
        pc = pcs[0]
        a1, a2, sz = (Q.arg(ctx, pc, n) for n in ("point1", "point2", "size"))
        if tag == "proj":
            w1 = ("call", ("glob", PC), (("param", "point1"), ("param", "projection")), (), 0)
            w2 = ("call", ("glob", PC), (("param", "point2"), ("param", "projection")), (), 0)
        else:
            w1, w2 = ("param", "point1"), ("param", "point2")

        def tri(got, want, other):
            if got in (None, "unknown"):
                return None
            if canon(got) == canon(want):
                return True
            if canon(got) == canon(other) or got in (("param", "point1"), ("param", "point2")):
                return False
            return None
        ctx.check("R4", "%s|profile_coordinates-point1|%s" % (qn, tag), tri(a1, w1, w2), "point1 reaches profile_coordinates %s" % ("projected" if tag == "proj" else "as given"),
                  bad="profile_coordinates receives point1=%s" % show(a1)[:80], fn=qn)
        ctx.check("R4", "%s|profile_coordinates-point2|%s" % (qn, tag), tri(a2, w2, w1), "point2 reaches profile_coordinates %s" % ("projected" if tag == "proj" else "as given"),
                  bad="profile_coordinates receives point2=%s" % show(a2)[:80], fn=qn)
        for nm, a in (("point1", a1), ("point2", a2)):
            if isinstance(a, tuple) and a[0] == "tuple" and len(a[1]) == 2 and all(x[0] == "sub" and x[1][0] == "sub" and x[1][1][0] == "call" for x in a[1]):
                (e_, n_) = a[1]
                same_call = e_[1][1] == n_[1][1]
                if same_call and e_[1][2] != n_[1][2] and is_const(e_[2]) and is_const(n_[2]):
                    ctx.check("R4", "%s|end-point-index-alignment|%s|%s" % (qn, nm, tag), True if e_[2] == n_[2] else False,
                              "%s takes its easting and northing from the same position of the projected arrays" % nm,
                              bad="%s = (projected easting[%s], projected northing[%s]): easting and northing of different points are combined" % (nm, e_[2][1], n_[2][1]), fn=qn)
        ctx.check("R4", "%s|profile_coordinates-size|%s" % (qn, tag), True if sz == ("param", "size") else None, "size is forwarded", fn=qn)
        cart = Q.sub(pc, 0)
        parg = pr[0][2][0] if pr[0][2] else None
        ctx.check("R4", "%s|predict-on-cartesian|%s" % (qn, tag), True if parg is not None and canon(parg) == canon(cart) else (False if parg is not None and "INV" in labels(parg) else None),
                  "predict is evaluated on the Cartesian profile coordinates", bad="predict sees the inverse-projected coordinates", fn=qn)
        # output columns
        df = [e.data[0] for e in p.events if e.kind == "call" and callee(e.data[0]) == "pandas.DataFrame"]
        if len(df) != 1:
            ctx.add("R4", "%s|dataframe|%s" % (qn, tag), "UNDECIDED", "expected one DataFrame construction", fn=qn)
            continue
        d = Q.arg(ctx, df[0], "data")
        cols = {}
        if d not in (None, "unknown") and d[0] == "dict":
            for k, v in d[1]:
                if k is not None:
                    cols[canon(k)] = v
        dist = cols.get(const("distance"))
        ok = None
        if dist is not None:
            ok = True if canon(dist) == canon(Q.sub(pc, 1)) else (False if canon(dist) in (canon(Q.sub(cart, 0)), canon(Q.sub(cart, 1))) or labels(dist) else None)
        ctx.check("R4", "%s|distance-column|%s" % (qn, tag), ok, "'distance' is the second result of profile_coordinates (Cartesian distances)",
                  bad="'distance' column is %s" % (show(dist)[:80] if dist else None), fn=qn)
        coordcols = [v for k, v in cols.items() if k != const("distance")]
        if tag == "proj":
            want = ("call", ("glob", PC), (cart, ("param", "projection")), (("inverse", const(True)),), 0)
            good = [v for v in coordcols if v[0] == "sub" and canon(v[1]) == canon(want)]
            raw = [v for v in coordcols if v[0] == "sub" and canon(v[1]) == canon(cart)]
            fwd = [v for v in coordcols if "PROJ" in labels(v) and "INV" not in labels(v) and not any(x[0] == "call" and x[1] == ("attr", Q.SELF, "predict") for x in walk(v))]
            foreign = [v for v in coordcols if any(x == c for c in other_pcs for x in walk(v) if isinstance(x, tuple)) and not any(x == pc for x in walk(v) if isinstance(x, tuple))]
            ctx.check("R4", "%s|coordinate-columns-inverse-projected" % qn, True if len(good) >= 2 else (False if raw or fwd or foreign else None),
                      "output coordinates are mapped back with projection(..., inverse=True)",
                      bad="output coordinates come from a second profile_coordinates call, not from the (inverse-projected) points the data were predicted at: a straight segment between the "
                          "unprojected end points is not the image of the Cartesian profile" if foreign and not (raw or fwd) else "output coordinates are left in projected units", fn=qn)
        else:
            good = [v for v in coordcols if v[0] == "sub" and canon(v[1]) == canon(cart)]
            ctx.check("R4", "%s|coordinate-columns-raw" % qn, True if len(good) >= 2 else None, "output coordinates are the profile coordinates", fn=qn)


def r5_scatter(ctx):
    for qn in SCATTERS:
        K.roles_rule(ctx, "R5", [qn], with_return=False, require={qn: [{"name-array-pair", "dict-entry"}, {"region-arg"}]})
        for p in ctx.paths(qn):
            if p.exit != "return":
                continue
            tag = "proj" if proj_is_none(p) is False else "noproj"
            sp = [e.data[0] for e in p.events if e.kind == "call" and callee(e.data[0]) == "verde.coordinates.scatter_points"]
            pr = predict_terms(p)
            if len(sp) != 1 or len(pr) != 1:
                ctx.add("R5", "%s|shape|%s" % (qn, tag), "UNDECIDED", "expected one scatter_points and one predict call", fn=qn)
                continue
            s = sp[0]
            reg = Q.arg(ctx, s, "region")
            wantr = ("call", ("glob", "verde.base.base_classes.get_instance_region"), (Q.SELF, ("param", "region")), (), 0)
            ctx.check("R5", "%s|region-default|%s" % (qn, tag), True if reg not in (None, "unknown") and canon(reg) == canon(wantr) else (False if reg == ("param", "region") else None),
                      "region is get_instance_region(self, region)", bad="scatter_points receives the raw region argument", fn=qn)
            for nm in ("size", "random_state"):
                v = Q.arg(ctx, s, nm, caller=qn)
                ctx.check("R5", "%s|scatter_points-%s|%s" % (qn, nm, tag), True if v == ("param", nm) else (False if v is None or (isinstance(v, tuple) and (is_const(v) or v[0] == "param")) else None),
                          "%s is forwarded under its own name" % nm, bad="scatter_points receives %s=%s" % (nm, show(v) if isinstance(v, tuple) else v), fn=qn)
            parg = pr[0][2][0] if pr[0][2] else None
            if tag == "noproj":
                ok = True if parg is not None and canon(parg) == canon(s) else (False if parg is not None and labels(parg) else None)
            else:
                want = ("call", ("glob", PC), (s, ("param", "projection")), (), 0)
                ok = True if parg is not None and canon(parg) == canon(want) else (False if parg is not None and (not labels(parg) or "INV" in labels(parg)) else None)
            ctx.check("R5", "%s|predict-argument|%s" % (qn, tag), ok, "predict sees the scatter points (projected exactly when a projection is given)",
                      bad="predict receives %s" % (show(parg)[:80] if parg else None), fn=qn)
            df = [e.data[0] for e in p.events if e.kind == "call" and callee(e.data[0]) == "pandas.DataFrame"]
            if len(df) == 1:
                d = Q.arg(ctx, df[0], "data")
                lab = labels(("tuple", tuple(v for k, v in d[1] if k is not None and k[0] != "elem"))) if d not in (None, "unknown") and d[0] == "dict" else {"?"}
                # the data columns mention the projected coordinates through predict(...); only the coordinate columns matter
                coordvals = [v for k, v in (d[1] if d not in (None, "unknown") and d[0] == "dict" else ()) if k is not None and v[0] == "sub" and canon(v[1]) == canon(s)]
                ctx.check("R5", "%s|coordinate-columns-raw|%s" % (qn, tag), True if len(coordvals) >= 2 else None, "the output keeps the unprojected scatter coordinates", fn=qn)


def r6_project_coordinates(ctx):
    qn = PC
    for p in ctx.paths(qn):
        if p.exit != "return":
            continue
        more = any(c[0] == "cmp" and c[1] == ">" and v for c, v in p.conds)
        calls = [e.data[0] for e in p.events if e.kind == "call" and e.data[0][1] == ("param", "projection")]
        tag = "extra" if more else "two"
        if len(calls) != 1:
            ctx.add("R6", "%s|projection-call|%s" % (qn, tag), "UNDECIDED", "expected exactly one call of the projection", fn=qn)
            continue
        c = calls[0]
        co = ("param", "coordinates")
        ok = True if c[2] == (Q.sub(co, 0), Q.sub(co, 1)) else (False if c[2] == (Q.sub(co, 1), Q.sub(co, 0)) or len(c[2]) != 2 or any(a[0] == "star" for a in c[2]) else None)
        ctx.check("R6", "%s|projection-call|%s" % (qn, tag), ok, "the projection is applied to (coordinates[0], coordinates[1]) only",
                  bad="projection is called with %s" % show(("tuple", c[2]))[:80], fn=qn)
        kwok = any(k is None and v == ("param", "**kwargs") for k, v in c[3])
        ctx.check("R6", "%s|projection-kwargs|%s" % (qn, tag), True if kwok else False, "keyword arguments (inverse=True) are passed on to the projection",
                  bad="**kwargs (inverse=True) are not passed to the projection", fn=qn)
        if more:
            v = p.value
            rest = ("tuple", (("star", ("sub", co, ("slice", const(2), NONE, NONE))),))
            ok = v[0] == "binop" and v[1] == "+" and canon(v[2]) == canon(c) and canon(v[3]) == canon(rest)
            ctx.check("R6", "%s|extra-coordinates-appended" % qn, True if ok else None, "the remaining coordinates are appended unchanged and in order", fn=qn)
        else:
            ctx.check("R6", "%s|two-coordinates-result" % qn, True if canon(p.value) == canon(c) else None, "with two coordinates the projected pair is returned", fn=qn)


def r7_metadata(ctx):
    qn = GRID
    for p in ctx.paths(qn):
        if p.exit != "return":
            continue
        ds = p.value
        stores = [e for e in p.events if e.kind == "store" and e.data[1] == const("metadata")]
        on_ds = [e for e in stores if canon(e.data[0]) == canon(("attr", ds, "attrs"))]
        on_var = [e for e in stores if e.data[0][0] == "attr" and e.data[0][2] == "attrs" and e.data[0][1][0] == "sub" and canon(e.data[0][1][1]) == canon(ds)
                  and e.data[0][1][2][0] == "elem" and canon(e.data[0][1][2][1]) == canon(ds)]
        # one loop over (dataset, *dataset.data_vars.values()) / over [dataset] + [dataset[name] for name in dataset] writes both
        for e in stores:
            b = e.data[0]
            if b[0] == "attr" and b[2] == "attrs" and b[1][0] == "elem":
                seq = Q.unseq(b[1][1])
                items = seq[1] if seq[0] in ("tuple", "list") else ()
                if any(canon(x) == canon(ds) for x in items):
                    on_ds = on_ds or [e]
                if any(x[0] == "star" and any(canon(y) == canon(ds) for y in walk(x[1]) if isinstance(y, tuple)) for x in items):
                    on_var = on_var or [e]
        tag = Q.tags(p.conds[2:])
        for nm, hit in (("dataset", on_ds), ("variables", on_var)):
            if hit:
                val = hit[0].data[2]
                ok = any(x[0] == "call" and callee(x) == "builtins.repr" and x[2] == (Q.SELF,) for x in walk(val))
                ctx.check("R7", "%s|metadata-%s|%s" % (qn, nm, tag), True if ok else None, "%s metadata is derived from repr(self)" % nm, fn=qn)
            elif [e for e in stores if e not in on_ds and e not in on_var]:
                ctx.check("R7", "%s|metadata-%s|%s" % (qn, nm, tag), None, "", fn=qn, undecided="attrs['metadata'] is stored, but not recognisably on the %s" % nm)
            else:
                ctx.check("R7", "%s|metadata-%s|%s" % (qn, nm, tag), False, "", bad="no attrs['metadata'] store on the %s on this return path" % nm, fn=qn, line=p.line)


def r8_defaults(ctx):
    qn = "verde.base.base_classes.get_instance_region"
    ps = ctx.paths(qn)
    ret_arg = any(p.exit == "return" and p.value == ("param", "region") and lookup(p.decided, ("cmp", "is", ("param", "region"), NONE)) is False for p in ps)
    ret_def = any(p.exit == "return" and p.value == ("attr", ("param", "instance"), "region_") and lookup(p.decided, ("cmp", "is", ("param", "region"), NONE)) is True for p in ps)
    rs = any(p.exit == "raise" and lookup(p.decided, ("cmp", "is", ("param", "region"), NONE)) is True for p in ps)
    ctx.check("R8", qn + "|returns-argument", ret_arg, "a given region is returned as is", bad="a given region is not returned unchanged", fn=qn)
    ctx.check("R8", qn + "|falls-back-to-region_", ret_def, "region=None falls back to instance.region_", bad="region=None does not return instance.region_", fn=qn)
    ctx.check("R8", qn + "|raises-without-region_", rs, "no region and no region_ raises", bad="missing default region no longer raises", fn=qn)
    # region_ (the default gridding region) is the bounding box of the coordinates given to fit, for every gridder
    nfit = 0
    for cq, c in sorted(ctx.pkg.classes.items()):
        if "fit" not in c.methods or "verde.base.base_classes.BaseGridder" not in ctx.pkg.mro(cq):
            continue
        fq = c.methods["fit"].qual
        fa = ctx.an.fa(fq)
        if not fa.ok:
            ctx.add("R8", fq + "|region_-is-bounding-box-of-fit-coordinates", "UNDECIDED", fa.unsupported, fn=fq)
            continue
        verdict, why = None, ""
        seen = False
        for p in fa.paths:
            if not p.normal:
                continue
            regs = [e.data[2] for e in p.events if e.kind == "setattr" and e.data[1] == "region_" and e.data[0] == Q.SELF]
            if not regs:
                continue
            seen = True
            r = regs[-1]
            if r[0] == "call" and callee(r) == "verde.coordinates.get_region" and r[2]:
                a = r[2][0]
                if any(x[0] in ("mu", "prev") or (x[0] == "call" and callee(x) in (".filter", ".predict")) for x in walk(a)):
                    verdict, why = False, "region_ is computed from a filter/predict result, not from the coordinates given to fit"
                elif ("param", "coordinates") not in Q.leaves(a) and Q.leaves(a):
                    verdict, why = False, "region_ is the bounding box of %s, which is not derived from the coordinates given to fit" % show(a)[:60]
                elif Q.leaves(a) - {("param", "coordinates"), ("param", "data"), ("param", "weights")}:
                    verdict, why = (verdict if verdict is False else None), "region_ depends on %s" % sorted(show(x) for x in Q.leaves(a))
                elif ("param", "coordinates") in Q.leaves(a) and verdict is not False:
                    verdict = True if verdict in (None, True) and not why else verdict
            elif verdict is not False:
                verdict, why = None, "region_ is %s" % show(r)[:60]
        if seen:
            nfit += 1
            ctx.check("R8", fq + "|region_-is-bounding-box-of-fit-coordinates", verdict, "region_ = get_region(<coordinates given to fit>)", bad=why, fn=fq, undecided=why)
    if nfit < 6:
        ctx.add("R8", "fit-methods|region_-count", "UNDECIDED", "only %d fit methods setting region_ found" % nfit)
    qn = "verde.base.base_classes.BaseGridder._get_dims"
    ps = ctx.paths(qn)
    a = any(p.exit == "return" and p.value == ("param", "dims") and lookup(p.decided, ("cmp", "is", ("param", "dims"), NONE)) is False for p in ps)
    b = any(p.exit == "return" and p.value == Q.self_attr("dims") and lookup(p.decided, ("cmp", "is", ("param", "dims"), NONE)) is True for p in ps)
    ctx.check("R8", qn + "|argument-or-class-dims", True if a and b else False, "dims argument wins, else the class attribute", bad="_get_dims no longer returns the argument / class dims", fn=qn)
    c, expr = ctx.pkg.class_attr("verde.base.base_classes.BaseGridder", "dims")
    ok = isinstance(expr, ast.Tuple) and [getattr(e, "value", None) for e in expr.elts] == ["northing", "easting"]
    ctx.check("R8", "verde.base.base_classes.BaseGridder|class-dims", True if ok else False, "class dims are ('northing', 'easting')",
              bad="BaseGridder.dims is %s" % (ast.unparse(expr) if expr is not None else None))
    c, expr = ctx.pkg.class_attr("verde.base.base_classes.BaseGridder", "data_names_defaults")
    ok = isinstance(expr, ast.List) and all(isinstance(e, ast.Tuple) and len(e.elts) == i + 1 for i, e in enumerate(expr.elts))
    ctx.check("R8", "verde.base.base_classes.BaseGridder|data_names_defaults", True if ok else False, "entry k has k+1 names",
              bad="data_names_defaults[k] does not have k+1 names")
    qn = "verde.base.base_classes.BaseGridder._get_data_names"
    ps = ctx.paths(qn)
    want = ("sub", Q.self_attr("data_names_defaults"), ("binop", "-", ("call", ("glob", "builtins.len"), (("param", "data"),), (), 0), const(1)))
    a = any(p.exit == "return" and canon(p.value) == canon(want) for p in ps)
    b = any(p.exit == "return" and p.value[0] == "call" and callee(p.value) == "verde.base.utils.check_data_names" for p in ps)
    ctx.check("R8", qn + "|default-by-component-count", True if a else None, "defaults are indexed by len(data) - 1", fn=qn)
    ctx.check("R8", qn + "|given-names-validated", True if b else False, "given names go through check_data_names", bad="given data_names are not validated", fn=qn)


def check(ctx):
    r1_grid(ctx)
    r2_make_xarray_grid(ctx)
    r3_mesh(ctx)
    r4_profile(ctx)
    from . import c07
    ctx.alias = {"R5": "R4"}          # profile() places its points with profile_coordinates: the formula rule of C07.R5 is part of C05.R4
    try:
        c07.r5_profile(ctx)
    finally:
        ctx.alias = {}
    r5_scatter(ctx)
    r6_project_coordinates(ctx)
    r7_metadata(ctx)
    r8_defaults(ctx)


# names of functions whose role findings are outside every property (reported as notes, never as violations)
OUTSIDE = {"verde.coordinates._check_rolling_window_overlap": "only decides whether a warning is printed (DESIGN 5)"}


def check_thorough(ctx):
    """whole-package sweep of the axis/role checker: every function of the library, not only the anchors of R1-R8"""
    from .. import roles
    n_fn = n_sink = 0
    for qn in sorted(ctx.pkg.functions):
        if qn.startswith("verde.datasets.") or qn in OUTSIDE:
            continue
        fa = ctx.an.fa(qn)
        if not fa.ok:
            continue
        n_fn += 1
        before = len(ctx.obs)
        roles.check_paths(ctx, "R9", qn, fa.paths, roles.RETURNS.get(qn), sweep=True)
        n_sink += len(ctx.obs) - before
    for qn, why in OUTSIDE.items():
        if qn in ctx.pkg.functions:
            ctx.note("role findings in %s are not evaluated: %s" % (qn, why))
    ctx.check("R9", "verde|whole-package-role-sweep", True if n_fn > 100 and n_sink > 60 else None,
              "the axis/role checker visited %d functions and %d typed sinks of the whole package" % (n_fn, n_sink))


RULES["R9"] = "thorough tier: no typed sink anywhere in the package mixes easting and northing roles (whole-package sweep)"
