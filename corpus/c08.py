"""Seeded faults and neutral edits for C08."""
C, BU = "coordinates.py", "base/utils.py"
GCALL = "block_coords = grid_coordinates(region, spacing=spacing, shape=shape, adjust=adjust, pixel_register=True)"
ENTRIES = [
    dict(name="block centres not pixel registered", rule="R1", file=C, old=GCALL, new=GCALL.replace("pixel_register=True", "pixel_register=False")),
    dict(name="pixel_register omitted", rule="R1", file=C, old=GCALL, new=GCALL.replace(", pixel_register=True", "")),
    dict(name="adjust dropped", rule="R1", file=C, old=GCALL, new=GCALL.replace("adjust=adjust, ", "")),
    dict(name="shape passed as spacing", rule="R1", file=C, old=GCALL, new=GCALL.replace("spacing=spacing, shape=shape", "spacing=shape, shape=spacing")),
    dict(name="single-block shortcut guarded by len() of the 2-D centre grid (rows, not blocks)", rule="R3", file=C, old="    tree = kdtree(block_coords)\n    labels = tree.query(np.transpose(n_1d_arrays(coordinates, 2)))[1]\n",
         new="    if len(block_coords[0]) == 1:\n        labels = np.zeros(coordinates[0].size, dtype=int)\n    else:\n        tree = kdtree(block_coords)\n        labels = tree.query(np.transpose(n_1d_arrays(coordinates, 2)))[1]\n"),
    dict(name="neutral: single-block shortcut guarded by the size of the centre grid", expect="DISCHARGED", file=C, old="    tree = kdtree(block_coords)\n    labels = tree.query(np.transpose(n_1d_arrays(coordinates, 2)))[1]\n",
         new="    if block_coords[0].size == 1:\n        labels = np.zeros(coordinates[0].size, dtype=int)\n    else:\n        tree = kdtree(block_coords)\n        labels = tree.query(np.transpose(n_1d_arrays(coordinates, 2)))[1]\n"),
    dict(name="given region ignored", rule="R1", file=C, old="    coordinates = check_coordinates(coordinates)[:2]\n    if region is None:\n        region = get_region(coordinates)\n    block_coords",
         new="    coordinates = check_coordinates(coordinates)[:2]\n    region = get_region(coordinates)\n    block_coords"),
    dict(name="labels are distances ([0])", rule="R3", file=C, old="labels = tree.query(np.transpose(n_1d_arrays(coordinates, 2)))[1]", new="labels = tree.query(np.transpose(n_1d_arrays(coordinates, 2)))[0]"),
    dict(name="tree on reversed centres", rule="R2", file=C, old="    tree = kdtree(block_coords)\n", new="    tree = kdtree(block_coords[::-1])\n"),
    dict(name="query with (N, E)", rule="R2", file=C, old="labels = tree.query(np.transpose(n_1d_arrays(coordinates, 2)))[1]", new="labels = tree.query(np.transpose(n_1d_arrays(coordinates[::-1], 2)))[1]"),
    dict(name="returned centres reversed", rule="R4", file=C, old="return (n_1d_arrays(block_coords, len(block_coords)), labels)", new="return (n_1d_arrays(block_coords[::-1], len(block_coords)), labels)"),
    dict(name="n_1d_arrays flattens in F order", rule="R4", file=BU, old="return tuple((np.ravel(np.atleast_1d(i)) for i in arrays[:n]))", new="return tuple((np.ravel(np.atleast_1d(i), order='F') for i in arrays[:n]))"),
    dict(name="check_coordinates dropped", rule="R5", file=C, old="    coordinates = check_coordinates(coordinates)[:2]\n    if region is None:\n        region = get_region(coordinates)\n    block_coords",
         new="    coordinates = coordinates[:2]\n    if region is None:\n        region = get_region(coordinates)\n    block_coords"),
    dict(name="neutral: positional region and keyword order", expect="DISCHARGED", file=C, old=GCALL,
         new="block_coords = grid_coordinates(region=region, shape=shape, spacing=spacing, pixel_register=True, adjust=adjust)"),
    dict(name="neutral: temporaries for the query", expect="DISCHARGED", file=C, old="labels = tree.query(np.transpose(n_1d_arrays(coordinates, 2)))[1]",
         new="points = np.transpose(n_1d_arrays(coordinates, 2))\n    result = tree.query(points)\n    labels = result[1]"),
]
