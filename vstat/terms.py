"""Terms: hash-consed-by-value tuples that denote the values computed along one path.

Kinds (first element):
  const v | param name | glob qualname | attr base name | call f args kws ordinal
  sub base idx | slice lo hi step | tuple elts | list elts | set elts | dict pairs
  binop op a b | unop op a | cmp op a b | boolop op elts | ifexp c a b
  elem iter lid | idx lid | prev lid name init | mu lid name init next
  comp kind elt iter lid conds | lambda params body | lparam name | localfn qual
  fmt template args | star t | unknown why

Nothing here looks at source text or positions; `show` is for messages only.
"""
import itertools

NONE = ("const", None)


def const(v):
    return ("const", v)


def is_const(t):
    return t[0] == "const"


def is_int(t):
    return t[0] == "const" and isinstance(t[1], int) and not isinstance(t[1], bool)


def is_num(t):
    return t[0] == "const" and isinstance(t[1], (int, float)) and not isinstance(t[1], bool)


def is_seq(t):
    return t[0] in ("tuple", "list")


def plain_seq(t):
    """literal tuple/list without starred parts"""
    return t[0] in ("tuple", "list") and all(e[0] != "star" for e in t[1])


def fold_bin(op, a, b):
    if is_num(a) and is_num(b):
        try:
            x, y = a[1], b[1]
            if op == "+":
                return const(x + y)
            if op == "-":
                return const(x - y)
            if op == "*":
                return const(x * y)
            if op == "/" and y:
                return const(x / y)
            if op == "//" and y:
                return const(x // y)
            if op == "%" and y:
                return const(x % y)
            if op == "**" and abs(y) < 64 and not (x == 0 and y < 0):
                return const(x ** y)
        except Exception:  # noqa: BLE001 - folding is best effort
            pass
    if op == "+" and is_seq(a) and is_seq(b) and a[0] == b[0]:
        return (a[0], a[1] + b[1])
    if op == "+" and a[0] == "const" and isinstance(a[1], str) and b[0] == "const" and isinstance(b[1], str):
        return const(a[1] + b[1])
    return ("binop", op, a, b)


def mk_sub(base, idx):
    """subscription with the simplifications that make tuple plumbing transparent"""
    # x[lo:hi][i] -> x[lo+i]
    if base[0] == "sub" and base[2][0] == "slice" and is_int(idx) and idx[1] >= 0:
        lo, hi, st = base[2][1:]
        if all(is_const(x) for x in (lo, hi, st)) and st[1] in (None, 1) and (lo[1] is None or (isinstance(lo[1], int) and lo[1] >= 0)):
            k = (lo[1] or 0) + idx[1]
            if hi[1] is None or (isinstance(hi[1], int) and hi[1] >= 0 and k < hi[1]):
                return mk_sub(base[1], const(k))
    if is_seq(base) and is_int(idx):
        els = base[1]
        if all(e[0] != "star" for e in els):
            if -len(els) <= idx[1] < len(els):
                return els[idx[1]]
        else:
            pre = list(itertools.takewhile(lambda e: e[0] != "star", els))
            if 0 <= idx[1] < len(pre):
                return pre[idx[1]]
            post = list(itertools.takewhile(lambda e: e[0] != "star", reversed(els)))
            if idx[1] < 0 and -idx[1] <= len(post):
                return post[-idx[1] - 1]
    if is_seq(base) and idx[0] == "slice" and all(is_const(x) for x in idx[1:]):
        els = base[1]
        lo, hi, st = (x[1] for x in idx[1:])
        if all(e[0] != "star" for e in els):
            return (base[0], tuple(els[slice(lo, hi, st)]))
        pre = list(itertools.takewhile(lambda e: e[0] != "star", els))
        if st in (None, 1) and (lo is None or 0 <= lo) and hi is not None and 0 <= hi <= len(pre):
            return (base[0], tuple(pre[slice(lo, hi)]))
        if st in (None, 1) and hi is None and lo is not None and 0 <= lo <= len(pre):
            return (base[0], tuple(els[lo:]))
    # elements of zip/enumerate iterations
    if base[0] == "elem" and is_int(idx):
        it = base[1]
        if it[0] == "call" and it[1] == ("glob", "builtins.enumerate") and len(it[2]) == 1 and not it[3]:
            if idx[1] == 0:
                return ("idx", base[2])
            if idx[1] == 1:
                return ("elem", it[2][0], base[2])
        if it[0] == "call" and it[1] == ("glob", "builtins.zip") and 0 <= idx[1] < len(it[2]) and all(a[0] != "star" for a in it[2]):
            return ("elem", it[2][idx[1]], base[2])
    if base[0] == "dict" and is_const(idx):
        hit = [v for k, v in base[1] if k == idx]
        if hit and all(k is not None and is_const(k) for k, _ in base[1]):
            return hit[-1]
    return ("sub", base, idx)


def walk(t):
    """all sub-terms, pre-order"""
    stack = [t]
    while stack:
        x = stack.pop()
        if isinstance(x, tuple) and x and isinstance(x[0], str):
            yield x
            for e in x[1:]:
                if isinstance(e, tuple):
                    stack.append(e)
        elif isinstance(x, tuple):
            for e in x:
                if isinstance(e, tuple):
                    stack.append(e)


def contains(t, pred):
    return any(pred(x) for x in walk(t))


def mentions(t, sub):
    return any(x == sub for x in walk(t))


def params_in(t):
    return {x[1] for x in walk(t) if x[0] == "param"}


def subst(t, mapping):
    """replace sub-terms by mapping (dict term -> term), bottom-up re-simplifying subscripts"""
    if not isinstance(t, tuple):
        return t
    if t and isinstance(t[0], str):
        if t in mapping:
            return mapping[t]
        k = t[0]
        if k in ("const", "param", "glob", "lparam", "localfn", "idx"):
            return t
        new = tuple(subst(e, mapping) if isinstance(e, tuple) else e for e in t)
        if k == "sub":
            return mk_sub(new[1], new[2])
        if k == "binop":
            return fold_bin(new[1], new[2], new[3])
        return new
    return tuple(subst(e, mapping) if isinstance(e, tuple) else e for e in t)


def canon(t, _memo=None):
    """identity-free form: call ordinals erased, loop ids renumbered in traversal order.
    Two evaluations of the same pure expression have the same canon."""
    ren = {}

    def lid(x):
        if x not in ren:
            ren[x] = ("L", len(ren))
        return ren[x]

    def go(x):
        if not isinstance(x, tuple):
            return x
        if x and isinstance(x[0], str):
            k = x[0]
            if k == "call":
                return ("call", go(x[1]), go(x[2]), go(x[3]), 0)
            if k == "elem":
                return ("elem", go(x[1]), lid(x[2]))
            if k == "idx":
                return ("idx", lid(x[1]))
            if k == "prev":
                return ("prev", lid(x[1]), x[2], go(x[3]))
            if k == "mu":
                return ("mu", lid(x[1]), x[2], go(x[3]), go(x[4]))
            if k == "comp":
                return ("comp", x[1], go(x[2]), go(x[3]), lid(x[4]), go(x[5]))
            if k in ("const", "param", "glob", "lparam", "localfn"):
                return x
            return (k,) + tuple(go(e) for e in x[1:])
        return tuple(go(e) for e in x)

    return go(t)


def callee(t):
    """printable / matchable name of what a call term calls: qualified global, '.method', or kind"""
    f = t[1]
    if f[0] == "glob":
        return f[1]
    if f[0] == "attr":
        return "." + f[2]
    if f[0] == "call":
        return "call:" + callee(f)
    if f[0] == "param":
        return "$" + f[1]
    return f[0]


def kw(t, name, default=None):
    for k, v in t[3]:
        if k == name:
            return v
    return default


def show(t, depth=0):
    if depth > 12:
        return "…"
    if not isinstance(t, tuple) or not t:
        return repr(t)
    k = t[0]
    d = depth + 1
    if k == "const":
        return repr(t[1])
    if k == "param":
        return "$" + t[1]
    if k == "lparam":
        return "λ" + t[1]
    if k == "glob":
        return t[1].replace("numpy.", "np.").replace("builtins.", "")
    if k == "attr":
        return show(t[1], d) + "." + t[2]
    if k == "call":
        return show(t[1], d) + "(" + ", ".join([show(a, d) for a in t[2]] + [(f"{n}=" if n else "**") + show(v, d) for n, v in t[3]]) + ")"
    if k == "sub":
        return show(t[1], d) + "[" + show(t[2], d) + "]"
    if k == "slice":
        return ":".join("" if x == NONE else show(x, d) for x in t[1:])
    if k in ("tuple", "list", "set"):
        o, c = {"tuple": "()", "list": "[]", "set": "{}"}[k]
        return o + ", ".join(show(e, d) for e in t[1]) + c
    if k == "dict":
        return "{" + ", ".join((show(a, d) if a is not None else "**") + ": " + show(b, d) for a, b in t[1]) + "}"
    if k == "binop":
        return "(" + show(t[2], d) + " " + t[1] + " " + show(t[3], d) + ")"
    if k == "unop":
        return t[1] + "(" + show(t[2], d) + ")"
    if k == "cmp":
        return "(" + show(t[2], d) + " " + t[1] + " " + show(t[3], d) + ")"
    if k == "boolop":
        return "(" + (" " + t[1].lower() + " ").join(show(e, d) for e in t[2]) + ")"
    if k == "ifexp":
        return "(" + show(t[2], d) + " if " + show(t[1], d) + " else " + show(t[3], d) + ")"
    if k == "star":
        return "*" + show(t[1], d)
    if k == "elem":
        return "elem<" + show(t[1], d) + ">"
    if k == "idx":
        return "idx#" + str(t[1][1] if isinstance(t[1], tuple) else t[1])
    if k == "prev":
        return "prev<" + t[2] + ">"
    if k == "mu":
        return "mu(" + t[2] + ": " + show(t[3], d) + " -> " + show(t[4], d) + ")"
    if k == "comp":
        return "[" + show(t[2], d) + " for # in " + show(t[3], d) + (" if " + " and ".join(show(c_, d) for c_ in t[5]) if t[5] else "") + "]"
    if k == "lambda":
        return "lambda " + ",".join(t[1]) + ": " + show(t[2], d)
    if k == "fmt":
        return "fmt(" + show(t[1], d) + "; " + ", ".join(show(a, d) for a in t[2]) + ")"
    if k == "localfn":
        return "<fn " + t[1] + ">"
    if k == "unknown":
        return "<?" + str(t[1]) + ">"
    return str(t)
