"""Run the quick checks against /repo's current source with a patch applied IN MEMORY (nothing is written to /repo).
Development aid only - filed verdicts come from tools/keep_seeded.py / tools/check_seeded.py, which really apply the patch.
Usage: /venv/bin/python tools/try_mem.py <patch.diff> [C01 C05 ...] [-n max lines per property]"""
import pathlib
import sys

VERIF = pathlib.Path(__file__).resolve().parent.parent
sys.path.insert(0, str(VERIF))


def run(patch, props=None, nmax=6):
    from vstat import patching, report
    ov = patching.overlay_for(pathlib.Path(patch).read_text())
    res = {}
    for i in range(1, 21):
        pid = "C%02d" % i
        if props and pid not in props:
            continue
        code, _ctx, lines = report.run_property(pid, "quick", write=False, quiet=True, overlay=ov)
        hits = [ln.strip() for ln in lines if ln.startswith(("  C", "ANALYSIS"))]
        if code:
            res[pid] = {"exit": code, "reports": hits[:nmax]}
    return res


def main():
    args = [a for a in sys.argv[1:]]
    nmax = 6
    if "-n" in args:
        k = args.index("-n")
        nmax = int(args[k + 1])
        del args[k:k + 2]
    res = run(args[0], set(args[1:]) or None, nmax)
    for pid, r_ in res.items():
        print(pid, "exit", r_["exit"])
        for h in r_["reports"]:
            print("   ", h[:260])
    if not res:
        print("NOT DETECTED by any check")
    return 0


if __name__ == "__main__":
    sys.exit(main())
