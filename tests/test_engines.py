"""Unit tests of the analyser engines on the fixture package (independent of /repo)."""
import pathlib
import sys
import unittest

ROOT = pathlib.Path(__file__).resolve().parent.parent
sys.path.insert(0, str(ROOT))

from vstat.loader import Package          # noqa: E402
from vstat.paths import Analysis          # noqa: E402
from vstat.terms import callee, canon, walk   # noqa: E402


def mini():
    pkg = Package(ROOT / "fixtures" / "mini", name="mini")
    return pkg, Analysis(pkg)


class Paths(unittest.TestCase):
    def test_loop_carried(self):
        pkg, an = mini()
        p = [p for p in an.paths("mini.core.threaded") if p.exit == "return"][0]
        c = [e.data[0] for e in p.events if e.kind == "call" and callee(e.data[0]) == ".run"][0]
        self.assertEqual(c[2][0][0], "star")
        self.assertEqual(c[2][0][1][0], "prev")
        p = [p for p in an.paths("mini.core.unthreaded") if p.exit == "return"][0]
        c = [e.data[0] for e in p.events if e.kind == "call" and callee(e.data[0]) == ".run"][0]
        self.assertEqual(c[2], (("param", "a"), ("param", "b")))

    def test_call_instances(self):
        pkg, an = mini()
        p = an.paths("mini.core.buffers")[0]
        v = p.value
        self.assertEqual(v[0], "tuple")
        self.assertEqual(len({x for x in v[1]}), 3)                 # three distinct call instances
        self.assertEqual(len({canon(x) for x in v[1]}), 1)          # of one and the same expression

    def test_try_finally_paths(self):
        pkg, an = mini()
        ps = an.paths("mini.core.guarded")
        self.assertEqual(sorted(p.exit for p in ps), ["raise", "return"])
        for p in ps:
            self.assertTrue(any(e.kind == "call" and callee(e.data[0]) == ".close" for e in p.events))
        exc = [p for p in an.paths("mini.core.leaky") if p.exit == "raise"][0]
        i_open = [i for i, e in enumerate(exc.events) if e.kind == "call" and callee(e.data[0]) == "builtins.open"][0]
        i_try = [i for i, e in enumerate(exc.events) if e.kind == "try-enter"][0]
        self.assertTrue(any(e.kind == "call" for e in exc.events[i_open + 1:i_try]))    # readline() between open and try

    def test_constant_conditions_fold(self):
        pkg, an = mini()
        self.assertEqual(len(an.paths("mini.core.wrap")), 2)


class Roles(unittest.TestCase):
    def findings(self, fn):
        from vstat import roles
        from vstat.report import Ctx
        pkg, an = mini()
        ctx = Ctx("CXX", "quick", pkg, an)
        roles.check_paths(ctx, "R", "mini.core." + fn, an.paths("mini.core." + fn), roles.COORDS)
        return {o.construct.split("|", 1)[1]: o.verdict for o in ctx.obs.values()}

    def test_good(self):
        self.assertTrue(all(v == "DISCHARGED" for v in self.findings("good_grid").values()))

    def test_bad(self):
        f = self.findings("bad_grid")
        self.assertIn("VIOLATED", f.values())
        self.assertIn(f["meshgrid-operands|np.meshgrid(easting, northing)"], ("VIOLATED", "UNDECIDED"))
        self.assertTrue(any(k.startswith("linspace-args") and v == "VIOLATED" for k, v in f.items()))


class GenericRules(unittest.TestCase):
    def run_rule(self, fn):
        from vstat.loader import Package
        from vstat.paths import Analysis
        from vstat.report import Ctx
        from vstat.rules import common
        pkg = Package(ROOT / "fixtures" / "mini", name="mini")
        ctx = Ctx("CXX", "quick", pkg, Analysis(pkg))
        ctx.consulted.add("mini.core." + fn)
        common.permutation_gather(ctx)
        return [o.verdict for o in ctx.obs.values()]

    def run_named(self, rule, fn):
        from vstat.loader import Package
        from vstat.paths import Analysis
        from vstat.report import Ctx
        from vstat.rules import common
        pkg = Package(ROOT / "fixtures" / "mini", name="mini")
        ctx = Ctx("CXX", "quick", pkg, Analysis(pkg))
        ctx.consulted.add("mini.core." + fn)
        getattr(common, rule)(ctx)
        return [o.verdict for k, o in ctx.obs.items() if ("mini.core." + fn) in str(k)]

    def test_blocked_loop_without_remainder_is_reported(self):
        self.assertEqual(self.run_named("chunked_loops", "blocks_dropping_the_remainder"), ["VIOLATED"])

    def test_blocked_loop_with_ceiling_or_tail_is_not(self):
        self.assertEqual(self.run_named("chunked_loops", "blocks_with_a_ceiling_count"), ["DISCHARGED"])
        self.assertEqual(self.run_named("chunked_loops", "blocks_with_a_tail"), ["DISCHARGED"])

    def test_or_default_on_a_number_is_reported(self):
        self.assertIn("VIOLATED", self.run_named("falsy_defaults", "or_default"))
        self.assertEqual(set(self.run_named("falsy_defaults", "none_default")), {"DISCHARGED"})

    def test_fill_through_a_flattening_that_may_copy(self):
        self.assertEqual(self.run_named("fills_through_a_copy", "fill_through_ravel_of_like"), ["VIOLATED"])
        self.assertEqual(self.run_named("fills_through_a_copy", "fill_through_ravel_of_empty"), ["DISCHARGED"])

    def test_conversion_to_another_arrays_dtype(self):
        self.assertEqual(self.run_named("foreign_dtype_casts", "cast_to_foreign_dtype"), ["VIOLATED"])
        self.assertEqual(self.run_named("foreign_dtype_casts", "cast_to_own_or_promoted_dtype"), ["DISCHARGED"])

    def test_none_sentinel_tested_by_truthiness(self):
        self.assertIn("VIOLATED", self.run_named("falsy_defaults", "best_by_truthiness"))
        self.assertNotIn("VIOLATED", self.run_named("falsy_defaults", "best_by_is_none"))

    def test_in_place_update_of_a_result_returned_twice(self):
        from vstat import paths
        inv = paths.known_functions()
        saved = paths._INVENTORY
        paths._INVENTORY = set(inv or ()) | {"mini.core._twice"}       # a function the rules know by name is not looked through
        try:
            self.assertEqual(self.run_named("aliased_results", "scales_a_twin_in_place"), ["VIOLATED"])
            self.assertEqual(self.run_named("aliased_results", "scales_a_copy"), ["DISCHARGED"])
        finally:
            paths._INVENTORY = saved

    def test_in_place_update_that_would_have_to_broadcast(self):
        self.assertEqual(self.run_named("in_place_cannot_broadcast", "separable_in_place"), ["VIOLATED"])
        self.assertEqual(self.run_named("in_place_cannot_broadcast", "separable_out_of_place"), ["DISCHARGED"])

    def test_keyword_popped_and_lost(self):
        from vstat import paths
        saved = paths._INVENTORY
        paths._INVENTORY = set(paths.known_functions() or ()) | {"mini.core._make_nodes"}
        try:
            self.assertEqual(self.run_named("popped_keywords", "pops_and_loses"), ["VIOLATED"])
            self.assertEqual(self.run_named("popped_keywords", "pops_and_forwards"), ["DISCHARGED"])
        finally:
            paths._INVENTORY = saved

    def test_cache_keyed_by_summaries(self):
        self.assertEqual(self.run_named("lossy_cache_reads", "cached_by_summaries"), ["VIOLATED"])
        self.assertEqual(self.run_named("lossy_cache_reads", "cached_by_bytes"), ["DISCHARGED"])

    def test_gather_with_the_permutation_itself_is_reported(self):
        self.assertEqual(self.run_rule("nested_windows_wrong"), ["VIOLATED"])

    def test_gather_with_the_inverse_is_silent(self):
        self.assertEqual(self.run_rule("nested_windows_right"), [])


class Effects(unittest.TestCase):
    def test_writes(self):
        from vstat.effects import Effects
        pkg, an = mini()
        ef = Effects(an)
        self.assertIn("values", ef.writes["mini.core.writes_param"])
        self.assertNotIn("mini.core.writes_copy", {k for k, v in ef.writes.items() if v})
        self.assertIn("values", ef.writes["mini.core.passes_on"])       # through a view and a callee summary


class NormalForms(unittest.TestCase):
    def nf(self, name, sp):
        from vstat.nf import Builder
        pkg, an = mini()
        p = [p for p in an.paths("mini.core." + name) if p.exit == "return"][0]
        return Builder(sp).nf(p.value)

    def test_equal_refactoring(self):
        from vstat.nf import Space, compare
        sp = Space()
        self.assertIs(compare(sp, self.nf("kernel_b", sp), self.nf("kernel_a", sp)), True)

    def test_family_mismatch_is_definite(self):
        from vstat.nf import Space, compare
        sp = Space()
        self.assertIs(compare(sp, self.nf("kernel_c", sp), self.nf("kernel_a", sp)), False)

    def test_unknown_symbol_is_undecided(self):
        from vstat.nf import Space, compare
        from vstat.nf import Undecided
        sp = Space()
        try:
            r = compare(sp, self.nf("kernel_e", sp), self.nf("kernel_a", sp))
        except Undecided:
            r = None
        self.assertIsNone(r)

    def test_helper_outside_the_inventory_is_looked_through(self):
        # `special` is a package function that the function inventory does not list: engine A runs its body in place, so the
        # kernel is seen as r**2 * (r - 1) - a definite mismatch, not an uninterpreted symbol
        from vstat.nf import Space, compare
        sp = Space()
        got = self.nf("kernel_d", sp)
        self.assertNotIn("special", repr(got))
        self.assertIsNot(compare(sp, got, self.nf("kernel_a", sp)), True)


class Intervals(unittest.TestCase):
    def test_log_at_zero(self):
        from vstat.intervals import Bad, iv
        from vstat.terms import const
        x = ("param", "x")
        t = ("call", ("glob", "numpy.log"), (x,), (), 0)
        with self.assertRaises(Bad):
            iv(t, x, (0.0, 1.0), ())
        self.assertEqual(iv(("binop", "+", x, const(1)), x, (0.0, 1.0), ()), (1.0, 2.0))


class Zones(unittest.TestCase):
    def test_wrap_classes(self):
        from vstat import zones
        pkg, an = mini()
        paths = [p for p in an.paths("mini.core.wrap") if p.exit == "return"]
        env = {("param", "w"): zones.Aff(1, 0, 0), ("param", "e"): zones.Aff(0, 1, 0)}
        bad = good = 0
        for cls in zones.classes():
            width, full, adm = zones.expected(cls)
            if not adm or full:
                continue
            W, E, _p = zones.interpret(paths, env, cls, lambda c: None)
            d = zones.rng(E - W, cls)
            if d[0] >= 0:
                good += 1
            else:
                bad += 1
        self.assertGreater(good, 30)
        self.assertEqual(bad, 5)        # the five seam classes


class Verdicts(unittest.TestCase):
    def test_exit_codes(self):
        import types
        from vstat import report
        root = ROOT / "fixtures" / "mini"
        for verdict, code in (("DISCHARGED", 0), ("UNDECIDED", 2), ("VIOLATED", 1)):
            mod = types.SimpleNamespace(check=lambda ctx, v=verdict: ctx.add("R1", "x|y", v, "test"))
            got, _ctx, lines = report.run_property("C99", "quick", root=str(root), write=False, quiet=True, rules_mod=mod)
            self.assertEqual(got, code)
            self.assertEqual(any(ln.startswith("VIOLATION property=C99") for ln in lines), code == 1)

    def test_crash_is_not_a_verdict(self):
        import types
        from vstat import report
        def boom(ctx):
            raise RuntimeError("x")
        got, _ctx, lines = report.run_property("C99", "quick", root=str(ROOT / "fixtures" / "mini"), write=False, quiet=True, rules_mod=types.SimpleNamespace(check=boom))
        self.assertEqual(got, 2)
        self.assertTrue(any(ln.startswith("ANALYSIS-ERROR") for ln in lines))
        self.assertFalse(any(ln.startswith("VIOLATION") for ln in lines))

    def test_vanished_anchor(self):
        import types
        from vstat import report
        mod = types.SimpleNamespace(check=lambda ctx: ctx.paths("mini.core.no_such_function"))
        got, _ctx, lines = report.run_property("C99", "quick", root=str(ROOT / "fixtures" / "mini"), write=False, quiet=True, rules_mod=mod)
        self.assertEqual(got, 2)


if __name__ == "__main__":
    unittest.main()
