"""Formulas of the Green's functions and synthetic models (docstrings of Spline, VectorSpline2D, CheckerBoard)."""
import numpy as np


def biharmonic(east, north, mindist):
    """Spline docstring / Sandwell (1987): g(r) = r^2 (ln r - 1), r = distance + mindist."""
    r = np.sqrt(east**2 + north**2) + mindist
    return r**2 * (np.log(r) - 1)


def elastic(east, north, mindist, poisson):
    """VectorSpline2D.jacobian docstring / Sandwell & Wessel (2016), east rows first:
    g_ee = (3 - nu) ln r + (1 + nu) n^2 / r^2 ; g_nn = (3 - nu) ln r + (1 + nu) e^2 / r^2 ; g_ne = -(1 + nu) e n / r^2."""
    r = np.sqrt(east**2 + north**2) + mindist
    g_ee = (3 - poisson) * np.log(r) + (1 + poisson) * north**2 / r**2
    g_nn = (3 - poisson) * np.log(r) + (1 + poisson) * east**2 / r**2
    g_ne = -(1 + poisson) * east * north / r**2
    return g_ee, g_nn, g_ne


def checkerboard(amplitude, w_east, w_north, easting, northing):
    """CheckerBoard docstring: amplitude * sin(2 pi e / w_east) * cos(2 pi n / w_north)."""
    return amplitude * np.sin(2 * np.pi * easting / w_east) * np.cos(2 * np.pi * northing / w_north)


def monomial(easting, northing, i, j):
    """Trend docstring: terms easting**i * northing**j."""
    return easting**i * northing**j
