"""C02 - fitted models are the weighted, damped least-squares optimum (DESIGN §4 C02)."""
from .. import q as Q
from ..paths import lookup
from ..terms import callee, canon, const, is_const, is_int, kw, show, walk, NONE
from . import common as K
from . import c01

EXPLANATION = ("end-to-end dataflow of the weights parameter through check_fit_input (and the vector concatenation) into sample_weight= of the regressor, regressor/scaler "
               "configuration, stacking-order agreement of data and weights with the Jacobian's row blocks, and the check_fit_input return contract")
RULES = {
    "R1": "the weights parameter of Trend.fit / Spline.fit / VectorSpline2D.fit reaches sample_weight= of regr.fit through check_fit_input (-> concatenation) -> least_squares' weights slot; nothing else does",
    "R2": "least_squares configuration (= C01.R3): scaler without centring, no intercept, LinearRegression iff damping is None else Ridge(alpha=damping), coef_/scale_",
    "R3": "VectorSpline2D.fit concatenates data and weights with the same comprehension over the validated tuples, unreordered, east first",
    "R4": "check_fit_input returns (coordinates, data, weights) in that order; weights are raveled elementwise without reordering; the three raise sites dominate the return",
    "R5": "least_squares flattens data in C order",
}
ASSUMPTIONS = ["optimality itself, invariance to the weight scale and the zero-weight limit are scikit-learn's semantics applied to correctly routed arguments (declined)"]
LS = c01.LS
CFIQ = "verde.base.utils.check_fit_input"


def r1_weights(ctx):
    for qn in ("verde.trend.Trend.fit", "verde.spline.Spline.fit"):
        for p in ctx.paths(qn):
            if p.exit != "return":
                continue
            cfi = c01.cfi_of(p)
            ls = [e.data[0] for e in p.events if e.kind == "call" and callee(e.data[0]) == LS]
            tag = Q.tags(p.conds) or "-"
            if cfi is None or len(ls) != 1:
                ctx.add("R1", "%s|structure|%s" % (qn, tag), "UNDECIDED", "expected validation and one solve", fn=qn)
                continue
            if qn.endswith("Spline.fit"):
                sets = {e.data[1] for e in p.events if e.kind == "setattr" and e.data[0] == Q.SELF}
                jc = [e.data[0] for e in p.events if e.kind == "call" and e.data[0][1] == ("attr", Q.SELF, "jacobian")]
                stale = bool(jc) and len(jc[0][2]) >= 2 and jc[0][2][1] == Q.self_attr("force_coords_") and "force_coords_" not in sets
                ctx.check("R1", "%s|system-built-for-this-data|%s" % (qn, "stale" if stale else "fresh"), False if stale else True, "the linear system solved is the one of the data given to this fit",
                          bad="the Jacobian is built on self.force_coords_ left by an earlier fit: the weighted least-squares problem solved is not the one of the new data", fn=qn, line=p.line)
            w = Q.arg(ctx, ls[0], "weights")
            okv = cfi[2][:3] == (("param", "coordinates"), ("param", "data"), ("param", "weights"))
            ok = True if w == Q.sub(cfi, 2) and okv else (False if w is None or w == NONE or w == Q.sub(cfi, 1) or (isinstance(w, tuple) and w != Q.sub(cfi, 2) and any(x == Q.sub(cfi, 2) for x in walk(w))) else None)
            ctx.check("R1", "%s|weights-reach-the-solver|%s" % (qn, tag), ok, "least_squares' weights slot receives the validated weights (unchanged)",
                      bad="least_squares receives weights=%s" % (show(w)[:80] if isinstance(w, tuple) else "nothing (weights dropped)"), fn=qn)
    qn = "verde.vector.VectorSpline2D.fit"
    def weighted(p):
        """the path on which some weight is given: `any(w is not None ...)` held, or `all(w is None ...)` did not"""
        for c, v in p.conds:
            if c[0] == "call" and callee(c) in ("builtins.any", "builtins.all") and any(x[0] == "cmp" and x[1] in ("is", "isnot") and x[3] == NONE for x in walk(c) if isinstance(x, tuple) and x):
                positive = any(x[0] == "cmp" and x[1] == "isnot" for x in walk(c) if isinstance(x, tuple) and x)
                if callee(c) == "builtins.any":
                    return v if positive else None          # any(w is None): mixed case, not the documented test
                return (not v) if not positive else None    # all(w is None) False  ==  some weight given
        return None
    with_w = [p for p in ctx.paths(qn) if p.exit == "return" and weighted(p)]
    ctx.check("R1", qn + "|a-weighted-path-exists", True if with_w else False, "given weights select a path on which they are concatenated and passed on",
              bad="no path passes weights to the solver: weights are ignored", fn=qn)
    for p in ctx.paths(qn):
        if p.exit != "return":
            continue
        cfi = c01.cfi_of(p)
        ls = [e.data[0] for e in p.events if e.kind == "call" and callee(e.data[0]) == LS]
        hasw = weighted(p)
        tag = "%s,%s" % ("weights" if hasw else "noweights", "data-forces" if lookup(p.decided, ("cmp", "is", Q.self_attr("force_coords"), NONE)) else "given-forces")
        if cfi is None or len(ls) != 1:
            ctx.add("R1", "%s|structure|%s" % (qn, tag), "UNDECIDED", "expected validation and one solve", fn=qn)
            continue
        w, d = Q.arg(ctx, ls[0], "weights"), Q.arg(ctx, ls[0], "data")

        def concat_of(t, src):
            """True if t == np.concatenate([x.ravel() for x in src]) in order"""
            if not (isinstance(t, tuple) and t[0] == "call" and callee(t) in ("numpy.concatenate", "numpy.hstack") and t[2]):
                return None
            c = t[2][0]
            if c == src:
                # the tuple is stacked as it is: right for the weights (check_fit_input returns them raveled, C02.R4), wrong for the data,
                # which keep the caller's shape - 2-D components are then joined along axis 1 (rows interleaved) or not flattened at all
                return True if src == Q.sub(cfi, 2) else False
            if c[0] == "comp":
                from .c18 import order_args
                if order_args(c[2]):
                    return False
                if c[3] == src and Q.unwrap(c[2]) == ("elem", src, c[4]):
                    return True
                if Q.is_reversed(c[3], src) or (c[3][0] == "call" and callee(c[3]) == "builtins.reversed" and c[3][2] == (src,)):
                    return False
                if c[3] != src and c[3] in (Q.sub(cfi, 1), Q.sub(cfi, 2)):
                    return False
            if c[0] in ("list", "tuple") and len(c[1]) == 2:
                srcs = [Q.unwrap(x) for x in c[1]]
                if srcs == [Q.sub(src, 0), Q.sub(src, 1)]:
                    return True
                if srcs == [Q.sub(src, 1), Q.sub(src, 0)]:
                    return False
                if all(x[0] == "sub" and x[1] == src and is_int(x[2]) for x in srcs):
                    return False        # e.g. component 0 twice: a component is dropped / duplicated
            return None
        okd = concat_of(d, Q.sub(cfi, 1))
        ctx.check("R3", "%s|data-stacked-east-first|%s" % (qn, tag), okd, "data = concatenate of the raveled validated components, east first (the order of the Jacobian's row blocks)",
                  bad=("the data components are stacked without being flattened (%s): 2-D components are joined row by row instead of east block first, north block second" % show(d)[:50])
                  if isinstance(d, tuple) and d[0] == "call" and d[2] and d[2][0] == Q.sub(cfi, 1) else "the data components are stacked in a different order than the Jacobian's row blocks", fn=qn)
        if hasw:
            okw = concat_of(w, Q.sub(cfi, 2))
            ctx.check("R1", "%s|weights-reach-the-solver|%s" % (qn, tag), okw, "the solver's weights are the concatenated validated weight components",
                      bad="weights=%s" % (show(w)[:80] if isinstance(w, tuple) else w), fn=qn)
            ctx.check("R3", "%s|weights-stacked-like-data|%s" % (qn, tag), True if okw and okd else (False if okw is False else None), "weights are stacked in the same order as the data", bad="weights and data are stacked in different orders", fn=qn)
        else:
            ctx.check("R1", "%s|weights-reach-the-solver|%s" % (qn, tag), True if w == NONE else (False if isinstance(w, tuple) and w[0] == "call" else None), "without weights the solver gets None", bad="weights are passed although none were given", fn=qn)
        two = any(pp.exit == "raise" and pp.conds and pp.conds[-1][1] and pp.conds[-1][0][0] == "cmp" and pp.conds[-1][0][1] == "!=" and pp.conds[-1][0][3] == const(2) for pp in ctx.paths(qn))
        ctx.check("R3", qn + "|needs-two-components", True if two else False, "anything but two data components raises", bad="the two-component check is gone", fn=qn)


def r4_check_fit_input(ctx):
    qn = CFIQ
    n = 0
    for p in ctx.paths(qn):
        if p.exit != "return":
            continue
        n += 1
        v = p.value
        hasw = None
        for c, val in p.conds:
            if c[0] == "call" and callee(c) == "builtins.any" and any(x[0] == "cmp" and x[1] in ("isnot", "is") for x in walk(c)) and ("param", "weights") in Q.leaves(c):
                hasw = val
        if hasw is None and v[0] == "tuple" and len(v[1]) == 3:
            # the test is written in a form the decisions do not show (an early-exit loop over the weights): the returned weights tell -
            # Nones for "no weights", raveled arrays otherwise
            hasw = not any(x == NONE for x in walk(v[1][2]))
        unpack = lookup(p.decided, ("param", "unpack"))
        tag = "%s,%s,%s" % ("weights" if hasw else "noweights", "unpack" if unpack else "tuples", Q.tags(p.conds[-2:]))
        if v[0] != "tuple" or len(v[1]) != 3:
            ctx.add("R4", "%s|returns-three|%s" % (qn, tag), "VIOLATED" if v[0] == "tuple" else "UNDECIDED", "check_fit_input returns %s" % show(v)[:60], fn=qn)
            continue
        co, da, we = v[1]

        def base(t):
            while t[0] == "sub" and t[2] == const(0):
                t = t[1]
            return t
        okc = Q.unwrap(co) == ("param", "coordinates")
        okd = Q.unwrap(base(da)) == ("param", "data") or base(da) == ("tuple", (("param", "data"),))      # check_data written out: data = (data,)
        wb = base(we)
        if hasw:
            wb = Q.unseq(wb)
            okw = wb[0] == "comp" and Q.unwrap(wb[3]) == ("param", "weights") and Q.unwrap(wb[2]) == ("elem", wb[3], wb[4])
            rev = wb[0] == "comp" and (wb[3][0] == "call" and callee(wb[3]) == "builtins.reversed" or (wb[3][0] == "sub" and wb[3][2][0] == "slice" and wb[3][2][3] == const(-1)))
            from .c18 import order_args
            if wb[0] == "comp" and order_args(wb[2]):
                okw, rev = False, True
            if wb[0] == "tuple" and wb[1] and not okw:
                # a path on which the weights are a literal tuple (`weights = (weights,)` for a single array): element i must be the plain
                # ravel of element i
                W = ("param", "weights")
                srcs = [Q.ravel_of(Q.unwrap(x, funcs=set(), methods=set())) for x in wb[1]]
                if all(s_ is not None and s_[1] for s_ in srcs):
                    got_w = [Q.unwrap(s_[0]) for s_ in srcs]
                    okw = got_w == ([W] if len(got_w) == 1 else []) or got_w == [Q.sub(W, i) for i in range(len(got_w))]
                    rev = len(got_w) > 1 and got_w == [Q.sub(W, i) for i in reversed(range(len(got_w)))]
        else:
            okw = wb[0] in ("tuple", "call", "binop") or wb == NONE or True
            rev = False
        raw = None
        if hasw and wb[0] == "comp" and Q.unwrap(wb[3]) == ("param", "weights") and not okw:
            # an arm of the element expression hands the weight back AS GIVEN (no np.ravel / asarray on it): a positive contradiction of
            # "weights are raveled" unless that arm is guarded by isinstance(w, np.ndarray)
            el = ("elem", wb[3], wb[4])
            stack = [(wb[2], ())]
            while stack:
                x, guards = stack.pop()
                if x[0] == "ifexp":
                    stack.append((x[2], guards + (x[1],)))
                    stack.append((x[3], guards + (x[1],)))
                elif x == el:
                    if not any(y[0] == "call" and callee(y) in ("builtins.isinstance", "builtins.type") for g in guards for y in walk(g) if isinstance(y, tuple) and y):
                        raw = "a weight is handed back as given on the arm guarded by %s (not passed through np.ravel)" % "; ".join(show(g)[:50] for g in guards)
        swapped = Q.unwrap(base(da)) == ("param", "weights") or Q.unwrap(Q.unseq(base(we))) == ("param", "data") or \
            (wb[0] == "comp" and Q.unwrap(wb[3]) == ("param", "data"))
        if not hasw:
            okw = any(x == NONE for x in walk(wb)) or None
        ok = True if okc and okd and okw and not swapped else (False if swapped or rev or raw or (okc is False and Q.unwrap(co) in (("param", "data"), ("param", "weights"))) else None)
        ctx.check("R4", "%s|returns-(coordinates, data, weights)|%s" % (qn, tag), ok, "returns the validated coordinates, data and weights in this order (weights raveled elementwise, unreordered)",
                  bad=(raw + ": a pandas Series keeps its index and callers that index the weights by position (BlockReduce) then look them up by label") if raw and not (swapped or rev)
                  else "check_fit_input returns its values in another order / reorders the weights", fn=qn)
    if n < 4:
        ctx.add("R4", qn + "|paths", "UNDECIDED", "expected several return paths, found %d" % n, fn=qn)
    ps = ctx.paths(qn)
    def raising(pred):
        return any(p.exit == "raise" and p.conds and p.conds[-1][1] and pred(p.conds[-1][0]) for p in ps)
    ctx.check("R4", qn + "|raises|data-shape", True if raising(lambda c: any(x[0] == "attr" and x[2] == "shape" for x in walk(c)) and ("param", "coordinates") in Q.leaves(c)) else False,
              "data whose shape differs from the coordinates raises", bad="data/coordinate shape mismatches are accepted", fn=qn)
    ctx.check("R4", qn + "|raises|weights-count", True if raising(lambda c: c[0] == "cmp" and c[1] == "!=" and all(x[0] == "call" and callee(x) == "builtins.len" for x in (c[2], c[3]))) else False,
              "a different number of weights and data components raises", bad="weights/data count mismatches are accepted", fn=qn)
    ctx.check("R4", qn + "|raises|weights-size", True if raising(lambda c: any(x[0] == "attr" and x[2] == "size" for x in walk(c))) else False,
              "weights whose size differs from the data raise", bad="weights/data size mismatches are accepted", fn=qn)


def check(ctx):
    r1_weights(ctx)
    c01.r3_least_squares(ctx, rule="R2")
    r4_check_fit_input(ctx)
    # R5: C-order flattening of the data inside least_squares is part of the R2 checks (rhs-is-raveled-data)
    from .c18 import order_args
    bad = []
    for p in ctx.paths(LS):
        for e in p.events:
            if e.kind == "call":
                bad += order_args(e.data[0])
    ctx.check("R5", LS + "|C-order", False if bad else True, "no non-C flatten order in least_squares", bad="non-C order: %s" % bad[:1], fn=LS)
