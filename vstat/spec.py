"""Access to the transcribed specifications (vstat/specsrc): parsed by the same front end, never executed."""
import pathlib

from .loader import Package
from .paths import Analysis

_AN = None


def analysis():
    global _AN
    if _AN is None:
        pkg = Package(pathlib.Path(__file__).resolve().parent / "specsrc", name="spec")
        _AN = Analysis(pkg)
    return _AN


def paths(name):
    """paths of spec function 'module.function'"""
    return analysis().paths("spec." + name)


def params(name):
    return analysis().pkg.fn("spec." + name).params


def doc(name):
    return analysis().pkg.fn("spec." + name).docstring()
