"""Apply a unified diff (as written by `git diff`) to source texts held in memory.  Used by the thorough tier to re-run the filed
seeded changes (/verif/seeded/*/patch.diff) against the CURRENT source of /repo without touching the repository."""
import pathlib
import re

HUNK = re.compile(r"^@@ -(\d+)(?:,(\d+))? \+(\d+)(?:,(\d+))? @@")


class DoesNotApply(Exception):
    pass


def parse(diff_text):
    """[(path relative to the repository root, [(old_start, old_lines, new_lines)])]"""
    files, cur, hunk = [], None, None
    for ln in diff_text.splitlines():
        if ln.startswith("diff --git "):
            cur, hunk = None, None
        elif ln.startswith("+++ "):
            p = ln[4:].strip()
            if p == "/dev/null":
                raise DoesNotApply("file deletion is not supported")
            cur = [p[2:] if p.startswith(("a/", "b/")) else p, []]
            files.append(cur)
        elif ln.startswith("--- "):
            if ln[4:].strip() == "/dev/null":
                raise DoesNotApply("file creation is not supported")
        elif cur is not None:
            m = HUNK.match(ln)
            if m:
                hunk = [int(m.group(1)), [], []]
                cur[1].append(hunk)
            elif hunk is not None and ln[:1] in (" ", "-", "+"):
                if ln[0] in " -":
                    hunk[1].append(ln[1:])
                if ln[0] in " +":
                    hunk[2].append(ln[1:])
            elif hunk is not None and ln == "":
                hunk[1].append("")
                hunk[2].append("")
    return [(p, [tuple(h) for h in hs]) for p, hs in files]


def apply_to_text(text, hunks):
    lines = text.split("\n")
    offset = 0
    for start, old, new in hunks:
        at = start - 1 + offset
        if lines[at:at + len(old)] != old:
            # the file moved on since the patch was written: accept the hunk where its old text occurs exactly once
            hits = [i for i in range(len(lines) - len(old) + 1) if lines[i:i + len(old)] == old]
            if len(hits) != 1:
                raise DoesNotApply("hunk at line %d matches %d places" % (start, len(hits)))
            at = hits[0]
        lines[at:at + len(old)] = new
        offset += len(new) - len(old)
    return "\n".join(lines)


def overlay_for(diff_text, root="/repo/verde", package_dir="verde"):
    """{path relative to the package root: patched source} for the package files the diff touches"""
    root = pathlib.Path(root)
    out = {}
    for path, hunks in parse(diff_text):
        parts = pathlib.PurePosixPath(path).parts
        if not parts or parts[0] != package_dir:
            continue
        rel = "/".join(parts[1:])
        f = root / rel
        if not f.exists():
            raise DoesNotApply("file %s absent" % rel)
        out[rel] = apply_to_text(f.read_text(), hunks)
    if not out:
        raise DoesNotApply("the patch touches no package file")
    return out
