"""Whole-package behaviour-preserving transformations (formatting normalisation, renaming of every local variable);
all twenty quick checks must stay at exit 0 on the transformed tree.  Usage: /venv/bin/python tools/neutral_sweep.py"""
import ast
import pathlib
import sys

sys.path.insert(0, str(pathlib.Path(__file__).resolve().parent.parent))
from vstat import report  # noqa: E402


class Renamer(ast.NodeTransformer):
    def visit_FunctionDef(self, node):
        params = {a.arg for a in node.args.posonlyargs + node.args.args + node.args.kwonlyargs}
        if node.args.vararg:
            params.add(node.args.vararg.arg)
        if node.args.kwarg:
            params.add(node.args.kwarg.arg)
        own, nested_names = set(), set()

        def scan(n, depth):
            for c in ast.iter_child_nodes(n):
                if isinstance(c, (ast.FunctionDef, ast.Lambda, ast.ClassDef)):
                    if isinstance(c, ast.FunctionDef):
                        nested_names.add(c.name)
                        for a in c.args.args + c.args.kwonlyargs:
                            nested_names.add(a.arg)
                    for cc in ast.walk(c):
                        if isinstance(cc, ast.Name) and isinstance(cc.ctx, ast.Store):
                            nested_names.add(cc.id)
                        if isinstance(cc, ast.arg):
                            nested_names.add(cc.arg)
                    continue
                if isinstance(c, (ast.ListComp, ast.SetComp, ast.DictComp, ast.GeneratorExp)):
                    for g in c.generators:
                        for cc in ast.walk(g.target):
                            if isinstance(cc, ast.Name):
                                nested_names.add(cc.id)
                if isinstance(c, ast.Name) and isinstance(c.ctx, ast.Store) and depth == 0:
                    own.add(c.id)
                if isinstance(c, (ast.Global, ast.Nonlocal)):
                    nested_names.update(c.names)
                scan(c, depth)
        scan(node, 0)
        targets = {n for n in own if n not in params and n not in nested_names and not n.startswith("__")}
        for c in ast.walk(node):
            if isinstance(c, ast.Name) and c.id in targets:
                c.id = c.id + "_rn"
        self.generic_visit(node)
        return node


def transformed(kind):
    root = pathlib.Path("/repo/verde")
    overlay = {}
    for p in root.rglob("*.py"):
        rel = p.relative_to(root)
        if "tests" in rel.parts:
            continue
        tree = ast.parse(p.read_text())
        if kind == "rename":
            tree = ast.fix_missing_locations(Renamer().visit(tree))
        overlay[str(rel)] = ast.unparse(tree)
    return overlay


def main():
    bad = 0
    for kind in ("format", "rename"):
        overlay = transformed(kind)
        for src in overlay.values():
            compile(src, "<variant>", "exec")
        for i in range(1, 21):
            pid = "C%02d" % i
            code, ctx, lines = report.run_property(pid, "quick", overlay=overlay, write=False, quiet=True)
            if code != 0:
                bad += 1
                print(kind, pid, "exit", code, [ln for ln in lines if ln.startswith(("VIOL", "ANAL"))][:2])
        print("%s: done" % kind)
    print("neutral sweep failures:", bad)
    return 1 if bad else 0


if __name__ == "__main__":
    sys.exit(main())
