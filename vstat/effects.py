"""Engine D: may-alias-a-parameter analysis, write effects, bottom-up summaries (DESIGN §3.5)."""
import collections

from . import contracts
from .terms import callee, is_const, show, walk, kw

VIEW_FUNCS = {"numpy.asarray", "numpy.atleast_1d", "numpy.atleast_2d", "numpy.atleast_3d", "numpy.ravel", "numpy.reshape",
              "numpy.transpose", "numpy.squeeze", "numpy.asanyarray", "numpy.ascontiguousarray", "numpy.asfortranarray",
              "numpy.broadcast_to", "numpy.broadcast_arrays", "numpy.swapaxes", "numpy.moveaxis", "numpy.expand_dims",
              "numpy.flip", "numpy.fliplr", "numpy.flipud", "numpy.real", "numpy.imag", "numpy.diagonal", "numpy.rollaxis",
              "numpy.ma.asarray", "numpy.asarray_chkfinite", "numpy.require", "numpy.split", "numpy.array_split",
              "numpy.hsplit", "numpy.vsplit", "numpy.lib.stride_tricks.as_strided"}
VIEW_METHODS = {"ravel", "reshape", "transpose", "view", "squeeze", "swapaxes", "diagonal", "get", "items", "values", "to_numpy"}
VIEW_ATTRS = {"T", "values", "real", "imag", "flat", "data", "base", "mT"}
CONTAINER_FUNCS = {"builtins.tuple", "builtins.list", "builtins.zip", "builtins.enumerate", "builtins.reversed",
                   "builtins.iter", "builtins.dict", "builtins.next", "builtins.sorted", "builtins.getattr"}
MUT_METHODS = {"sort", "fill", "shuffle", "resize", "put", "itemset", "partition", "setflags", "byteswap", "setfield",
               "__setitem__", "__iadd__", "__isub__", "__imul__", "__itruediv__"}
MUT_FUNCS = {"numpy.put": 0, "numpy.place": 0, "numpy.copyto": 0, "numpy.putmask": 0, "numpy.fill_diagonal": 0,
             "numpy.put_along_axis": 0, "numpy.random.shuffle": 0}
COPY_FALSE_FUNCS = {"numpy.nan_to_num", "numpy.array", "sklearn.utils.check_array", "sklearn.utils.validation.check_array"}
SCALAR_FUNCS = {"builtins.int", "builtins.len", "builtins.float", "builtins.round", "builtins.str", "builtins.abs",
                "builtins.min", "builtins.max", "builtins.bool", "builtins.sum", "builtins.repr"}
SCALAR_TUPLE_PARAMS = {"region", "shape", "spacing", "pad", "dims", "point1", "point2", "center", "size", "sizes",
                       "maxdist", "k_nearest", "n", "degree", "tol", "parts"}


def index_is_basic(idx):
    k = idx[0]
    if k == "const":
        return idx[1] is None or isinstance(idx[1], int) or idx[1] is Ellipsis or isinstance(idx[1], str)
    if k == "slice":
        return True
    if k == "tuple":
        return all(index_is_basic(e) for e in idx[1])
    if k in ("idx", "fmt"):
        return True
    if k == "elem":
        it = idx[1]
        return it[0] == "call" and callee(it) in ("builtins.range", "numba.prange")
    if k == "binop":
        return index_is_basic(idx[2]) and index_is_basic(idx[3])
    if k == "attr":
        return idx[2] in ("size",)
    if k == "sub":
        return idx[1][0] == "attr" and idx[1][2] == "shape"
    return False


class Effects:
    def __init__(self, an):
        self.an, self.pkg = an, an.pkg
        self.ret_alias = {}                              # qual -> set(param names)
        self.writes = collections.defaultdict(dict)      # qual -> {param: (how, line)}
        self.by_method = collections.defaultdict(list)   # method name -> [qual]
        for q, f in self.pkg.functions.items():
            if f.cls is not None:
                self.by_method[f.name].append(q)
        self._fixpoint()

    # ------------------------------------------------------------------ aliasing
    def aliases(self, t):
        k = t[0]
        if k == "param":
            n = t[1].lstrip("*")
            if n in ("self", "cls"):
                return set()
            return {n}
        if k in ("const", "glob", "lambda", "fmt", "cmp", "boolop", "unop", "localfn", "set", "idx", "slice", "lparam", "unknown"):
            return set()
        if k == "binop":
            a, b = t[2], t[3]
            seqlike = lambda x: x[0] in ("tuple", "list") or (x[0] == "call" and callee(x) in ("builtins.tuple", "builtins.list"))  # noqa: E731
            if t[1] == "+" and (seqlike(a) or seqlike(b)):
                return self.aliases(a) | self.aliases(b)
            return set()
        if k == "sub":
            return self.aliases(t[1]) if index_is_basic(t[2]) else set()
        if k == "attr":
            if t[1] == ("param", "self"):
                return {"self." + t[2]}
            if t[2] in VIEW_ATTRS:
                return self.aliases(t[1])
            return set()
        if k in ("tuple", "list"):
            s = set()
            for e in t[1]:
                s |= self.aliases(e)
            return s
        if k == "dict":
            s = set()
            for _a, b in t[1]:
                s |= self.aliases(b)
            return s
        if k == "star":
            return self.aliases(t[1])
        if k == "elem":
            return self.aliases(t[1])
        if k == "comp":
            return self.aliases(t[2])
        if k == "prev":
            return self.aliases(t[3])
        if k == "mu":
            return self.aliases(t[3]) | self.aliases(t[4])
        if k == "ifexp":
            return self.aliases(t[2]) | self.aliases(t[3])
        if k == "call":
            return self.call_aliases(t)
        return set()

    def callee_quals(self, t):
        """package functions a call may dispatch to"""
        f = t[1]
        if f[0] == "glob":
            q = f[1]
            if q in self.pkg.functions:
                return [q]
            if q in self.pkg.classes:
                return []
            return []
        if f[0] == "attr":
            return list(self.by_method.get(f[2], []))
        return []

    def map_params(self, q, call, names):
        """actual argument terms for the formal parameter names of package function q"""
        fn = self.pkg.functions[q]
        out = {}
        for pn in names:
            a = contracts.argument(self.pkg, call, pn, fn.call_params)
            if a is None or a == "unknown":
                if a == "unknown":
                    out[pn] = [x for x in call[2]] + [v for _k, v in call[3]]
                continue
            out[pn] = [a]
        return out

    def call_aliases(self, t):
        f, args, kws = t[1], t[2], t[3]
        name = callee(t)
        if f[0] == "glob":
            if name in VIEW_FUNCS or name in CONTAINER_FUNCS:
                s = set()
                for a in args:
                    s |= self.aliases(a)
                return s
            if name in COPY_FALSE_FUNCS and kw(t, "copy") is not None and kw(t, "copy") != ("const", True) and args:
                return self.aliases(args[0])
            if name in self.pkg.functions:
                s = set()
                for pn, actuals in self.map_params(name, t, self.ret_alias.get(name, ())).items():
                    for a in actuals:
                        s |= self.aliases(a)
                return s
            return set()
        if f[0] == "attr":
            if f[2] in VIEW_METHODS:
                return self.aliases(f[1])
            if f[2] == "astype" and kw(t, "copy") == ("const", False):
                return self.aliases(f[1])
            if f[2] in ("pop", "get", "setdefault") and f[1][0] == "param":
                # kwargs.pop("shape", default): an object the caller put into the container, or the default
                s = self.aliases(f[1])
                for a in args[1:]:
                    s |= self.aliases(a)
                return s
            s = set()
            for q in self.by_method.get(f[2], []):
                for pn, actuals in self.map_params(q, t, self.ret_alias.get(q, ())).items():
                    for a in actuals:
                        s |= self.aliases(a)
            return s
        return set()

    # ------------------------------------------------------------------ scalars (rebinding, not writes)
    def is_scalar(self, t):
        k = t[0]
        if k == "const":
            return True
        if k == "call" and callee(t) in SCALAR_FUNCS:
            return True
        if k == "fmt":
            return True
        if k == "attr" and t[2] in ("size", "ndim", "shape", "extra_coords_name", "name"):
            return True
        if k == "binop":
            return self.is_scalar(t[2]) and self.is_scalar(t[3])
        if k in ("idx",):
            return True
        if k == "elem":
            ps = {x[1] for x in walk(t[1]) if x[0] == "param"}
            return bool(ps) and ps <= SCALAR_TUPLE_PARAMS
        if k == "sub":
            # a SLICE of an array made from a parameter (np.asarray(shape)[::-1]) is an array view, not a scalar element: when the caller
            # passed an ndarray, np.asarray returns that very array and an augmented assignment on the slice writes into it
            base = t[1]
            if t[2][0] == "slice" and base[0] == "call" and callee(base) in ("numpy.asarray", "numpy.asanyarray", "numpy.atleast_1d", "numpy.array", "numpy.ravel"):
                if not (callee(base) == "numpy.array" and kw(base, "copy") in (None, ("const", True))):
                    return False
            ps = {x[1] for x in walk(t[1]) if x[0] == "param"}
            return (bool(ps) and ps <= SCALAR_TUPLE_PARAMS) or self.is_scalar(t[1])
        if k == "param":
            return t[1] in SCALAR_TUPLE_PARAMS
        if k == "prev":
            return self.is_scalar(t[3])
        return False

    # ------------------------------------------------------------------ writes of one path event
    def event_writes(self, ev):
        """[(alias, how)] for one event"""
        out = []
        if ev.kind == "store":
            base, idx, _val, kind = ev.data
            if kind == "container" or base[0] in ("dict", "list", "tuple", "comp"):
                return out
            for a in self.aliases(base):
                out.append((a, "subscript store into %s" % show(base)[:60]))
        elif ev.kind == "aug":
            if len(ev.data) > 4 and ev.data[4] == "rebind":
                return out            # x = x + y binds a new object to the name: nothing is written in place
            cur = ev.data[0]
            if self.is_scalar(cur):
                return out
            def fresh(t):
                return t[0] in ("list", "dict", "set", "comp") or (t[0] == "call" and callee(t) in ("builtins.list", "builtins.dict", "builtins.set")) \
                    or (t[0] == "binop" and t[1] == "+" and fresh(t[2]))
            if fresh(cur):
                return out            # `columns = [...]; columns += more` grows a container built here: its elements are not written
            for a in self.aliases(cur):
                out.append((a, "augmented assignment %s= on %s" % (ev.data[1], show(cur)[:60])))
        elif ev.kind == "call":
            t = ev.data[0]
            f, args, kws = t[1], t[2], t[3]
            name = callee(t)
            for kk, v in kws:
                if kk == "out":
                    for a in self.aliases(v):
                        out.append((a, "out=%s in %s" % (show(v)[:40], name)))
                if kk == "inplace" and v == ("const", True) and f[0] == "attr":
                    for a in self.aliases(f[1]):
                        out.append((a, "inplace=True in %s" % name))
            if name in COPY_FALSE_FUNCS and name == "numpy.nan_to_num" and kw(t, "copy") is not None and kw(t, "copy") != ("const", True) and args:
                for a in self.aliases(args[0]):
                    out.append((a, "nan_to_num(copy=%s)" % show(kw(t, "copy"))))
            if name in MUT_FUNCS and len(args) > MUT_FUNCS[name]:
                for a in self.aliases(args[MUT_FUNCS[name]]):
                    out.append((a, name))
            if f[0] == "attr" and f[2] in MUT_METHODS:
                for a in self.aliases(f[1]):
                    out.append((a, "." + f[2] + "()"))
            if f[0] == "attr" and f[2] in ("fit_transform", "transform") and f[1][0] == "call" and callee(f[1]) == "sklearn.preprocessing.StandardScaler":
                c = kw(f[1], "copy")
                if c != ("const", True) and args:
                    for a in self.aliases(args[0]):
                        out.append((a, "StandardScaler(copy=%s).%s" % (show(c) if c else "True?", f[2])))
                    if c is None:
                        out = [o for o in out if "StandardScaler" not in o[1]]   # default copy=True
            for q in self.callee_quals(t):
                w = self.writes.get(q)
                if not w:
                    continue
                for pn, actuals in self.map_params(q, t, list(w)).items():
                    for act in actuals:
                        for a in self.aliases(act):
                            out.append((a, "passes %s to %s which writes its parameter '%s' (%s)" % (show(act)[:40], q.split(".", 1)[1], pn, w[pn][0][:60])))
        return out

    def _fixpoint(self):
        quals = [q for q, fa in self.an.all() if fa.ok]
        nested = []
        for q in quals:
            for n, sub in self.an.fa(q).nested.items():
                if sub.ok:
                    nested.append((q + ".<locals>." + n, sub))
        fas = [(q, self.an.fa(q)) for q in quals] + nested
        for _ in range(6):
            changed = False
            for q, fa in fas:
                s = set()
                for p in fa.paths:
                    if p.exit == "return":
                        s |= {a for a in self.aliases(p.value) if not a.startswith("self.")}
                    for e in p.events:
                        if e.kind == "yield":
                            s |= {a for a in self.aliases(e.data[0]) if not a.startswith("self.")}
                if s != self.ret_alias.get(q):
                    self.ret_alias[q] = s
                    changed = True
            if not changed:
                break
        for _ in range(8):
            changed = False
            for q, fa in fas:
                for p in fa.paths:
                    for e in p.events:
                        for a, how in self.event_writes(e):
                            if a not in self.writes[q]:
                                self.writes[q][a] = (how, e.line)
                                changed = True
            if not changed:
                break
