"""Obligations, verdict discipline, baseline manifest, known findings, evidence, exit codes (DESIGN §2)."""
import hashlib
import json
import re
import os
import pathlib
import time
import traceback

from .loader import AnalysisError, Package
from .paths import Analysis, UndecidedFunction

VERIF = pathlib.Path(__file__).resolve().parent.parent
D, V, U = "DISCHARGED", "VIOLATED", "UNDECIDED"
RANK = {D: 0, U: 1, V: 2}


class Ob:
    __slots__ = ("rule", "construct", "verdict", "what", "line", "file", "nontrivial", "detail", "n", "soft")

    def __init__(self, rule, construct, verdict, what, file=None, line=None, nontrivial=True, detail="", soft=False):
        self.rule, self.construct, self.verdict, self.what = rule, construct, verdict, what
        self.file, self.line, self.nontrivial, self.detail, self.n = file, line, nontrivial, detail, 1
        self.soft = soft      # found by query at whatever typed sinks the current code has: not part of the must-re-find baseline

    @property
    def key(self):
        return self.rule + " " + self.construct

    def as_dict(self):
        d = {"rule": self.rule, "construct": self.construct, "verdict": self.verdict, "established": self.what,
             "evaluated_on_paths": self.n}
        if self.file:
            d["location_info"] = "%s:%s" % (self.file, self.line)
        if self.detail:
            d["detail"] = self.detail
        return d


class Ctx:
    def __init__(self, prop, tier, pkg, an):
        self.prop, self.tier, self.pkg, self.an = prop, tier, pkg, an
        self.obs = {}
        self.notes = []
        self.consulted = set()
        self.alias = {}        # rule-id renaming while a rule function of another property module is reused

    # ---- recording
    def add(self, rule, construct, verdict, what, fn=None, line=None, nontrivial=True, detail="", soft=False):
        rule = self.alias.get(rule, rule)
        rule = self.prop + "." + rule if not rule.startswith("C") else rule
        file = None
        if fn is not None:
            f = self.pkg.functions.get(fn) if isinstance(fn, str) else fn
            if f is not None:
                file = str(f.module.path)
                self.consulted.add(f.qual)
                if line is None:
                    line = f.node.lineno
        ob = Ob(rule, construct, verdict, what, file, line, nontrivial, detail, soft)
        old = self.obs.get(ob.key)
        if old is None:
            self.obs[ob.key] = ob
        else:
            old.n += 1
            if RANK[verdict] > RANK[old.verdict]:
                ob.n = old.n
                self.obs[ob.key] = ob
        return verdict == D

    def check(self, rule, construct, cond, what, bad=None, fn=None, line=None, nontrivial=True, undecided=None, soft=False):
        """cond True -> discharged; False -> violated (positively contradicted); None -> undecided"""
        if cond is True:
            return self.add(rule, construct, D, what, fn, line, nontrivial, soft=soft)
        if cond is False:
            return self.add(rule, construct, V, bad or ("NOT: " + what), fn, line, nontrivial, soft=soft)
        return self.add(rule, construct, U, undecided or ("cannot establish: " + what), fn, line, nontrivial, soft=soft)

    def note(self, text):
        self.notes.append(text)

    # ---- access with anchors
    def paths(self, qual):
        self.consulted.add(qual)
        return self.an.paths(qual)

    def fn(self, qual):
        return self.pkg.fn(qual)


def load_known():
    p = VERIF / "known_findings.json"
    if not p.exists():
        return []
    return json.loads(p.read_text()).get("findings", [])


_TAG = re.compile(r"\|(?:T|F|None|True|False|-|(?:not)?(?:==|!=|<=|>=|<|>|isnot|is|notin|in)[-\w.+]*)(?:,(?:T|F|None|True|False|-|(?:not)?(?:==|!=|<=|>=|<|>|isnot|is|notin|in)[-\w.+]*))*(?:/handler)?$")


def _untag(key):
    return _TAG.sub("|*", key)


def load_baseline(prop):
    p = VERIF / "baseline" / (prop + ".obligations.json")
    if not p.exists():
        return None
    return json.loads(p.read_text())


def run_property(prop, tier="quick", root="/repo/verde", overlay=None, write=True, quiet=False, rules_mod=None):
    """returns (exit_code, ctx, lines)"""
    t0 = time.time()
    seed = int(os.environ.get("VERIF_SEED", "0") or 0)
    lines = []
    ctx = None
    code = 0
    err = None
    try:
        pkg = Package(root, overlay=overlay)
        an = Analysis(pkg)
        ctx = Ctx(prop, tier, pkg, an)
        if rules_mod is None:
            import importlib
            rules_mod = importlib.import_module("vstat.rules." + prop.lower())
        rules_mod.check(ctx)
        if tier == "thorough" and hasattr(rules_mod, "check_thorough"):
            rules_mod.check_thorough(ctx)
        if getattr(rules_mod, "DEAD_PARAMETERS", True) and prop != "C99":
            from .rules import common as _common
            _common.dead_parameters(ctx)
            _common.permutation_gather(ctx)
            _common.shared_contracts(ctx)
            _common.library_keywords(ctx)
            _common.accumulate_uninitialised(ctx)
            _common.use_after_clobber(ctx)
            _common.inherited_dtype_stores(ctx)
            _common.late_binding_closures(ctx)
            _common.set_iteration_order(ctx)
            _common.memoised_results(ctx)
            _common.falsy_defaults(ctx)
            _common.chunked_loops(ctx)
            _common.foreign_dtype_casts(ctx)
            _common.lossy_cache_reads(ctx)
            _common.popped_keywords(ctx)
            _common.in_place_cannot_broadcast(ctx)
            _common.aliased_results(ctx)
            _common.flatten_orders(ctx)
            _common.fills_through_a_copy(ctx)
    except UndecidedFunction as e:
        err = "ANALYSIS-UNDECIDED property=%s unsupported construct in %s" % (prop, e)
    except AnalysisError as e:
        err = "ANALYSIS-ERROR property=%s %s" % (prop, e)
    except Exception as e:  # noqa: BLE001 - a crash of the analyser is never a verdict
        err = "ANALYSIS-ERROR property=%s analyser crashed: %r\n%s" % (prop, e, traceback.format_exc())
    obs = list(ctx.obs.values()) if ctx else []
    # baseline: every hand-confirmed obligation must be re-found
    base = load_baseline(prop) if overlay is None or True else None
    missing = []
    if base is not None and err is None:
        # per-path obligations carry the truth values of the path's decisions as a tag; how a branch is written (inverted test,
        # swapped arms) changes those tags but not the rule instances, so the tag is not part of what must be re-found
        have = {_untag(o.key) for o in obs}
        for k in base["obligations"]:
            if _untag(k) not in have:
                missing.append(k)
        mins = base.get("min_per_rule", {})
        # instance counts are taken over distinct rule instances, not over the paths they were found on (a refactor that merges or splits
        # branches changes the number of paths, not the number of instances)
        per = {}
        for o in obs:
            if not o.soft:
                per.setdefault(o.rule, set()).add(_untag(o.key))
        count = {r: len(v) for r, v in per.items()}
        for r, n in mins.items():
            if count.get(r, 0) < n:
                missing.append("%s: %d instances found, baseline confirms %d" % (r, count.get(r, 0), n))
    known = [k for k in load_known() if k["property"] == prop and k["status"] == "known"]
    viol, knownhits = [], []
    for o in obs:
        if o.verdict == V:
            hit = [k for k in known if k["rule"] == o.rule and k["construct"] == o.construct]
            (knownhits if hit else viol).append(o)
    und = [o for o in obs if o.verdict == U]
    for o in knownhits:
        lines.append("KNOWN-FINDING: property=%s %s %s: %s" % (prop, o.rule, o.construct, o.what))
    replay_dir = VERIF / "evidence" / "replay" / prop
    for o in viol:
        dg = hashlib.sha256(o.key.encode()).hexdigest()[:10]
        rp = replay_dir / ("%s-%s.json" % (o.rule.replace(".", "_"), dg))
        if write:
            replay_dir.mkdir(parents=True, exist_ok=True)
            rp.write_text(json.dumps({"property": prop, "tier": tier, **o.as_dict()}, indent=1))
        lines.append("VIOLATION property=%s replay=%s" % (prop, rp))
        lines.append("  %s at %s [%s:%s]: %s" % (o.rule, o.construct, o.file, o.line, o.what))
    if viol:
        code = 1
    elif err or und or missing:
        code = 2
    if err:
        lines.append(err)
    for o in und:
        lines.append("ANALYSIS-UNDECIDED property=%s %s at %s: %s" % (prop, o.rule, o.construct, o.what))
    for m in missing:
        lines.append("ANALYSIS-ERROR property=%s baseline obligation not re-found: %s" % (prop, m))
    # thorough tier: self-validation of the rules on in-memory variants of the CURRENT source (DESIGN 3.10).  Only meaningful when
    # the tree itself is clean - on a tree that already violates the property every variant inherits that violation.
    if tier == "thorough" and ctx is not None and overlay is None:
        if code == 0:
            from . import mutate
            res = mutate.run_corpus(prop, root=root, jobs=int(os.environ.get("VERIF_JOBS", "16")), seed=seed)
            applied = [r for r in res if r["ok"] is not None]
            wrong = [r for r in applied if r["ok"] is False]
            killed = [r for r in applied if r["expect"] == "VIOLATED" and r["ok"]]
            neutral = [r for r in applied if r["expect"] == "DISCHARGED" and r["ok"]]
            rules_hit = sorted({h[0] for r in killed for h in r["reported"]})
            constructs_hit = sorted({h[0] + " " + h[1] for r in killed for h in r["reported"]})
            ctx.extra_coverage = dict(getattr(ctx, "extra_coverage", None) or {})
            ctx.extra_coverage["kill_matrix"] = {
                "variants_total": len(res), "variants_applied": len(applied), "anchor_absent": [r["name"] for r in res if r["ok"] is None],
                "seeded_faults_reported": len(killed), "neutral_edits_silent": len(neutral), "wrong": [r["name"] for r in wrong],
                "rules_with_a_killing_variant": rules_hit, "distinct_obligations_falsified": len(constructs_hit),
                "entries": [{"variant": r["name"], "expected": r["expect"], "got": r["got"], "first_report": (r["reported"][0][0] + " " + r["reported"][0][1]) if r["reported"] else ""} for r in res],
            }
            for r in wrong:
                kind = "insensitive rule (seeded fault not reported)" if r["expect"] == "VIOLATED" else "brittle rule (behaviour-preserving edit not accepted)"
                lines.append("ANALYSIS-ERROR property=%s corpus variant '%s': expected %s, got %s - %s" % (prop, r["name"], r["expect"], r["got"], kind))
            if wrong:
                code = 2
            lines.append("%s thorough: corpus %d variants (%d applied): %d seeded faults reported, %d neutral edits silent, %d wrong" % (prop, len(res), len(applied), len(killed), len(neutral), len(wrong)))
            # (2) the current source after ALL behaviour-preserving rewrites at once must get the same verdict (DESIGN 8.6)
            from . import rewrites, patching
            try:
                rw = rewrites.transformed("composed", root)
                c2, _ctx2, l2 = run_property(prop, "quick", root=root, overlay=rw, write=False, quiet=True)
            except Exception as e:  # noqa: BLE001
                c2, l2 = 2, ["ANALYSIS-ERROR rewrite failed: %r" % e]
            ctx.extra_coverage["rewritten_tree"] = {"rewrites": list(rewrites.COMPOSED), "exit": c2}
            if c2 != 0:
                code = 2
                lines.append("ANALYSIS-ERROR property=%s the behaviour-preserving rewrite of the current tree is not accepted (exit %d): %s" % (prop, c2, "; ".join(x for x in l2 if x.startswith(("VIOL", "ANAL")))[:300]))
            # (3) the independently written breaking changes filed under /verif/seeded that this property reported when they were
            # filed are applied to the CURRENT source in memory and must still be reported - also after the rewrites
            sd = []
            for d in sorted((VERIF / "seeded").iterdir()) if (VERIF / "seeded").is_dir() else []:
                mp, pp = d / "meta.json", d / "patch.diff"
                if not (mp.exists() and pp.exists()):
                    continue
                meta = json.loads(mp.read_text())
                if not meta.get("checks", {}).get(prop, {}).get("violation"):
                    continue
                try:
                    ov = patching.overlay_for(pp.read_text(), root)
                except patching.DoesNotApply as e:
                    sd.append({"change": d.name, "applied": False, "why": str(e)})
                    continue
                c3, _c, _l = run_property(prop, "quick", root=root, overlay=ov, write=False, quiet=True)
                try:
                    full = rewrites.transformed("composed", root, texts=ov)
                    c4, _c, _l = run_property(prop, "quick", root=root, overlay=full, write=False, quiet=True)
                except Exception:  # noqa: BLE001
                    c4 = 2
                # a change whose defect IS the in-place form of an update (an aliased array scaled in place, an in-place product that cannot
                # broadcast) is repaired by the rewrite `x OP= y -> x = x OP y`, which is behaviour-preserving on the clean tree only: for those
                # meta.json says so ("rewrites_remove_defect") and only the verdict on the patched tree as written is required
                gone = bool(meta.get("rewrites_remove_defect"))
                sd.append({"change": d.name, "applied": True, "reported": c3 == 1, "reported_after_rewrites": c4 == 1, "rewrites_remove_defect": gone})
                if c3 != 1 or (c4 != 1 and not gone):
                    code = 2
                    lines.append("ANALYSIS-ERROR property=%s seeded change %s is no longer reported (exit %d, after rewrites %d): insensitive rule" % (prop, d.name, c3, c4))
            ctx.extra_coverage["seeded_changes"] = sd
            # (4) the independently written BEHAVIOUR-PRESERVING rewrites filed under /verif/neutral (confirmed by byte-identical transcripts on
            # thousands of calls) are applied to the current source in memory: a VIOLATED verdict on any of them is a false alarm of this check
            nt = []
            for d in sorted((VERIF / "neutral").iterdir()) if (VERIF / "neutral").is_dir() else []:
                pp = d / "patch.diff"
                if not pp.exists():
                    continue
                try:
                    ov = patching.overlay_for(pp.read_text(), root)
                except patching.DoesNotApply as e:
                    nt.append({"rewrite": d.name, "applied": False, "why": str(e)})
                    continue
                c5, _c, l5 = run_property(prop, "quick", root=root, overlay=ov, write=False, quiet=True)
                nt.append({"rewrite": d.name, "applied": True, "exit": c5})
                if c5 == 1:
                    code = 2
                    lines.append("ANALYSIS-ERROR property=%s false alarm on the behaviour-preserving rewrite %s: %s" % (prop, d.name, "; ".join(x.strip() for x in l5 if x.startswith("  C"))[:300]))
            ctx.extra_coverage["behaviour_preserving_rewrites"] = nt
            lines.append("%s thorough: %d filed behaviour-preserving rewrites re-applied in memory: %d silent, %d undecided, %d false alarms" % (
                prop, sum(1 for x in nt if x["applied"]), sum(1 for x in nt if x.get("exit") == 0), sum(1 for x in nt if x.get("exit") == 2), sum(1 for x in nt if x.get("exit") == 1)))
            lines.append("%s thorough: rewritten tree exit %d; %d filed breaking changes re-applied in memory, %d reported, %d reported after rewrites" % (
                prop, c2, sum(1 for x in sd if x["applied"]), sum(1 for x in sd if x.get("reported")), sum(1 for x in sd if x.get("reported_after_rewrites"))))
        else:
            lines.append("%s thorough: corpus self-validation skipped (the tree itself does not pass)" % prop)
    wall = time.time() - t0
    if ctx is not None and write:
        write_evidence(ctx, prop, tier, seed, obs, viol, knownhits, und, missing, err, wall, rules_mod)
    if not quiet:
        n = len(obs)
        lines.append("%s %s: %d obligations, %d discharged, %d undecided, %d violated (%d known) in %.2fs -> exit %d" % (
            prop, tier, n, sum(o.verdict == D for o in obs), len(und), len(viol) + len(knownhits), len(knownhits), wall, code))
    return code, ctx, lines


def write_evidence(ctx, prop, tier, seed, obs, viol, knownhits, und, missing, err, wall, rules_mod):
    pkg = ctx.pkg
    npaths = 0
    ncalls = 0
    for q in sorted(ctx.consulted):
        if q in ctx.an._fa and ctx.an._fa[q] is not None and ctx.an._fa[q].ok:
            ps = ctx.an._fa[q].paths
            npaths += len(ps)
            ncalls += sum(1 for p in ps for e in p.events if e.kind == "call")
    disc = [o for o in obs if o.verdict == D]
    nontriv = {o.key for o in obs if o.nontrivial}
    samples = [o.as_dict() for o in (viol + knownhits + und)[:10]] + [o.as_dict() for o in disc[:12]]
    cov = {
        "explanation": getattr(rules_mod, "EXPLANATION", "") or "static analysis of verde's source: every listed obligation is a dataflow/control-flow/"
        "algebraic fact established on every path of the anchored functions (see DESIGN.md section 4)",
        "obligations": len(obs),
        "discharged": len(disc),
        "undecided": len(und),
        "violated": len(viol) + len(knownhits),
        "known_findings": len(knownhits),
        "evaluations": max(1, sum(o.n for o in obs)),
        "distinct_nontrivial": len(nontriv),
        "rule": "one obligation per (rule, construct) instance found by query on the current syntax trees; an obligation is non-trivial "
                "when its discharge needed at least one dataflow / path / algebra step (not a bare literal lookup); distinct = distinct "
                "construct keys; 'evaluations' counts path-level evaluations of those obligations",
        "rules": getattr(rules_mod, "RULES", {}),
        "samples": samples,
        "functions_consulted": sorted(ctx.consulted),
        "paths_analysed": npaths,
        "call_sites_analysed": ncalls,
        "modules_parsed": len(pkg.modules),
        "source_digest": pkg.digest,
        "baseline_missing": missing,
        "notes": ctx.notes,
        "exhaustive": True,
        "trusted_base": ["CPython ast front end", "vstat analyser (unit-tested, corpus-validated)", "library model vstat/contracts.py + vstat/libmodel.py",
                         "formula transcriptions vstat/spec"],
        "checker_cmd": "/venv/bin/python -m vstat check %s --tier %s" % (prop, tier),
    }
    if err:
        cov["analysis_error"] = err.splitlines()[0]
    extra = getattr(ctx, "extra_coverage", None)
    if extra:
        cov.update(extra)
    ev = {
        "property_id": prop, "tier": tier, "seed": seed, "level": "other", "coverage": cov,
        "assumptions": getattr(rules_mod, "ASSUMPTIONS", []) + [
            "decides the structural clauses listed in DESIGN.md section 4 for this property, not the numerical behaviour",
            "library semantics as listed in DESIGN.md section 6",
        ],
        "wall_s": round(wall, 3), "violations": len(viol),
    }
    d = VERIF / "evidence"
    d.mkdir(exist_ok=True)
    (d / (prop + ".json")).write_text(json.dumps(ev, indent=1, default=str))
