"""Formulas of the coordinate helpers (docstrings of spacing_to_size, line_coordinates, shape_to_spacing,
pad_region, profile_coordinates, rolling_window, variance_to_weights)."""
import numpy as np


def spacing_to_size(start, stop, spacing, adjust):
    """'the number of intervals is the integer nearest to extent/spacing (at least one)';
    adjust='region' moves only the stop to start + (size - 1) * spacing."""
    if adjust not in ["spacing", "region"]:
        raise ValueError()
    n0 = int(round((stop - start) / spacing)) + 1
    if n0 == 1:
        n = n0 + 1
        if adjust == "region":
            return n, start + (n - 1) * spacing
        return n, stop
    if adjust == "region":
        return n0, start + (n0 - 1) * spacing
    return n0, stop


def pixel_shift(values):
    """line_coordinates: pixel registration returns the interval midpoints (drops the last node)."""
    return values[:-1] + (values[1] - values[0]) / 2


def shape_to_spacing_grid(region, shape):
    """shape_to_spacing, grid-node registration: (N - S) / (n_north - 1), (E - W) / (n_east - 1)."""
    return (region[3] - region[2]) / (shape[0] - 1), (region[1] - region[0]) / (shape[1] - 1)


def shape_to_spacing_pixel(region, shape):
    """shape_to_spacing, pixel registration: (N - S) / n_north, (E - W) / n_east."""
    return (region[3] - region[2]) / shape[0], (region[1] - region[0]) / shape[1]


def pad_region(region, pad_north, pad_east):
    """pad_region: each bound moves outwards, pad = (pad_north, pad_east)."""
    return region[0] - pad_east, region[1] + pad_east, region[2] - pad_north, region[3] + pad_north


def window_region(region, size):
    """rolling_window: the centre region is the region shrunk by half a window on each side."""
    return region[0] + size / 2, region[1] - size / 2, region[2] + size / 2, region[3] - size / 2


def profile_coordinates(point1, point2, size):
    """profile_coordinates: size points evenly spaced on the segment point1 -> point2, with the Cartesian distance from point1."""
    separation = np.hypot(point2[0] - point1[0], point2[1] - point1[1])
    distances = np.linspace(0, separation, size)
    angle = np.arctan2(point2[1] - point1[1], point2[0] - point1[0])
    return (point1[0] + distances * np.cos(angle), point1[1] + distances * np.sin(angle)), distances


def get_region(easting, northing):
    """get_region: the tight bounding box (W, E, S, N) of the first two coordinates."""
    return np.min(easting), np.max(easting), np.min(northing), np.max(northing)
