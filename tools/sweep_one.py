import sys
sys.path.insert(0,'/verif'); sys.path.insert(0,'/verif/tools')
import neutral_sweep as ns
from vstat import report
kind, pid = sys.argv[1], sys.argv[2]
ov = ns.transformed(kind)
code, ctx, lines = report.run_property(pid, "quick", overlay=ov, write=False, quiet=True)
for ln in lines:
    if ln.startswith(("  C","ANAL")): print(ln[:420])
if len(sys.argv)>3:
    import difflib, pathlib
    f=sys.argv[3]
    print(ov[f])
