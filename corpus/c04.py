"""Seeded faults and neutral edits for C04 (the first five re-introduce the defects repaired by the fix: commits F3-F5)."""
S, T, V, N, BU, L = "spline.py", "trend.py", "vector.py", "neighbors.py", "base/utils.py", "base/least_squares.py"
ENTRIES = [
    dict(name="F3 Spline.predict buffer with the coordinates' dtype", rule="R4", file=S, old="data = np.empty(east.size, dtype=np.result_type(east.dtype, np.float32))", new="data = np.empty(east.size, dtype=east.dtype)"),
    dict(name="F3 Trend.predict buffer with the coordinates' dtype", rule="R4", file=T, old="data = np.zeros(easting.size, dtype=np.result_type(easting.dtype, np.float32))", new="data = np.zeros(easting.size, dtype=easting.dtype)"),
    dict(name="F3 VectorSpline2D.predict buffers with the coordinates' dtype", rule="R4", file=V, old="components = (np.empty(npoints, dtype=np.result_type(east.dtype, np.float32)), np.empty(npoints, dtype=np.result_type(east.dtype, np.float32)))",
         new="components = (np.empty(npoints, dtype=east.dtype), np.empty(npoints, dtype=east.dtype))"),
    dict(name="F4 Trend.fit design matrix with the data's dtype", rule="R4", file=T, old="jac = self.jacobian((easting, northing), dtype=np.result_type(data.dtype, np.float32))", new="jac = self.jacobian((easting, northing), dtype=data.dtype)"),
    dict(name="F5 VectorSpline2D.predict unpacks raw force_coords", rule="R5", file=V, old="force_east, force_north = n_1d_arrays(self.force_coords, n=2)", new="force_east, force_north = self.force_coords"),
    dict(name="Spline.predict buffer like the coordinates (empty_like)", rule="R4", file=S, old="data = np.empty(east.size, dtype=np.result_type(east.dtype, np.float32))", new="data = np.empty_like(coordinates[0]).ravel()", expect="VIOLATED"),
    dict(name="Spline.jacobian integer matrix", rule="R4", file=S, old="jac = np.empty((east.size, force_east.size), dtype=dtype)", new="jac = np.empty((east.size, force_east.size), dtype=int)"),
    dict(name="np.ravel(data, order='F') in least_squares", rule="R1", file=L, old="regr.fit(jacobian, np.ravel(data), sample_weight=weights)", new="regr.fit(jacobian, np.ravel(data, order='F'), sample_weight=weights)"),
    dict(name=".flatten('F') in n_1d_arrays", rule="R1", file=BU, old="return tuple((np.ravel(np.atleast_1d(i)) for i in arrays[:n]))", new="return tuple((np.atleast_1d(i).flatten('F') for i in arrays[:n]))"),
    dict(name="KNeighbors.predict reshape(order='F')", rule="R1", file=N, old="return data.reshape(shape)", new="return data.reshape(shape, order='F')"),
    dict(name="Spline.predict reshaped to easting's shape", rule="R3", file=S, old="shape = np.broadcast(*coordinates[:2]).shape", new="shape = coordinates[0].shape"),
    dict(name="Trend.predict returns flat", rule="R3", file=T, old="        return data.reshape(shape)", new="        return data"),
    dict(name="VectorSpline2D.predict reshaped to northing's shape", rule="R3", file=V, old="return tuple((comp.reshape(cast.shape) for comp in components))", new="return tuple((comp.reshape(coordinates[1].shape) for comp in components))"),
    dict(name="Spline.jacobian on raw coordinates", rule="R2", file=S, old="        east, north = n_1d_arrays(coordinates, n=2)\n        jac = np.empty", new="        east, north = coordinates[:2]\n        jac = np.empty"),
    dict(name="Trend.predict on raw coordinates", rule="R2", file=T, old="        easting, northing = n_1d_arrays(coordinates, 2)\n        shape = np.broadcast", new="        easting, northing = coordinates[:2]\n        shape = np.broadcast"),
    dict(name="neutral: promote_types spelling", expect="DISCHARGED", file=S, old="dtype=np.result_type(east.dtype, np.float32))", new="dtype=np.promote_types(east.dtype, np.float32))"),
    dict(name="neutral: float64 buffer", expect="DISCHARGED", file=T, old="data = np.zeros(easting.size, dtype=np.result_type(easting.dtype, np.float32))", new="data = np.zeros(easting.size, dtype='float64')"),
    dict(name="neutral: default dtype buffer", expect="DISCHARGED", file=T, old="data = np.zeros(easting.size, dtype=np.result_type(easting.dtype, np.float32))", new="data = np.zeros(easting.size)"),
    dict(name="neutral: explicit C order", expect="DISCHARGED", file=BU, old="return tuple((np.ravel(np.atleast_1d(i)) for i in arrays[:n]))", new="return tuple((np.ravel(np.atleast_1d(i), order='C') for i in arrays[:n]))"),
]
