"""C01 - exact interpolators reproduce the data at the data points (DESIGN §4 C01)."""
from .. import q as Q
from ..nf import Builder, Space, Undecided, compare
from ..paths import lookup
from ..terms import callee, canon, const, is_const, is_int, kw, show, walk, NONE
from . import common as K

EXPLANATION = ("dataflow of the force coordinates / design matrix / data / damping into the solver, configuration and normal form of the scaling undo in least_squares, "
               "shared-state checks between fit and predict, SciPy point order, Trend monomial/coefficient pairing; the exact-interpolation guarantee then follows from the "
               "libraries' semantics applied to correctly routed arguments")
RULES = {
    "R1": "with force_coords None the forces sit at (copies of) the raveled data coordinates; jacobian(coordinates[:2], forces)",
    "R2": "least_squares(J, D, W, damping) receives the fresh Jacobian, data derived from the data parameter only, damping = self.damping (Trend: None)",
    "R3": "least_squares: StandardScaler(with_mean=False, with_std=True).fit_transform(jacobian) is what the regressor fits; fit_intercept=False; damping None -> LinearRegression else Ridge(alpha=damping); returns coef_ / scale_",
    "R4": "predict uses the force coordinates and force_ stored by fit (and the same mindist / poisson, C03.R3)",
    "R5": "KNeighbors: tree and data_ from the same fit call, gather data_[indices], k = self.k, reduce along axis=1",
    "R6": "SciPy gridders: fit stacks (ravel E, ravel N) columns and ravel(data) values; predict passes (E, N)",
    "R7": "Trend predict and jacobian use the same monomials easting^i * northing^j for the same combinations; coefficient k pairs with combination k",
    "R9": "compositions keep exactness: Chain threads residuals through every step and sums every step's prediction, Vector pairs component i with data[i] (C06.R1-R3)",
    "R8": "the shared helpers number the points like the data: n_1d_arrays ravels in C order, kdtree indexes the points in n_1d_arrays order",
}
ASSUMPTIONS = ["the tolerance/conditioning statement and every numeric equality are declined (solver accuracy is a property of LAPACK/scikit-learn, not of verde's source)"]
LS = "verde.base.least_squares.least_squares"


def cfi_of(p):
    c = [e.data[0] for e in p.events if e.kind == "call" and callee(e.data[0]) == "verde.base.utils.check_fit_input"]
    return c[0] if c else None


def r1_r2_fits(ctx):
    for cq, store in (("verde.spline.Spline", "force_coords_"), ("verde.vector.VectorSpline2D", "force_coords")):
        qn = cq + ".fit"
        for p in ctx.paths(qn):
            if p.exit != "return":
                continue
            cfi = cfi_of(p)
            none = lookup(p.decided, ("cmp", "is", Q.self_attr("force_coords"), NONE))
            tag = ("data-forces" if none else "given-forces") + ("" if cq.endswith("Spline") else (",weights" if any(c[0] == "call" and callee(c) == "builtins.any" and v for c, v in p.conds) else ",noweights"))
            if cfi is None:
                ctx.add("R1", "%s|validated-input|%s" % (qn, tag), "VIOLATED", "fit does not validate its input", fn=qn)
                continue
            sets = {e.data[1]: e.data[2] for e in p.events if e.kind == "setattr" and e.data[0] == Q.SELF}
            if store.endswith("_"):
                # the None-ness of the constructor parameter selects "forces at the data points"; a fit that fills the parameter in
                # makes every later fit take the given-forces branch with the FIRST data set's points
                ctx.check("R1", "%s|force_coords-parameter-untouched|%s" % (qn, tag), False if "force_coords" in sets else True, "fit leaves the constructor parameter force_coords alone",
                          bad="fit writes self.force_coords: a refit on other data keeps the first data set's force positions and no longer interpolates", fn=qn)
            jc = [e.data[0] for e in p.events if e.kind == "call" and e.data[0][1] == ("attr", Q.SELF, "jacobian")]
            ls = [e.data[0] for e in p.events if e.kind == "call" and callee(e.data[0]) == LS]
            if len(jc) != 1 or len(ls) != 1:
                ctx.add("R2", "%s|one-jacobian-one-solve|%s" % (qn, tag), "UNDECIDED", "expected one jacobian and one least_squares call", fn=qn)
                continue
            j, l_ = jc[0], ls[0]
            n1d = Q.call(ctx, "verde.base.utils.n_1d_arrays", Q.sub(cfi, 0), const(2))
            if none:
                fc = sets.get(store)
                ok = None
                if fc is not None and fc[0] == "tuple" and len(fc[1]) == 2:
                    srcs = [Q.unwrap(x) for x in fc[1]]
                    want = [Q.sub(n1d, 0), Q.sub(n1d, 1)]
                    alt = [Q.sub(("call", ("glob", "verde.base.utils.n_1d_arrays"), (Q.sub(cfi, 0), const(2)), (), 0), k) for k in range(2)]
                    copied = all(x[0] == "call" and (x[1][0] == "attr" and x[1][2] == "copy" or callee(x) in ("numpy.array", "numpy.copy")) for x in fc[1])
                    if [canon(s) for s in srcs] in ([canon(w) for w in want], [canon(w) for w in alt]):
                        ok = True if copied else None
                    elif [canon(s) for s in srcs] in ([canon(w) for w in want[::-1]], [canon(w) for w in alt[::-1]]):
                        ok = False
                why = "the force coordinates are the data coordinates in reversed (northing, easting) order"
                if fc is None and store.endswith("_") and len(j[2]) >= 2 and j[2][1] == Q.self_attr(store):
                    # no forces were configured, none are derived from this data on this path, and the Jacobian is built on the
                    # fitted attribute: these are the forces of an EARLIER fit, so the spline does not interpolate the new data
                    ok, why = False, "on this path self.%s is not set from the data given to fit but read back from a previous fit: a refit on other data keeps the old force positions" % store
                ctx.check("R1", "%s|forces-at-data-points|%s" % (qn, tag), ok, "the force coordinates are copies of the raveled (easting, northing) data coordinates",
                          bad=why, fn=qn, undecided="force coordinates are %s" % (show(fc)[:80] if fc else None))
                forces = fc
            else:
                forces = Q.self_attr("force_coords")
                if store == "force_coords_":
                    ctx.check("R1", "%s|given-forces-stored|%s" % (qn, tag), True if sets.get(store) == forces else None, "given force coordinates are used as they are", fn=qn)
            a = j[2]
            okj = None
            if len(a) >= 2:
                okj = True if a[0] == ("sub", Q.sub(cfi, 0), ("slice", NONE, const(2), NONE)) and a[1] == forces else (False if forces is not None and a[0] == forces else None)
            ctx.check("R1", "%s|jacobian(observations, forces)|%s" % (qn, tag), okj, "the Jacobian is built for (validated coordinates[:2], force coordinates)", bad="observation and force coordinates are swapped in the jacobian call", fn=qn)
            # solver plumbing
            jac, data, wts, damp = (Q.arg(ctx, l_, nm) for nm in ("jacobian", "data", "weights", "damping"))
            ctx.check("R2", "%s|solver-gets-this-jacobian|%s" % (qn, tag), True if jac == j else (False if isinstance(jac, tuple) and Q.is_self_attr(jac) else None), "least_squares receives the freshly built Jacobian", bad="least_squares receives %s" % (show(jac)[:60] if isinstance(jac, tuple) else jac), fn=qn)
            dl = Q.leaves(data) if isinstance(data, tuple) else set()
            only_data = isinstance(data, tuple) and any(x == Q.sub(cfi, 1) for x in walk(data)) and not any(x == Q.sub(cfi, 2) for x in walk(data))
            ctx.check("R2", "%s|solver-gets-the-data|%s" % (qn, tag), True if only_data else (False if isinstance(data, tuple) and any(x == Q.sub(cfi, 2) for x in walk(data)) else None),
                      "the right-hand side derives from the validated data only", bad="the solver's data argument is built from the weights", fn=qn)
            ctx.check("R2", "%s|solver-gets-self.damping|%s" % (qn, tag), True if damp == Q.self_attr("damping") else (False if damp is None or (isinstance(damp, tuple) and (is_const(damp) or Q.leaves(damp) == {Q.self_attr("damping")})) else None),
                      "damping = self.damping", bad="least_squares receives damping=%s" % (show(damp) if isinstance(damp, tuple) else "the default (None)"), fn=qn)
            st = "force_"
            ctx.check("R2", "%s|force_-is-the-solution|%s" % (qn, tag), True if sets.get(st) == l_ else None, "force_ stores the solver's result", fn=qn)
    qn = "verde.trend.Trend.fit"
    for p in ctx.paths(qn):
        if p.exit != "return":
            continue
        cfi = cfi_of(p)
        ls = [e.data[0] for e in p.events if e.kind == "call" and callee(e.data[0]) == LS]
        jc = [e.data[0] for e in p.events if e.kind == "call" and e.data[0][1] == ("attr", Q.SELF, "jacobian")]
        if cfi is None or len(ls) != 1 or len(jc) != 1:
            ctx.add("R2", qn + "|structure", "UNDECIDED", "expected validation, one jacobian and one solve", fn=qn)
            continue
        l_, j = ls[0], jc[0]
        jac, data, damp = (Q.arg(ctx, l_, nm) for nm in ("jacobian", "data", "damping"))
        ctx.check("R2", qn + "|solver-gets-this-jacobian", True if jac == j else None, "least_squares receives the design matrix just built", fn=qn)
        ctx.check("R2", qn + "|solver-gets-the-data", True if data == Q.sub(cfi, 1) else (False if data == Q.sub(cfi, 2) else None), "the right-hand side is the validated data", bad="the solver's data argument is the weights", fn=qn)
        ctx.check("R2", qn + "|undamped", True if damp in (None, NONE) else (False if isinstance(damp, tuple) and is_const(damp) else None), "a trend is fitted without damping", bad="the trend is fitted with damping=%s" % (show(damp) if isinstance(damp, tuple) else damp), fn=qn)
        co = j[2][0] if j[2] else None
        n1d = ("call", ("glob", "verde.base.utils.n_1d_arrays"), (Q.sub(cfi, 0), const(2)), (), 0)
        okc = co is not None and co[0] == "tuple" and [canon(x) for x in co[1]] == [canon(Q.sub(n1d, 0)), canon(Q.sub(n1d, 1))]
        sw = co is not None and co[0] == "tuple" and [canon(x) for x in co[1]] == [canon(Q.sub(n1d, 1)), canon(Q.sub(n1d, 0))]
        ctx.check("R2", qn + "|design-matrix-on-(easting, northing)", True if okc else (False if sw else None), "the design matrix is built on the raveled (easting, northing)", bad="the design matrix is built on (northing, easting)", fn=qn)
        sets = {e.data[1]: e.data[2] for e in p.events if e.kind == "setattr" and e.data[0] == Q.SELF}
        ctx.check("R2", qn + "|coef_-is-the-solution", True if sets.get("coef_") == l_ else None, "coef_ stores the solver's result", fn=qn)


def r3_least_squares(ctx, rule="R3"):
    qn = LS
    n = 0
    for p in ctx.paths(qn):
        if p.exit != "return":
            continue
        n += 1
        none = lookup(p.decided, ("cmp", "is", ("param", "damping"), NONE))
        first = p.conds[0] if p.conds else None
        under = first is not None and first[1] and first[0][0] == "cmp" and first[0][1] in (">", "<") and first[0][2][0] == "sub" and first[0][3][0] == "sub"
        tag = ("undamped" if none else "damped") + ("," + ("under" if under else "over"))
        sc = [e.data[0] for e in p.events if e.kind == "call" and callee(e.data[0]) == "sklearn.preprocessing.StandardScaler"]
        ft = [e.data[0] for e in p.events if e.kind == "call" and callee(e.data[0]) == ".fit_transform"]
        rg = [e.data[0] for e in p.events if e.kind == "call" and callee(e.data[0]) in ("sklearn.linear_model.LinearRegression", "sklearn.linear_model.Ridge")]
        fits = [e.data[0] for e in p.events if e.kind == "call" and callee(e.data[0]) == ".fit" and e.data[0][1][1] in rg]
        if len(sc) != 1 or len(ft) > 1 or len(rg) != 1 or len(fits) != 1:
            ctx.add(rule, "%s|structure|%s" % (qn, tag), "UNDECIDED", "expected one scaler, at most one fit_transform, one regressor and one regressor fit", fn=qn)
            continue
        s, r, f = sc[0], rg[0], fits[0]
        t = ft[0] if ft else ("const", "<no fit_transform>")
        wm, ws = Q.arg(ctx, s, "with_mean"), Q.arg(ctx, s, "with_std")
        ctx.check(rule, "%s|scaler-with_mean-False|%s" % (qn, tag), True if wm == const(False) else (False if wm in (None, const(True)) else None), "columns are not centred (with_mean=False): the scaling can be undone exactly",
                  bad="StandardScaler centres the columns (with_mean=%s): the transformation cannot be undone by dividing by scale_" % (show(wm) if isinstance(wm, tuple) else "True by default"), fn=qn)
        ctx.check(rule, "%s|scaler-with_std-True|%s" % (qn, tag), True if ws in (None, const(True)) else (False if ws == const(False) else None), "columns are scaled to unit variance", bad="with_std=False: no scaling while scale_ is still divided out", fn=qn)
        ctx.check(rule, "%s|scaler-copy-flag|%s" % (qn, tag), True if Q.arg(ctx, s, "copy") == ("param", "copy_jacobian") else None, "copy follows copy_jacobian", fn=qn)
        ctx.check(rule, "%s|scaled-matrix-is-fitted|%s" % (qn, tag), True if ft and t[1][1] == s and t[2] == (("param", "jacobian"),) and f[2] and f[2][0] == t else (False if f[2] and f[2][0] == ("param", "jacobian") else None),
                  "the regressor is fitted on scaler.fit_transform(jacobian)", bad="the regressor is fitted on the unscaled Jacobian while coef_ is divided by scale_", fn=qn)
        fi = Q.arg(ctx, r, "fit_intercept")
        ctx.check(rule, "%s|no-intercept|%s" % (qn, tag), True if fi == const(False) else (False if fi in (None, const(True)) else None), "fit_intercept=False", bad="the regressor fits an intercept that predict never adds", fn=qn)
        want = "sklearn.linear_model.LinearRegression" if none else "sklearn.linear_model.Ridge"
        ctx.check(rule, "%s|regressor-choice|%s" % (qn, tag), True if callee(r) == want else False, "damping %s selects %s" % ("None" if none else "given", want.rsplit(".", 1)[1]),
                  bad="damping %s selects %s" % ("None" if none else "given", callee(r).rsplit(".", 1)[1]), fn=qn)
        if not none:
            al = Q.arg(ctx, r, "alpha")
            ctx.check(rule, "%s|alpha-is-damping|%s" % (qn, tag), True if al == ("param", "damping") else (False if al is None or (isinstance(al, tuple) and (is_const(al) or Q.leaves(al) == {("param", "damping")})) else None),
                      "Ridge(alpha=damping)", bad="Ridge receives alpha=%s" % (show(al) if isinstance(al, tuple) else "1.0 (default)"), fn=qn)
        else:
            al = Q.arg(ctx, r, "alpha")
            ctx.check(rule, "%s|undamped-has-no-alpha|%s" % (qn, tag), True if al is None else None, "no regularisation without damping", fn=qn)
        # the regressor that is fitted is the one whose coef_ is returned
        v = p.value
        sp = Space()
        env = {("attr", r, "coef_"): sp.sym("coef"), ("attr", s, "scale_"): sp.sym("scale")}
        try:
            got = Builder(sp).nf(v, env)
            want_nf = sp.sym("coef") / sp.sym("scale")
            ok = compare(sp, got, want_nf)
            if ok is None and got.atoms_used() <= {sp.atom("sym", "coef"), sp.atom("sym", "scale")}:
                ok = False
        except Undecided:
            ok, got = None, "?"
        ctx.check(rule, "%s|returns-coef_/scale_|%s" % (qn, tag), ok, "parameters = regr.coef_ / scaler.scale_ (column scaling undone)", bad="least_squares returns %s" % repr(got)[:80], fn=qn, undecided="return value %s" % show(v)[:80])
        ctx.check(rule, "%s|fit-on-this-regressor|%s" % (qn, tag), True if f[1][1] == r else None, "the fitted regressor is the one whose coef_ is returned", fn=qn)
        y = f[2][1] if len(f[2]) > 1 else kw(f, "y")
        oky = None
        if y is not None:
            src = Q.unwrap(y)
            from .c18 import order_args
            oky = True if src == ("param", "data") and not order_args(y) else (False if order_args(y) or src == ("param", "weights") else None)
        ctx.check(rule, "%s|rhs-is-raveled-data|%s" % (qn, tag), oky, "the right-hand side is the C-order ravel of data", bad="the right-hand side is %s" % (show(y)[:60] if y else None), fn=qn)
        sw = kw(f, "sample_weight")
        W = ("param", "weights")
        if isinstance(sw, tuple) and Q.unwrap(sw) == W:
            oksw = True
        elif sw is None or sw == NONE:
            # no sample_weight: the weights are either dropped (definite) or applied by hand to the matrix and the right-hand side, which the
            # rule cannot certify as equivalent (undecided, not a violation)
            by_hand = any(W in Q.leaves(a) for a in f[2] if isinstance(a, tuple))
            oksw = None if by_hand else False
            if lookup(p.decided, ("cmp", "is", W, NONE)) is True:
                oksw = True           # a path on which no weights were given
        elif isinstance(sw, tuple) and (sw == ("param", "data") or Q.leaves(sw) == {W}):
            oksw = False          # another array, or a non-identity function of the weights alone (sqrt, rescaling by their own maximum, ...)
        else:
            oksw = None
        ctx.check(rule, "%s|sample_weight|%s" % (qn, tag), oksw, "sample_weight = weights", fn=qn,
                  bad="the regressor is fitted with sample_weight=%s" % (show(sw) if isinstance(sw, tuple) else "None (weights dropped)"),
                  undecided="the weights are not passed as sample_weight but applied to the system by hand: equivalence with the weighted problem is not established")
        if ft:
            extra = [a for a in t[2][1:]] + [v_ for k_, v_ in t[3] if k_ not in ("y",) or v_ != NONE]
            ctx.check(rule, "%s|scaler-statistics-from-the-jacobian-only|%s" % (qn, tag), False if extra else True, "the column scales are computed from the Jacobian alone",
                      bad="fit_transform receives %s besides the Jacobian: the column scaling (and with it the damping penalty) depends on it" % show(extra[0])[:50] if extra else "", fn=qn)
    if n < 2:
        ctx.add(rule, qn + "|paths", "UNDECIDED", "damped and undamped paths not both found", fn=qn)


def r4_shared_state(ctx):
    for cq, fc_attr in (("verde.spline.Spline", "force_coords_"), ("verde.vector.VectorSpline2D", "force_coords")):
        qn = cq + ".predict"
        for p in ctx.paths(qn):
            if p.exit != "return":
                continue
            kc = [e.data[0] for e in p.events if e.kind == "call" and e.data[0][1][0] == "glob" and e.data[0][1][1].rsplit(".", 1)[1].startswith("predict_")]
            if len(kc) != 1:
                ctx.add("R4", qn + "|one-kernel-call", "UNDECIDED", "expected one predict kernel call per path", fn=qn)
                continue
            k = kc[0]
            tag = callee(k).rsplit("_", 1)[1]
            forces = Q.arg(ctx, k, "forces")
            ctx.check("R4", "%s|uses-force_|%s" % (qn, tag), True if forces == Q.self_attr("force_") else (False if isinstance(forces, tuple) and (Q.is_self_attr(forces) or is_const(forces)) else None),
                      "the kernel receives self.force_", bad="the kernel receives forces=%s" % (show(forces) if isinstance(forces, tuple) else forces), fn=qn)
            fe, fn_ = Q.arg(ctx, k, "force_east"), Q.arg(ctx, k, "force_north")
            src = Q.call(ctx, "verde.base.utils.n_1d_arrays", Q.self_attr(fc_attr), const(2))
            ok = True if isinstance(fe, tuple) and isinstance(fn_, tuple) and canon(Q.unwrap(fe)) in (canon(Q.sub(src, 0)), canon(Q.sub(Q.self_attr(fc_attr), 0))) and canon(Q.unwrap(fn_)) in (canon(Q.sub(src, 1)), canon(Q.sub(Q.self_attr(fc_attr), 1))) else \
                (False if isinstance(fe, tuple) and isinstance(fn_, tuple) and canon(Q.unwrap(fe)) in (canon(Q.sub(src, 1)), canon(Q.sub(Q.self_attr(fc_attr), 1))) else None)
            ctx.check("R4", "%s|uses-stored-force-coordinates|%s" % (qn, tag), ok, "the kernel receives the force coordinates stored by fit (easting, northing)", bad="force easting and northing are swapped", fn=qn)
            e_, n_ = Q.arg(ctx, k, "east"), Q.arg(ctx, k, "north")
            q1 = Q.call(ctx, "verde.base.utils.n_1d_arrays", ("param", "coordinates"), const(2))
            oke = True if isinstance(e_, tuple) and canon(Q.unwrap(e_)) == canon(Q.sub(q1, 0)) and canon(Q.unwrap(n_)) == canon(Q.sub(q1, 1)) else (False if isinstance(e_, tuple) and canon(Q.unwrap(e_)) == canon(Q.sub(q1, 1)) else None)
            ctx.check("R4", "%s|query-points|%s" % (qn, tag), oke, "the kernel receives the raveled query (easting, northing)", bad="query easting and northing are swapped", fn=qn)


def r6_scipy(ctx):
    cq = "verde.scipygridder._BaseScipyGridder"
    qn = cq + ".fit"
    K.roles_rule(ctx, "R6", [qn, cq + ".predict"], with_return=False)
    for p in ctx.paths(qn):
        if p.exit != "return":
            continue
        cfi = cfi_of(p)
        sets = {e.data[1]: e.data[2] for e in p.events if e.kind == "setattr" and e.data[0] == Q.SELF}
        it = sets.get("interpolator_")
        tag = "weights" if lookup(p.decided, ("cmp", "is", ("param", "weights"), NONE)) is False else "noweights"
        if it is None or cfi is None or it[0] != "call" or len(it[2]) < 2:
            ctx.add("R6", "%s|interpolator_|%s" % (qn, tag), "UNDECIDED", "interpolator_ construction not recognised", fn=qn)
            continue
        pts, vals = it[2][0], it[2][1]
        ok = None
        if pts[0] == "call" and callee(pts) in ("numpy.column_stack", "numpy.transpose") and pts[2]:
            tup = pts[2][0]
            if tup[0] in ("tuple", "list") and len(tup[1]) == 2:
                srcs = [canon(Q.unwrap(x)) for x in tup[1]]
                want = [canon(Q.sub(Q.sub(cfi, 0), 0)), canon(Q.sub(Q.sub(cfi, 0), 1))]
                ok = True if srcs == want else (False if srcs == want[::-1] else None)
        ctx.check("R6", "%s|points-are-(E, N)-columns|%s" % (qn, tag), ok, "points = column_stack((ravel(easting), ravel(northing)))", bad="points are stacked as (northing, easting) while predict passes (easting, northing)", fn=qn)
        okv = canon(Q.unwrap(vals)) == canon(Q.sub(cfi, 1))
        ctx.check("R6", "%s|values-are-raveled-data|%s" % (qn, tag), True if okv else (False if canon(Q.unwrap(vals)) == canon(Q.sub(cfi, 2)) else None), "values = ravel(data)", bad="the interpolator is built on the weights", fn=qn)
    qn = cq + ".predict"
    co = ("param", "coordinates")
    for p in ctx.paths(qn):
        if p.exit != "return":
            continue
        v = p.value
        ok = None
        if v[0] == "call" and v[1] == Q.self_attr("interpolator_") and len(v[2]) in (1, 2):
            # SciPy's N-D interpolators accept f((x, y)) and f(x, y) alike (documented: "*args: points to interpolate data at")
            a = v[2][0] if len(v[2]) == 1 else ("tuple", tuple(v[2]))
            ok = True if a == ("tuple", (Q.sub(co, 0), Q.sub(co, 1))) else (False if a == ("tuple", (Q.sub(co, 1), Q.sub(co, 0))) else None)
        ctx.check("R6", qn + "|query-is-(E, N)", ok, "predict evaluates interpolator_((easting, northing))", bad="predict passes (northing, easting)", fn=qn)


def r7_trend(ctx):
    cq = "verde.trend.Trend"
    combos = ("call", ("glob", "verde.trend.polynomial_power_combinations"), (Q.self_attr("degree"),), (), 0)
    forms = {}
    for m in ("predict", "jacobian"):
        qn = cq + "." + m
        for p in ctx.paths(qn):
            if p.exit != "return":
                continue
            pc = [e.data[0] for e in p.events if e.kind == "call" and callee(e.data[0]) == "verde.trend.polynomial_power_combinations"]
            ctx.check("R7", qn + "|combinations-for-self.degree", True if pc and all(canon(c) == canon(combos) for c in pc) else (False if pc and any(c[2] and is_const(c[2][0]) for c in pc) else None),
                      "monomials come from polynomial_power_combinations(self.degree)", bad="the combinations are not those of self.degree", fn=qn)
            loops = [e for e in p.events if e.kind == "loop-enter"]
            if len(loops) != 1:
                ctx.add("R7", qn + "|one-loop", "UNDECIDED", "expected one loop over the combinations", fn=qn)
                continue
            it, lid = loops[0].data[1], loops[0].data[0]
            n1d = ("call", ("glob", "verde.base.utils.n_1d_arrays"), (("param", "coordinates"), const(2)), (), 0)
            sp = Space()
            env = {Q.sub(n1d, 0): sp.sym("easting"), Q.sub(n1d, 1): sp.sym("northing")}
            if m == "predict":
                augs = [e for e in p.events if e.kind == "aug"]
                ok_pair = it[0] == "call" and callee(it) == "builtins.zip" and len(it[2]) == 2 and it[2][0] == Q.self_attr("coef_") and canon(it[2][1]) == canon(combos)
                rev = it[0] == "call" and callee(it) == "builtins.zip" and any(x[0] == "call" and callee(x) == "builtins.reversed" or (x[0] == "sub" and x[2][0] == "slice" and x[2][3] == const(-1)) for x in it[2])
                ctx.check("R7", qn + "|coefficient-k-with-combination-k", True if ok_pair else (False if rev else None), "coefficients and combinations are zipped in order", bad="coefficients are paired with the combinations in reversed order", fn=qn)
                if len(augs) == 1 and augs[0].data[1] == "+":
                    val = augs[0].data[2]
                    comb = ("elem", combos, lid)
                    env.update({Q.sub(comb, 0): sp.sym("i"), Q.sub(comb, 1): sp.sym("j"), ("elem", Q.self_attr("coef_"), lid): sp.sym("coef")})
                    try:
                        forms[m] = (sp, Builder(sp).nf(val, env) / sp.sym("coef"))
                    except Undecided as e:
                        ctx.add("R7", qn + "|monomial", "UNDECIDED", str(e), fn=qn)
                    base = augs[0].data[0]
                    init = base[3] if base[0] == "prev" else None
                    ctx.check("R7", qn + "|starts-from-zero", True if init is not None and init[0] == "call" and callee(init) == "numpy.zeros" else (False if init is not None and init[0] == "call" and callee(init) in ("numpy.ones", "numpy.empty") else None),
                              "the sum starts from zeros", bad="the accumulator is not initialised with zeros", fn=qn)
                else:
                    ctx.check("R7", qn + "|accumulates", False if augs and augs[0].data[1] != "+" else None, "", bad="terms are not added", fn=qn)
            else:
                st = [e for e in p.events if e.kind == "store"]
                ok_pair = it[0] == "call" and callee(it) == "builtins.enumerate" and it[2] and canon(it[2][0]) == canon(combos)
                okcol = True if ok_pair and len(st) == 1 and st[0].data[1] == ("tuple", (("slice", NONE, NONE, NONE), ("idx", lid))) else (False if len(st) == 1 and st[0].data[1][0] == "tuple" and st[0].data[1][1][0] == ("idx", lid) else None)
                comb = ("elem", combos, lid)
                if okcol is None and len(st) == 1 and it[0] == "call" and callee(it) == "builtins.zip" and len(it[2]) == 2 and canon(it[2][1]) == canon(combos):
                    # the same pairing written over the column VIEWS of the matrix: for column, (i, j) in zip(out.T, combinations): column[:] = ...
                    views, base_, idx_ = it[2][0], st[0].data[0], st[0].data[1]
                    buf = views[1] if views[0] == "attr" and views[2] == "T" else (views[2][0] if views[0] == "call" and callee(views) in ("numpy.transpose", "numpy.swapaxes") and views[2] else None)
                    whole = idx_ in (("slice", NONE, NONE, NONE), const(Ellipsis))
                    if buf is not None and buf[0] == "call" and callee(buf) in ("numpy.empty", "numpy.zeros") and whole and base_ in (("sub", ("elem", it, lid), const(0)), ("elem", views, lid)):
                        okcol = True
                        comb = ("elem", combos, lid) if base_ == ("elem", views, lid) else ("sub", ("elem", it, lid), const(1))
                ctx.check("R7", qn + "|column-k-is-combination-k", okcol,
                          "column k of the design matrix holds combination k", bad="the design matrix is filled along rows", fn=qn)
                if len(st) == 1:
                    env.update({Q.sub(comb, 0): sp.sym("i"), Q.sub(comb, 1): sp.sym("j")})
                    try:
                        forms[m] = (sp, Builder(sp).nf(st[0].data[2], env))
                    except Undecided as e:
                        ctx.add("R7", qn + "|monomial", "UNDECIDED", str(e), fn=qn)
    for m, (sp, got) in forms.items():
        want = R_pow(sp, "easting", "i") * R_pow(sp, "northing", "j")
        ok = compare(sp, got, want)
        if ok is None:
            swapped = R_pow(sp, "easting", "j") * R_pow(sp, "northing", "i")
            both_e = R_pow(sp, "easting", "i") * R_pow(sp, "easting", "j")
            both_n = R_pow(sp, "northing", "i") * R_pow(sp, "northing", "j")
            if got == swapped or got == both_e or got == both_n:
                ok = False
        ctx.check("R7", "%s.%s|monomial-is-easting^i*northing^j" % (cq, m), ok, "each term is easting**i * northing**j for the (i, j) of its combination", bad="%s uses the monomial %s" % (m, repr(got)[:80]), fn=cq + "." + m)


def R_pow(sp, base, ex):
    from ..nf import R
    return R.a(sp, sp.atom("pow", sp.sym(base), sp.sym(ex)))


def check(ctx):
    r1_r2_fits(ctx)
    r3_least_squares(ctx)
    r4_shared_state(ctx)
    from . import c15
    ctx.alias = {"R1": "R5"}
    try:
        c15.r1_kneighbors(ctx)
    finally:
        ctx.alias = {}
    r6_scipy(ctx)
    from . import c03
    ctx.alias = {"R8": "R6"}          # which SciPy class is built and that rescale reaches it (C03.R8) is also what makes Linear/Cubic exact
    try:
        c03.r8_scipy(ctx)
    finally:
        ctx.alias = {}
    r7_trend(ctx)
    K.point_order_contract(ctx, "R8")
    from . import c06
    ctx.alias = {"R1": "R9", "R2": "R9", "R3": "R9", "R6": "R9"}
    try:
        c06.r1_threading(ctx)
        c06.r2_sum(ctx)
        c06.r3_vector(ctx)
    finally:
        ctx.alias = {}
