"""Positive controls: every construct here violates a zero-expected rule and must be reported on every run."""
