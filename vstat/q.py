"""Query helpers shared by the rule modules."""
from . import contracts
from .terms import callee, canon, const, is_const, is_int, kw, mk_sub, show, walk, NONE

SELF = ("param", "self")

# value-preserving wrappers (element order and values unchanged; C-order flattening only)
IDENT_FUNCS = {"numpy.ravel", "numpy.asarray", "numpy.atleast_1d", "numpy.array", "numpy.asanyarray", "numpy.ascontiguousarray",
               "numpy.copy", "verde.base.utils.check_data", "verde.base.utils.check_coordinates", "builtins.tuple", "builtins.list",
               "numpy.squeeze", "numpy.reshape"}
IDENT_METHODS = {"ravel", "copy", "flatten", "reshape", "astype", "to_numpy", "squeeze"}
IDENT_ATTRS = {"values"}


def arg(ctx, call, name, names=None, caller=None):
    if isinstance(caller, str):
        caller = ctx.pkg.functions.get(caller)
    return contracts.argument(ctx.pkg, call, name, names, caller)


def call(ctx, qual, *args, **kws):
    """the (canonical) term of a call of package function/class `qual` with these arguments, as engine A would build it"""
    f = ("glob", qual)
    a, k = contracts.canonical_args(contracts.package_signature(ctx.pkg, f), tuple(args), tuple(kws.items()))
    return ("call", f, a, k, 0)


def mcall(ctx, recv, name, *args, **kws):
    """canonical term of a method call recv.name(...)"""
    f = ("attr", recv, name)
    cls = None
    a, k = contracts.canonical_args(contracts.package_signature(ctx.pkg, f, cls), tuple(args), tuple(kws.items()))
    return ("call", f, a, k, 0)


def is_reversed(t, base):
    """t is base[::-1] (possibly already expanded to (base[1], base[0]))"""
    return t == ("sub", base, ("slice", NONE, NONE, const(-1))) or (t[0] in ("tuple", "list") and t[1] == (mk_sub(base, const(1)), mk_sub(base, const(0))))


def unseq(t):
    """list(X) / tuple(X) of a non-literal X is represented as an open sequence (kind, (*X,)): give X back"""
    while t[0] in ("tuple", "list") and len(t[1]) == 1 and t[1][0][0] == "star":
        t = t[1][0][1]
    return t


def grown(t):
    """the comprehension a sequence is (or ends with): [E for ...], or a list/tuple whose last entry is *[E for ...] (grown in a loop after
    other entries); None otherwise.  `x = []; for ...: x.append(E)` and `x = [E for ...]` are the same term"""
    if t[0] == "comp":
        return t
    if t[0] in ("list", "tuple") and t[1] and t[1][-1][0] == "star" and t[1][-1][1][0] == "comp":
        return t[1][-1][1]
    return None


CAST_FUNCS = {"numpy.asarray", "numpy.array", "numpy.asanyarray", "numpy.ascontiguousarray", "numpy.asfarray", "numpy.require"}
WIDE_DTYPES = {"float64", "float", "f8", "d", "double", "longdouble", "float128", "complex", "complex128", "numpy.float64", "numpy.double", "numpy.float_",
               "numpy.longdouble", "numpy.complex128", "builtins.float", "builtins.complex", "object", "builtins.object", "O"}


INT_DTYPES = {"int", "int64", "intp", "i8", "numpy.int64", "numpy.intp", "numpy.int_", "builtins.int"}


def cast_of(t):
    """(value, dtype term) if t converts `value` to an explicitly given dtype, else None"""
    if t[0] != "call":
        return None
    if t[1][0] == "glob" and t[1][1] in CAST_FUNCS and t[2]:
        d = kw(t, "dtype")
        if d is None and len(t[2]) > 1:
            d = t[2][1]
        return (t[2][0], d) if d is not None and d != NONE else None
    if t[1][0] == "attr" and t[1][2] == "astype":
        d = t[2][0] if t[2] else kw(t, "dtype")
        return (t[1][1], d) if d is not None else None
    return None


def cast_kind(value, d):
    """'same' (the value's own dtype), 'integer' (a full-width integer literal: exact for index lists, truncating for anything else), 'widening' (every real input is representable), 'narrowing' (a dtype that does not depend
    on the value, or a small literal one: the conversion can truncate), 'unknown'"""
    if d[0] == "attr" and d[2] == "dtype":
        return "same" if unwrap(d[1]) == unwrap(value) else "narrowing"
    if (d[0] == "const" and d[1] in INT_DTYPES) or (d[0] == "glob" and d[1] in INT_DTYPES):
        return "integer"
    if d[0] == "const" and isinstance(d[1], str):
        return "widening" if d[1] in WIDE_DTYPES else "narrowing"
    if d[0] == "glob":
        return "widening" if d[1] in WIDE_DTYPES else ("narrowing" if d[1].startswith(("numpy.", "builtins.")) else "unknown")
    if d[0] == "call" and callee(d) in ("numpy.result_type", "numpy.promote_types", "numpy.find_common_type"):
        mine = {unwrap(value), ("attr", unwrap(value), "dtype")}
        ops = [unwrap(x) if not (x[0] == "attr" and x[2] == "dtype") else ("attr", unwrap(x[1]), "dtype") for x in d[2]]
        return "widening" if any(o in mine for o in ops) else "narrowing"
    return "unknown"


def narrowing_casts(t):
    """[(cast term, kind)] for every conversion inside t that can lose information ('narrowing') or cannot be classified ('unknown')"""
    out = []
    for x in walk(t):
        if isinstance(x, tuple) and x and x[0] == "call":
            c = cast_of(x)
            if c is not None:
                k = cast_kind(*c)
                if k in ("narrowing", "unknown", "integer"):
                    out.append((x, k))
    return out


STACKING_ON_TUPLES = {"numpy.asarray", "numpy.array", "numpy.asanyarray", "numpy.ascontiguousarray", "numpy.atleast_1d", "numpy.atleast_2d", "numpy.squeeze", "numpy.ravel", "numpy.copy"}
TUPLE_RETURNING = {"verde.base.utils.check_data", "verde.base.utils.check_coordinates", "verde.base.utils.n_1d_arrays", "verde.coordinates.grid_coordinates",
                   "verde.coordinates.scatter_points", "numpy.meshgrid", "numpy.broadcast_arrays", "builtins.zip"}


def is_tuple_of_arrays(t):
    """t is known to be a tuple / list of several arrays (not one array)"""
    if t[0] in ("tuple", "list") and not (len(t[1]) == 1 and t[1][0][0] == "star"):
        return len(t[1]) != 1 or t[1][0][0] != "const"
    if t[0] == "comp":
        return True
    if t[0] == "call" and t[1][0] == "glob" and t[1][1] in TUPLE_RETURNING:
        return True
    if t[0] == "sub" and t[2][0] == "slice":
        return is_tuple_of_arrays(t[1])
    return False


def unwrap(t, funcs=IDENT_FUNCS, methods=IDENT_METHODS, int_ok=False):
    """strip value-preserving wrappers (a conversion to an explicit dtype is value-preserving only when it cannot narrow;
    int_ok: the value is an index list, for which a conversion to a full-width integer type is exact)"""
    while True:
        c = cast_of(t) if t[0] == "call" else None
        if c is not None and cast_kind(*c) in (("narrowing", "unknown") if int_ok else ("narrowing", "unknown", "integer")):
            return t
        if t[0] in ("tuple", "list") and len(t[1]) == 1 and t[1][0][0] == "star":
            t = t[1][0][1]
            continue
        if t[0] == "call" and t[1][0] == "glob" and t[1][1] in STACKING_ON_TUPLES and t[2] and is_tuple_of_arrays(t[2][0]):
            return t          # np.asarray / np.array of a TUPLE of arrays stacks them into one array of a common dtype: not an identity
        if t[0] == "call" and t[1][0] == "glob" and t[1][1] in funcs and t[2]:
            if "order" in dict(t[3]) or (t[1][1] in ("numpy.ravel",) and len(t[2]) > 1) or (t[1][1] == "numpy.reshape" and len(t[2]) > 2):
                return t
            t = t[2][0]
            continue
        if t[0] == "call" and t[1][0] == "attr" and t[1][2] in methods:
            if "order" in dict(t[3]) or (t[1][2] in ("ravel", "flatten") and t[2]):
                return t
            t = t[1][1]
        elif t[0] == "attr" and t[2] in IDENT_ATTRS:
            t = t[1]
        else:
            return t


def reshape_of(t):
    """(inner, shape term) if t is inner.reshape(shape) / np.reshape(inner, shape) in either spelling, else None"""
    if t[0] != "call":
        return None
    if t[1][0] == "attr" and t[1][2] == "reshape" and len(t[2]) >= 1:
        return t[1][1], (t[2][0] if len(t[2]) == 1 else ("tuple", tuple(t[2])))
    if t[1] == ("glob", "numpy.reshape") and len(t[2]) >= 2:
        return t[2][0], t[2][1]
    return None


def minmax_of(t):
    """('min' | 'max', inner) if t is inner.min() / np.min(inner) / np.amin(inner) (no axis), else None"""
    if t[0] != "call" or t[3]:
        return None
    if t[1][0] == "attr" and t[1][2] in ("min", "max") and not t[2]:
        return t[1][2], t[1][1]
    if t[1][0] == "glob" and t[1][1] in ("numpy.min", "numpy.max", "numpy.amin", "numpy.amax") and len(t[2]) == 1:
        return t[1][1][-3:], t[2][0]
    return None


def ravel_of(t):
    """(inner, plain) if t is inner.ravel(...) / inner.flatten(...) / np.ravel(inner, ...); plain = no order argument"""
    if t[0] != "call":
        return None
    if t[1][0] == "attr" and t[1][2] in ("ravel", "flatten"):
        return t[1][1], not t[2] and not t[3]
    if t[1] == ("glob", "numpy.ravel") and t[2]:
        return t[2][0], len(t[2]) == 1 and not t[3]
    return None


def tags(conds):
    """a path tag from the literals decided on the path (`==1,F,isnot`): the same however the branches are written"""
    out = []
    for c, v in conds:
        if c[0] == "cmp":
            out.append(("" if v else "not") + c[1] + (str(c[3][1]) if is_const(c[3]) and c[3][1] is not None else ""))
        else:
            out.append("T" if v else "F")
    return ",".join(out)


def eq_truth(p, pred=None, last=False):
    """truth, on path p, of the positive form (== / is / in) of the first (or last) equality-like decision satisfying pred;
    decisions are recorded as literals (`x != 1` True for `x == 1` False), so the polarity of the source never matters"""
    for c, v in (reversed(p.conds) if last else p.conds):
        if c[0] == "cmp" and c[1] in ("==", "!=", "is", "isnot", "in", "notin") and (pred is None or pred(c)):
            return v if c[1] in ("==", "is", "in") else (not v)
    return None


def none_quantifier(c):
    """+1 if c is `any(x is None for x in s)` (true iff some element is None), -1 if c is `all(x is not None for x in s)` (true iff no
    element is None), 0 for anything else - in particular for `any(x is not None ...)` / `all(x is None ...)`, which split the mixed case
    (some given, some None) differently and are not the same test"""
    if c[0] == "call" and callee(c) in ("builtins.any", "builtins.all") and c[2]:
        g = unseq(c[2][0])
        if g[0] == "comp" and g[2][0] == "cmp" and g[2][1] in ("is", "isnot") and g[2][3] == NONE and g[2][2] == ("elem", g[3], g[4]):
            if callee(c) == "builtins.any" and g[2][1] == "is":
                return 1
            if callee(c) == "builtins.all" and g[2][1] == "isnot":
                return -1
    return 0


def none_quantifiers(t):
    """the none_quantifier atoms anywhere in a condition term"""
    return [x for x in walk(t) if isinstance(x, tuple) and x and x[0] == "call" and none_quantifier(x)]


def some_none(p):
    """truth, on path p, of `some element of the tested sequence is None`, however the test was written; None if not decided"""
    from .paths import lookup
    for c, _v in p.conds:
        for x in none_quantifiers(c):
            t = lookup(p.decided, x)
            if t is not None:
                return t if none_quantifier(x) > 0 else (not t)
    return None


def arg_kw(call, name):
    """keyword `name` of a call term (None if absent)"""
    for k, v in call[3]:
        if k == name:
            return v
    return None


def self_attr(name):
    return ("attr", SELF, name)


def is_self_attr(t, name=None):
    return t[0] == "attr" and t[1] == SELF and (name is None or t[2] == name)


def calls_named(path, name):
    return [e for e in path.events if e.kind == "call" and callee(e.data[0]) == name]


def first_index(path, pred):
    for i, e in enumerate(path.events):
        if pred(e):
            return i
    return None


def leaves(t):
    """parameters / self attributes / globals a term is built from"""
    out = set()
    stack = [t]
    while stack:
        x = stack.pop()
        if not isinstance(x, tuple) or not x:
            continue
        if isinstance(x[0], str):
            if x[0] == "param":
                out.add(x)
                continue
            if x[0] == "attr" and x[1] == SELF:
                out.add(x)
                continue
            if x[0] in ("const", "glob", "lparam", "idx", "localfn"):
                continue
            stack.extend(e for e in x[1:] if isinstance(e, tuple))
        else:
            stack.extend(e for e in x if isinstance(e, tuple))
    return out


def same(a, b):
    return canon(a) == canon(b)


def sub(base, i):
    return mk_sub(base, const(i) if isinstance(i, int) else i)


def is_none(t):
    return t == NONE


def truthy_const(t, v):
    return is_const(t) and t[1] is v


def raise_guards(paths):
    """[(path, [(cond, value), ...])] for every raising path"""
    return [(p, list(p.conds)) for p in paths if p.exit == "raise"]


def cond_mentions(c, pred):
    return any(pred(x) for x in walk(c))


def describe(t, n=120):
    return show(t)[:n]
