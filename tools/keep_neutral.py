"""Confirm and file one independently produced BEHAVIOUR-PRESERVING rewrite under /verif/neutral/<name>/.
Usage: /venv/bin/python tools/keep_neutral.py <out dir of the agent> <k> <name> [--suite]
In a scratch worktree of /repo (removed afterwards): equiv_k.py is run on the clean tree and with neutral_k.diff applied, the two transcripts
must be byte-identical; optionally the pinned suite must still pass with the patch.  Then every quick check is run against /repo with
the patch applied (and undone straight afterwards): a VIOLATION on such a patch is a FALSE ALARM of the check."""
import json
import os
import pathlib
import shutil
import subprocess
import sys
import tempfile
import xml.etree.ElementTree as ET

VERIF = pathlib.Path(__file__).resolve().parent.parent
sys.path.insert(0, str(VERIF))


def sh(cmd, **kw):
    return subprocess.run(cmd, shell=True, capture_output=True, text=True, **kw)


def run_checks(patch):
    from vstat import report
    st = sh("git -C /repo status --porcelain").stdout.strip()
    if st:
        raise SystemExit("refusing: /repo has uncommitted changes")
    r = sh("git -C /repo apply %s" % patch)
    if r.returncode:
        return None
    res = {}
    try:
        for i in range(1, 21):
            pid = "C%02d" % i
            code, ctx, lines = report.run_property(pid, "quick", write=False, quiet=True)
            if code:
                res[pid] = {"exit": code, "reports": [ln.strip()[:300] for ln in lines if ln.startswith(("  C", "ANALYSIS"))][:4]}
    finally:
        subprocess.run(["git", "-C", "/repo", "checkout", "--", "."], check=True)
    return res


def main():
    out, k, name = pathlib.Path(sys.argv[1]), sys.argv[2], sys.argv[3]
    suite = "--suite" in sys.argv
    patch, equiv, meta = out / ("neutral_%s.diff" % k), out / ("equiv_%s.py" % k), out / ("meta_%s.json" % k)
    if not patch.exists() or not equiv.exists():
        print("missing patch or equivalence program")
        return 2
    wt = tempfile.mkdtemp(prefix="neutchk_", dir="/tmp")
    os.rmdir(wt)
    if sh("git -C /repo worktree add -q --detach %s HEAD" % wt).returncode:
        return 2
    res = {}
    try:
        env = dict(os.environ, PYTHONPATH=wt, OMP_NUM_THREADS="1", OPENBLAS_NUM_THREADS="1", MKL_NUM_THREADS="1", NUMBA_NUM_THREADS="1", PYTHONHASHSEED="0")
        a = sh("cd %s && timeout 900 /venv/bin/python %s" % (wt, equiv), env=env)
        if sh("git -C %s apply %s" % (wt, patch)).returncode:
            print("patch does not apply to the current /repo HEAD")
            return 2
        b = sh("cd %s && timeout 900 /venv/bin/python %s" % (wt, equiv), env=env)
        res["transcript_lines"] = len(a.stdout.splitlines())
        res["equiv_exit_clean"], res["equiv_exit_patched"] = a.returncode, b.returncode
        res["transcripts_identical"] = a.stdout == b.stdout and a.returncode == 0 and b.returncode == 0 and len(a.stdout) > 0
        if suite:
            jx = pathlib.Path(wt) / "junit.xml"
            sh("cd %s && /venv/bin/python -m pytest -q -p no:cacheprovider --timeout=900 --continue-on-collection-errors -n 4 --junitxml=%s" % (wt, jx), env=env)
            base = set(json.load(open("/root/.vp/BASELINE.json"))["stable_pass"])
            got = {}
            for tc in ET.parse(jx).iter("testcase"):
                got[tc.get("classname") + "::" + tc.get("name")] = not any(c.tag in ("failure", "error", "skipped") for c in tc)
            res["pinned_tests_failing_with_patch"] = sorted(n for n in base if not got.get(n))
    finally:
        sh("git -C /repo worktree remove --force %s" % wt)
        shutil.rmtree(wt, ignore_errors=True)
    print(json.dumps(res))
    if not res.get("transcripts_identical") or res.get("pinned_tests_failing_with_patch"):
        print("NOT CONFIRMED as behaviour-preserving")
        return 1
    checks = run_checks(patch)
    dest = VERIF / "neutral" / name
    dest.mkdir(parents=True, exist_ok=True)
    shutil.copy(patch, dest / "patch.diff")
    shutil.copy(equiv, dest / "equiv.py")
    m = json.load(open(meta)) if meta.exists() else {}
    m.update({"confirmed": res, "checks": checks})
    (dest / "meta.json").write_text(json.dumps(m, indent=1))
    print("filed under", dest, "| checks not at exit 0:", {p: v["exit"] for p, v in (checks or {}).items()})
    return 0


if __name__ == "__main__":
    sys.exit(main())
