"""Engine A: enumerate the acyclic paths of a function and build, along each, the terms its
expressions denote plus the ordered list of effects (events) of that path.

Loops over tuples of known arity are unrolled; any other loop is summarised by one symbolic
iteration per body path (loop-carried variables become prev/mu terms, containers grow by a
generic element).  `try` contributes its normal path, one path per handler (entered from the
pre-try state) and one exceptional path through `finally`.
"""
import ast
import copy

from . import contracts
from .terms import (NONE, const, is_const, is_int, is_seq, plain_seq, fold_bin, mk_sub, canon, walk, show, subst)

BIN = {ast.Add: "+", ast.Sub: "-", ast.Mult: "*", ast.Div: "/", ast.FloorDiv: "//", ast.Mod: "%", ast.Pow: "**",
       ast.BitAnd: "&", ast.BitOr: "|", ast.BitXor: "^", ast.MatMult: "@", ast.LShift: "<<", ast.RShift: ">>"}
CMP = {ast.Eq: "==", ast.NotEq: "!=", ast.Lt: "<", ast.LtE: "<=", ast.Gt: ">", ast.GtE: ">=", ast.Is: "is",
       ast.IsNot: "isnot", ast.In: "in", ast.NotIn: "notin"}
UN = {ast.USub: "neg", ast.Not: "not", ast.Invert: "~", ast.UAdd: "pos"}
NEG_CMP = {"isnot": "is", "!=": "==", "notin": "in"}
IMPURE_IN_COND = {"builtins.next", ".readline", ".pop", ".read", ".uniform", ".shuffle"}
MAX_PATHS = 600


class Unsupported(Exception):
    pass


_INVENTORY = None


def known_functions():
    """qualified names of the functions the rules were written against (baseline/functions.json).  A package function that is NOT in
    this inventory is a helper introduced later (an extracted function): the rules cannot name it, so calls to it are looked through
    (inlined) instead of being left as opaque call terms.  On the inventoried tree nothing is inlined."""
    global _INVENTORY
    if _INVENTORY is None:
        import json
        import pathlib
        f = pathlib.Path(__file__).resolve().parent.parent / "baseline" / "functions.json"
        _INVENTORY = set(json.loads(f.read_text())) if f.exists() else None
        if _INVENTORY is None:
            _INVENTORY = False
    return _INVENTORY


class Event:
    __slots__ = ("kind", "data", "line")

    def __init__(self, kind, data, line):
        self.kind, self.data, self.line = kind, data, line

    def __repr__(self):
        return "Event(%s, %s)" % (self.kind, ", ".join(show(d) if isinstance(d, tuple) else str(d) for d in self.data))


class State:
    def __init__(self, env):
        self.env = env
        self.decided = {}
        self.conds = []
        self.events = []
        self.ordinals = {}
        self.loopn = [0]

    def fork(self):
        s = State(dict(self.env))
        s.decided = dict(self.decided)
        s.conds = list(self.conds)
        s.events = list(self.events)
        s.ordinals = dict(self.ordinals)
        s.loopn = [self.loopn[0]]
        return s


class Path:
    def __init__(self, st, exit_kind, exit_term, line):
        self.env, self.decided, self.conds, self.events = st.env, st.decided, st.conds, st.events
        self.exit, self.value, self.line = exit_kind, exit_term, line

    # ---- queries used by the rules
    def calls(self, pred=None):
        return [e for e in self.events if e.kind == "call" and (pred is None or pred(e.data[0]))]

    def call_terms(self, name=None):
        from .terms import callee
        return [e.data[0] for e in self.events if e.kind == "call" and (name is None or callee(e.data[0]) == name)]

    def index(self, ev):
        return self.events.index(ev)

    def cond_value(self, pred):
        """truth value decided on this path for the (first) condition satisfying pred, else None"""
        for c, v in self.conds:
            if pred(c):
                return v
        return None

    @property
    def normal(self):
        return self.exit in ("return", "fall")


def _strip_not(c):
    neg = False
    while True:
        if c[0] == "unop" and c[1] == "not":
            c, neg = c[2], not neg
        elif c[0] == "cmp" and c[1] in NEG_CMP:
            c, neg = ("cmp", NEG_CMP[c[1]], c[2], c[3]), not neg
        else:
            return c, neg


ARRAY_METHODS = ("min", "max", "ravel", "reshape")
POS_NEG = {v: k for k, v in NEG_CMP.items()}
NEG_ORD = {"<": ">=", "<=": ">", ">": "<=", ">=": "<"}
MIRROR = {"==": "==", "!=": "!=", "<": ">", ">": "<", "<=": ">=", ">=": "<=", "is": "is", "isnot": "isnot"}


def literal(c, val):
    """the decision (c, val) as a literal that does not depend on how the test was written: negations are peeled off, and a
    negatable comparison that is false is recorded as the opposite comparison being true (`x == 2` False  ==  `x != 2` True)"""
    c2, neg = _strip_not(c)
    v = (not val) if neg else val
    if c2[0] == "cmp" and c2[1] in POS_NEG and not v:
        return ("cmp", POS_NEG[c2[1]], c2[2], c2[3]), True
    if c2[0] == "cmp" and c2[1] in NEG_ORD and not v:
        # `not (a <= b)` is recorded as `a > b` (they differ for NaN operands only, which no rule about a guard depends on), in the
        # canonical orientation of comparisons
        op, a, b = NEG_ORD[c2[1]], c2[2], c2[3]
        if (is_const(a) and not is_const(b)) or (op in ("<", "<=") and is_const(a) == is_const(b)):
            a, b, op = b, a, MIRROR[op]
        return ("cmp", op, a, b), True
    return c2, v


def negate_term(e):
    """the negation of a test term, in the form a test is recorded in: `not` peeled, == / is / in flipped in place; orderings are wrapped
    (a < b and not a >= b differ for NaN elements)"""
    c0, neg = _strip_not(e)
    if neg:
        return c0
    if c0[0] == "cmp" and c0[1] in POS_NEG:
        return ("cmp", POS_NEG[c0[1]], c0[2], c0[3])
    return ("unop", "not", c0)


def _impure(c):
    from .terms import callee
    return any(x[0] == "call" and callee(x) in IMPURE_IN_COND for x in walk(c))


NUMPY_RETURNS_NONE = {"numpy.put", "numpy.place", "numpy.copyto", "numpy.putmask", "numpy.fill_diagonal", "numpy.put_along_axis", "numpy.save", "numpy.savez",
                      "numpy.savez_compressed", "numpy.savetxt", "numpy.set_printoptions", "numpy.info", "numpy.testing.assert_allclose", "numpy.add.at", "numpy.subtract.at"}


def _static_truth(c):
    """truth of a condition that is decidable from the term alone"""
    if is_const(c):
        return bool(c[1])
    if c[0] == "cmp" and c[1] == "is":
        a, b = c[2], c[3]
        if is_const(a) and is_const(b):
            return a[1] is b[1] if (a[1] is None or b[1] is None or isinstance(a[1], bool)) else None
        for x, y in ((a, b), (b, a)):
            if y == NONE and x[0] in ("tuple", "list", "dict", "set", "comp", "lambda", "fmt", "binop"):
                return False
            if y == NONE and x[0] == "call" and x[1][0] == "glob" and x[1][1].startswith("numpy.") and x[1][1] not in NUMPY_RETURNS_NONE and not x[1][1].startswith("numpy.random."):
                return False          # a numpy function that computes a value never returns None
    if c[0] == "cmp" and c[1] == "==" and is_const(c[2]) and is_const(c[3]):
        return c[2][1] == c[3][1]
    if c[0] == "cmp" and c[1] in ("<", "<=", ">", ">=") and all(is_const(x) and isinstance(x[1], (int, float)) and not isinstance(x[1], bool) for x in (c[2], c[3])):
        a, b = c[2][1], c[3][1]
        return {"<": a < b, "<=": a <= b, ">": a > b, ">=": a >= b}[c[1]]
    return None


def lookup(decided, cond):
    c, neg = _strip_not(canon(cond))
    v = _static_truth(c)
    if v is None and c in decided:
        v = decided[c]
    if v is None and c[0] == "boolop":
        vals = [lookup(decided, e) for e in c[2]]
        if c[1] == "And":
            if any(x is False for x in vals):
                v = False
            elif all(x is True for x in vals):
                v = True
        else:
            if any(x is True for x in vals):
                v = True
            elif all(x is False for x in vals):
                v = False
    if v is None:
        return None
    return (not v) if neg else v


def assume(decided, cond, val):
    c, neg = _strip_not(canon(cond))
    if neg:
        val = not val
    if _impure(c):
        return
    decided[c] = val
    if c[0] == "boolop":
        if c[1] == "And" and val:
            for e in c[2]:
                assume(decided, e, True)
        if c[1] == "Or" and not val:
            for e in c[2]:
                assume(decided, e, False)


class Evaluator:
    """evaluates one function; `pkg` gives name resolution"""

    def __init__(self, pkg, fn, closure_env=None):
        self.pkg, self.fn = pkg, fn
        self.module = fn.module
        self.closure_env = closure_env or {}
        self.nested = {}     # name -> (node, env snapshot)
        self.npaths = 0

    # ------------------------------------------------------------------ helpers
    def ev(self, n, st):
        m = getattr(self, "e_" + type(n).__name__, None)
        if m is None:
            raise Unsupported("expression " + type(n).__name__)
        return m(n, st)

    def emit(self, st, kind, data, node):
        st.events.append(Event(kind, data, getattr(node, "lineno", 0)))

    def expand(self, t):
        """known-arity values -> explicit tuple of their elements"""
        if t[0] == "param":
            n = contracts.ARITY.get(t[1])
            if n:
                return ("tuple", tuple(("sub", t, const(i)) for i in range(n)))
        if t[0] == "call" and t[1][0] == "glob":
            n = contracts.call_arity(t)
            if n:
                return ("tuple", tuple(("sub", t, const(i)) for i in range(n)))
        if t[0] == "sub" and t[2][0] == "slice" and all(is_const(x) for x in t[2][1:]):
            base = self.expand(t[1])
            lo, hi, stp = (x[1] for x in t[2][1:])
            if plain_seq(base):
                return ("tuple", tuple(base[1][slice(lo, hi, stp)]))
            # x[:k] of an open tuple: assume at least k elements (documented assumption)
            if stp in (None, 1) and (lo is None or (isinstance(lo, int) and lo >= 0)) and isinstance(hi, int) and 0 < hi <= 8:
                return ("tuple", tuple(mk_sub(t[1], const(i)) for i in range(lo or 0, hi)))
        return t

    # ------------------------------------------------------------------ expressions
    def e_Constant(self, n, st):
        return const(n.value)

    def e_Name(self, n, st):
        if n.id in st.env:
            return st.env[n.id]
        if n.id in self.closure_env:
            return self.closure_env[n.id]
        return ("glob", self.pkg.resolve_name(self.module, n.id))

    def e_Attribute(self, n, st):
        b = self.ev(n.value, st)
        if b[0] == "glob":
            return ("glob", self.pkg.canon_qual(b[1] + "." + n.attr))
        if b == ("param", "self"):
            if isinstance(n.ctx, ast.Load):
                self.emit(st, "getattr", (b, n.attr), n)
            if ("self." + n.attr) in st.env:
                return st.env["self." + n.attr]
        if n.attr == "T" and isinstance(n.ctx, ast.Load) and b[0] not in ("glob",):
            # x.T is np.transpose(x); np.asarray(x).T is np.transpose(x) too (transpose converts its argument)
            if b[0] == "call" and b[1] == ("glob", "numpy.asarray") and len(b[2]) == 1 and not b[3]:
                b = b[2][0]
            base = ("call", ("glob", "numpy.transpose"), (b,), (), 0)
            key = canon(base)
            k = st.ordinals.get(key, 0)
            st.ordinals[key] = k + 1
            t = ("call", ("glob", "numpy.transpose"), (b,), (), k)
            self.emit(st, "call", (t,), n)
            return t
        return ("attr", b, n.attr)

    def e_Tuple(self, n, st):
        return ("tuple", self.expand_args(n.elts, st))      # (a, *(b, c)) is (a, b, c)

    def e_List(self, n, st):
        return ("list", self.expand_args(n.elts, st))

    def e_Set(self, n, st):
        return ("set", tuple(self.ev(e, st) for e in n.elts))

    def e_Dict(self, n, st):
        return ("dict", tuple((self.ev(k, st) if k is not None else None, self.ev(v, st)) for k, v in zip(n.keys, n.values)))

    def e_Starred(self, n, st):
        return ("star", self.ev(n.value, st))

    def e_BinOp(self, n, st):
        return fold_bin(BIN[type(n.op)], self.ev(n.left, st), self.ev(n.right, st))

    def e_UnaryOp(self, n, st):
        v = self.ev(n.operand, st)
        if is_const(v) and type(n.op) is ast.USub and isinstance(v[1], (int, float)) and not isinstance(v[1], bool):
            return const(-v[1])
        return ("unop", UN[type(n.op)], v)

    def e_BoolOp(self, n, st):
        return ("boolop", type(n.op).__name__, tuple(self.ev(v, st) for v in n.values))

    def e_Compare(self, n, st):
        left = self.ev(n.left, st)
        parts = []
        for op, c in zip(n.ops, n.comparators):
            r = self.ev(c, st)
            o = CMP[type(op)]
            if len(n.ops) == 1 and o in MIRROR and is_const(left) and not is_const(r):
                left, r, o = r, left, MIRROR[o]         # `1 == len(x)` is recorded as `len(x) == 1`
            elif len(n.ops) == 1 and o in ("<", "<=") and is_const(left) == is_const(r):
                left, r, o = r, left, MIRROR[o]         # between two non-constants, `a < b` is recorded as `b > a`
            parts.append(("cmp", o, left, r))
            left = r
        return parts[0] if len(parts) == 1 else ("boolop", "And", tuple(parts))

    def e_IfExp(self, n, st):
        c = self.ev(n.test, st)
        v = lookup(st.decided, c)
        if v is True:
            return self.ev(n.body, st)
        if v is False:
            return self.ev(n.orelse, st)
        c2, neg = _strip_not(c)
        a, b = self.ev(n.body, st), self.ev(n.orelse, st)
        return ("ifexp", c2, b, a) if neg else ("ifexp", c, a, b)

    def e_Slice(self, n, st):
        f = lambda x: self.ev(x, st) if x is not None else NONE  # noqa: E731
        return ("slice", f(n.lower), f(n.upper), f(n.step))

    def e_Subscript(self, n, st):
        base = self.ev(n.value, st)
        idx = self.ev(n.slice, st)
        if base[0] == "param" and (is_int(idx) or idx[0] == "slice") and base[1] in contracts.ARITY and idx[0] == "slice":
            ex = self.expand(("sub", base, idx))
            if plain_seq(ex):
                return ex
        return mk_sub(base, idx)

    def e_JoinedStr(self, n, st):
        tmpl, args = "", []
        for v in n.values:
            if isinstance(v, ast.Constant):
                tmpl += str(v.value).replace("{", "{{").replace("}", "}}")
            else:
                tmpl += "{}"
                a = self.ev(v.value, st)
                if getattr(v, "conversion", -1) == ord("r"):
                    a = ("call", ("glob", "builtins.repr"), (a,), (), 0)        # f"{x!r}" is "{}".format(repr(x))
                elif getattr(v, "conversion", -1) == ord("s"):
                    a = ("call", ("glob", "builtins.str"), (a,), (), 0)
                args.append(a)
        if not args:
            return const(tmpl)
        return ("fmt", const(tmpl), tuple(args))

    def e_Lambda(self, n, st):
        names = tuple(a.arg for a in n.args.args)
        st2 = st.fork()
        for a in names:
            st2.env[a] = ("lparam", a)
        body = self.ev(n.body, st2)
        return ("lambda", names, body)

    def e_Yield(self, n, st):
        v = self.ev(n.value, st) if n.value else NONE
        self.emit(st, "yield", (v,), n)
        return NONE

    def e_YieldFrom(self, n, st):
        # yield from S  is  for x in S: yield x
        it = self.expand(self.ev(n.value, st))
        lid = ("L", st.loopn[0])
        st.loopn[0] += 1
        self.emit(st, "loop-enter", (lid, it), n)
        self.emit(st, "yield", (("elem", it, lid),), n)
        self.emit(st, "loop-exit", (lid,), n)
        return NONE

    def expand_args(self, args, st):
        out = []
        for a in args:
            t = self.ev(a, st)
            if t[0] == "star":
                inner = self.expand(t[1])
                if plain_seq(inner):
                    out.extend(inner[1])
                    continue
                t = ("star", inner)
            out.append(t)
        return tuple(out)

    def e_Call(self, n, st):
        g = self.new_helper(n, st)
        if g is not None and not any(isinstance(x, (ast.If, ast.For, ast.While, ast.Try, ast.With, ast.IfExp, ast.Raise)) for b in g.node.body for x in ast.walk(b)):
            # a straight-line helper used inside a larger expression: its single path is run in place
            res = list(self.inline(g, n, st))
            if len(res) == 1 and res[0][2] is None and res[0][0] is st:
                return res[0][1]
            raise Unsupported("helper %s could not be looked through" % g.qual)
        if (isinstance(n.func, ast.Name) and n.func.id == "map" and len(n.args) == 2 and not n.keywords and isinstance(n.args[0], (ast.Name, ast.Attribute))
                and not isinstance(n.args[1], ast.Starred) and self.ev(n.func, st) == ("glob", "builtins.map")):
            # map(f, s) is the generator (f(x) for x in s)
            var = "__map%d" % st.loopn[0]
            call = ast.Call(func=n.args[0], args=[ast.Name(id=var, ctx=ast.Load())], keywords=[])
            gen = ast.GeneratorExp(elt=call, generators=[ast.comprehension(target=ast.Name(id=var, ctx=ast.Store()), iter=n.args[1], ifs=[], is_async=0)])
            for x in ast.walk(gen):
                if x is not n.args[0] and x is not n.args[1] and not hasattr(x, "lineno"):
                    ast.copy_location(x, n)
            return self.comp("gen", gen, st)
        f = self.ev(n.func, st)
        args = self.expand_args(n.args, st)
        kws = []
        for k in n.keywords:
            v = self.ev(k.value, st)
            if k.arg is None and v[0] == "dict" and all(kk is not None and is_const(kk) and isinstance(kk[1], str) for kk, _ in v[1]):
                kws.extend((kk[1], vv) for kk, vv in v[1])
            else:
                kws.append((k.arg, v))
        kws = tuple(kws)
        # a library keyword given its documented default is not part of the term (np.ravel(x, order="C") is np.ravel(x))
        if kws:
            cname = f[1] if f[0] == "glob" else ("." + f[2] if f[0] == "attr" else None)
            if cname is not None:
                kws = tuple((k, v) for k, v in kws if not (k is not None and (cname, k) in contracts.LIB_DEFAULTS and is_const(v) and v[1] == contracts.LIB_DEFAULTS[(cname, k)]
                                                           and type(v[1]) is type(contracts.LIB_DEFAULTS[(cname, k)])))
        q = f[1] if f[0] == "glob" else None
        # ---- interpreted builtins over literal sequences
        if q in ("builtins.reversed", "builtins.tuple", "builtins.list", "builtins.enumerate", "builtins.zip") and not kws:
            xs = tuple(self.expand(a) for a in args)
            if q == "builtins.reversed" and len(xs) == 1 and plain_seq(xs[0]):
                return ("tuple", tuple(reversed(xs[0][1])))
            if q in ("builtins.tuple", "builtins.list") and len(xs) == 1:
                kind = q.split(".")[1]
                if is_seq(xs[0]):
                    return (kind, xs[0][1])
                if xs[0][0] == "comp":
                    return ("comp", kind) + xs[0][2:]
                if xs[0][0] != "star":
                    return (kind, (("star", xs[0]),))       # an open sequence copied from xs[0]
            if q in ("builtins.tuple", "builtins.list") and not xs:
                return (q.split(".")[1], ())
            if q == "builtins.enumerate" and len(xs) == 1 and plain_seq(xs[0]):
                return ("tuple", tuple(("tuple", (const(i), e)) for i, e in enumerate(xs[0][1])))
            if q == "builtins.zip" and xs and all(plain_seq(a) for a in xs):
                return ("tuple", tuple(("tuple", es) for es in zip(*[a[1] for a in xs])))
            if q == "builtins.zip" and len(xs) >= 2 and all(a[0] == "comp" and a[1] in ("list", "gen", "tuple") and not a[5] and canon(a[3]) == canon(xs[0][3]) for a in xs) and _pure_seq(xs[0][3]):
                # zip([f(i) for i in S], [g(i) for i in S]) is ((f(i), g(i)) for i in S): comprehensions over one and the same sequence advance in step
                s0, l0 = xs[0][3], xs[0][4]
                return ("comp", "gen", ("tuple", tuple(subst(a[2], {("elem", a[3], a[4]): ("elem", s0, l0)}) for a in xs)), s0, l0, ())
        if q == "builtins.len" and len(args) == 1 and plain_seq(args[0]) and not kws:
            return const(len(args[0][1]))
        if q == "builtins.range" and args and all(is_int(a) for a in args) and not kws:
            r = range(*[a[1] for a in args])
            if len(r) <= 16:
                return ("tuple", tuple(const(i) for i in r))
        if q == "builtins.dict":
            if not args and all(k is not None for k, _ in kws):
                return ("dict", tuple((const(k), v) for k, v in kws))
            if len(args) == 1 and not kws:
                d = self.as_dict(args[0])
                if d is not None:
                    return d
        if q == "builtins.isinstance" and len(args) == 2 and args[0][0] in ("tuple", "list") and args[1][0] == "glob":
            return const(args[1][1] == "builtins." + args[0][0])
        # "...{}".format(a, b)
        if f[0] == "attr" and f[2] == "format" and is_const(f[1]) and isinstance(f[1][1], str) and not kws:
            return ("fmt", f[1], args)
        if q == "numpy.transpose" and len(args) == 1 and not kws and args[0][0] == "call" and args[0][1] == ("glob", "numpy.asarray") and len(args[0][2]) == 1 and not args[0][3]:
            args = (args[0][2][0],)
        # np.shape(x) / np.ndim(x) / np.size(x) are recorded as the attribute every array has (x.shape / x.ndim / x.size)
        if q in ("numpy.shape", "numpy.ndim", "numpy.size") and len(args) == 1 and not kws:
            return ("attr", args[0], q.rsplit(".", 1)[1])
        # x.min() / x.max() / x.ravel() / x.reshape(s) are recorded as the equivalent numpy function calls, so that the method and
        # the function spelling of the same array operation are one term
        if f[0] == "attr" and f[2] == "searchsorted" and f[1][0] not in ("glob",) and args:
            f, args = ("glob", "numpy.searchsorted"), (f[1],) + tuple(args)        # a.searchsorted(v, side=...) is np.searchsorted(a, v, side=...)
        if f[0] == "attr" and f[2] in ARRAY_METHODS and f[1][0] not in ("glob",) and not (f[2] in ("min", "max", "ravel") and args):
            f, args = ("glob", "numpy." + f[2]), (f[1],) + tuple(args)
            if f[1] == "numpy.reshape" and len(args) > 2:
                args = (args[0], ("tuple", tuple(args[1:])))
        # np.array(region).reshape((len(region) // 2, 2)) -> pairs of a known-arity tuple
        if f == ("glob", "numpy.reshape") and len(args) == 2 and not kws and args[0][0] == "call" and args[0][1] == ("glob", "numpy.array") and len(args[0][2]) == 1:
            src = args[0]
            x = self.expand(src[2][0])
            shp = args[1]
            if plain_seq(x) and len(x[1]) % 2 == 0 and shp[0] == "tuple" and len(shp[1]) == 2 and shp[1][1] == const(2):
                n0 = shp[1][0]
                half = ("binop", "//", ("call", ("glob", "builtins.len"), (src[2][0],), (), 0), const(2))
                if n0 == const(len(x[1]) // 2) or canon(n0) == canon(half):
                    return ("tuple", tuple(("tuple", x[1][i:i + 2]) for i in range(0, len(x[1]), 2)))
        # all(p for x in s) is recorded as not any(not p for x in s): one quantifier, so that the two spellings of a test are one term
        dual = False
        if q == "builtins.all" and len(args) == 1 and not kws and args[0][0] == "comp" and args[0][1] in ("gen", "list"):
            c = args[0]
            f, args, dual = ("glob", "builtins.any"), ((c[0], c[1], negate_term(c[2])) + tuple(c[3:]),), True
        names = contracts.package_signature(self.pkg, f, self.fn.cls)
        if names is not None:
            args, kws = contracts.canonical_args(names, args, kws)
        base = ("call", f, args, kws, 0)
        key = canon(base)
        k = st.ordinals.get(key, 0)
        st.ordinals[key] = k + 1
        t = ("call", f, args, kws, k)
        self.emit(st, "call", (t,), n)
        return ("unop", "not", t) if dual else t

    def as_dict(self, t):
        """dict(<list of pairs>) as a dict term"""
        if is_seq(t):
            pairs = []
            for e in t[1]:
                if e[0] == "tuple" and len(e[1]) == 2:
                    pairs.append((e[1][0], e[1][1]))
                elif e[0] == "star":
                    pairs.append((None, e[1]))
                else:
                    return None
            return ("dict", tuple(pairs))
        if t[0] == "call" and t[1] == ("glob", "builtins.zip") and len(t[2]) == 2:
            return ("dict", ((None, t),))
        return None

    def decisions(self, c, st, node):
        """(state, truth) for every way the condition term c can come out on state st.  and / or / not are taken apart in short-circuit
        order and every undecided atom forks the path, so that the decisions recorded on a path are always atoms: `if a and b`, `if a: if b`,
        `if not (not a or not b)`, `flag = a and b; if flag` and an `a or b` guard split into two statements all give the same paths"""
        c0, neg = _strip_not(c)
        if c0[0] == "boolop":
            op, vals = c0[1], c0[2]

            def rec(i, st_):
                if i == len(vals):
                    yield st_, op == "And"
                    return
                for st2, t in self.decisions(vals[i], st_, node):
                    if t != (op == "And"):
                        yield st2, t                    # short circuit
                    else:
                        yield from rec(i + 1, st2)
            for st2, t in rec(0, st):
                yield st2, ((not t) if neg else t)
            return
        v = lookup(st.decided, c0)
        if v is not None:
            yield st, ((not v) if neg else v)
            return
        order = (False, True) if neg else (True, False)      # the arm on which the un-negated test holds comes first, however it is written
        for i, val in enumerate(order):
            st2 = st.fork() if i == 0 else st
            assume(st2.decided, c0, val)
            lc, lv = literal(c0, val)
            st2.conds.append((lc, lv))
            self.emit(st2, "cond", (lc, lv), node)
            yield st2, ((not val) if neg else val)

    def comp(self, kind, n, st):
        def rec(gens, st_):
            if not gens:
                if kind == "dict":
                    return [("tuple", (self.ev(n.key, st_), self.ev(n.value, st_)))]
                return [self.ev(n.elt, st_)]
            g = gens[0]
            it = self.expand(self.ev(g.iter, st_))
            if plain_seq(it) and not g.ifs and len(it[1]) <= 16:
                out = []
                for e in it[1]:
                    st2 = st_.fork()
                    st2.events = st_.events      # share the event log and counters
                    st2.ordinals = st_.ordinals
                    st2.loopn = st_.loopn
                    self.bind(g.target, e, st2, n)
                    out.extend(rec(gens[1:], st2))
                return out
            lid = ("L", st_.loopn[0])
            st_.loopn[0] += 1
            st2 = st_.fork()
            st2.events, st2.ordinals, st2.loopn = st_.events, st_.ordinals, st_.loopn
            if it[0] == "comp" and it[1] in ("list", "gen", "tuple") and not it[5]:
                # a comprehension over an unfiltered comprehension is one comprehension over the inner sequence: the element is the inner
                # element expression ([g(y) for y in (f(x) for x in s)]  ==  [g(f(x)) for x in s])
                inner_elt, it = subst(it[2], {("elem", it[3], it[4]): ("elem", it[3], lid)}), it[3]
                self.emit(st2, "loop-enter", (lid, it), n)
                self.bind(g.target, inner_elt, st2, n)
            else:
                self.emit(st2, "loop-enter", (lid, it), n)
                self.bind(g.target, ("elem", it, lid), st2, n)
            conds = tuple(self.ev(c, st2) for c in g.ifs)
            inner = rec(gens[1:], st2)
            self.emit(st2, "loop-exit", (lid,), n)
            elt = inner[0] if len(inner) == 1 else ("tuple", tuple(inner))
            return [("star", ("comp", "list", elt, it, lid, conds))]
        res = rec(n.generators, st)
        if len(res) == 1 and res[0][0] == "star" and res[0][1][0] == "comp":
            c = res[0][1]
            return ("comp", kind) + c[2:]
        if kind == "dict":
            pairs = []
            for r in res:
                if r[0] == "tuple":
                    pairs.append((r[1][0], r[1][1]))
                else:
                    pairs.append((None, r[1]))
            return ("dict", tuple(pairs))
        return ("list" if kind == "list" else "tuple", tuple(res))

    def e_ListComp(self, n, st):
        return self.comp("list", n, st)

    def e_GeneratorExp(self, n, st):
        return self.comp("gen", n, st)

    def e_SetComp(self, n, st):
        return self.comp("set", n, st)

    def e_DictComp(self, n, st):
        return self.comp("dict", n, st)

    # ------------------------------------------------------------------ binding
    def bind(self, target, val, st, node=None):
        if isinstance(target, ast.Name):
            st.env[target.id] = val
        elif isinstance(target, (ast.Tuple, ast.List)):
            val = self.expand(val)
            for i, t in enumerate(target.elts):
                if isinstance(t, ast.Starred):
                    raise Unsupported("starred assignment target")
                self.bind(t, mk_sub(val, const(i)), st, node)
        elif isinstance(target, ast.Attribute):
            b = self.ev(target.value, st)
            self.emit(st, "setattr", (b, target.attr, val), target)
            if b == ("param", "self"):
                st.env["self." + target.attr] = val
        elif isinstance(target, ast.Subscript):
            b = self.ev(target.value, st)
            idx = self.ev(target.slice, st)
            compdict = b[0] == "comp" and b[1] == "dict" and isinstance(target.value, ast.Name)
            local = (b[0] in ("dict", "list") and isinstance(target.value, ast.Name)) or compdict
            self.emit(st, "store", (b, idx, val, "container" if local else "array"), target)
            if compdict:
                st.env[target.value.id] = ("dict", ((None, b), (idx, val)))
            elif local and b[0] == "dict":
                st.env[target.value.id] = ("dict", b[1] + ((idx, val),))
        else:
            raise Unsupported("assignment target " + type(target).__name__)

    # ------------------------------------------------------------------ statements
    def run(self, stmts, st):
        """generator of (state, exit) with exit None (fell through) | ('return'|'raise', term, line)"""
        if not stmts:
            yield st, None
            return
        s, rest = stmts[0], stmts[1:]
        for st2, ex in self.stmt(s, st):
            if ex is not None:
                yield st2, ex
            else:
                yield from self.run(rest, st2)

    # ------------------------------------------------------------------ looking through helpers that the rules do not know
    def new_helper(self, call, st):
        """the package Function called by `call` if it is not in the inventory of known functions, else None"""
        inv = known_functions()
        if not inv or not isinstance(call, ast.Call) or getattr(self, "inline_depth", 0) >= 3:
            return None
        f = call.func
        g = None
        if isinstance(f, ast.Name) and f.id not in st.env and f.id not in self.closure_env:
            g = self.pkg.functions.get(self.pkg.resolve_name(self.module, f.id))
        elif isinstance(f, ast.Name) and f.id in st.env and st.env[f.id][0] == "localfn" and f.id in self.nested \
                and not any(isinstance(x, (ast.Yield, ast.YieldFrom, ast.Nonlocal, ast.Global)) for x in ast.walk(self.nested[f.id][0])):
            # a closure defined in this function and called directly: its body is run in place, with the enclosing variables visible
            from .loader import Function
            node = self.nested[f.id][0]
            g = Function(st.env[f.id][1], self.fn.module, node)
            g.closure = True
        elif isinstance(f, ast.Name) and f.id in st.env and st.env[f.id][0] == "glob":
            g = self.pkg.functions.get(st.env[f.id][1])            # a local name bound to a function: wrap = _wrap_to_360; wrap(x)
        elif isinstance(f, ast.Attribute) and isinstance(f.value, ast.Name) and f.value.id == "self" and self.fn.cls is not None and st.env.get("self") == ("param", "self"):
            g = self.pkg.find_method(self.fn.cls.qual, f.attr)
        elif isinstance(f, ast.Attribute) and isinstance(f.value, ast.Name) and f.value.id not in st.env:
            q = self.pkg.resolve_name(self.module, f.value.id + "." + f.attr)
            g = self.pkg.functions.get(q)
        if g is None or g.qual in inv or g.qual == self.fn.qual or g.is_property or g.decorators or g.vararg or g.kwarg:
            return None
        if _spread_keywords(call) is None:
            return None
        return g

    def _is_function_ref(self, st):
        def pred(n):
            if isinstance(n, ast.Name) and n.id not in st.env:
                return self.pkg.resolve_name(self.module, n.id) in self.pkg.functions
            if isinstance(n, ast.Attribute) and isinstance(n.value, ast.Name) and n.value.id == "self" and self.fn.cls is not None:
                return self.pkg.find_method(self.fn.cls.qual, n.attr) is not None
            return False
        return pred

    def inline(self, g, call, st):
        """run the body of helper `g` in place of the call: generator of (state, value term | None, exit) where exit is a raise exit
        or None; the caller's environment is restored in every resulting state"""
        call = _spread_keywords(call) or call
        names = g.call_params if g.is_method else list(g.posparams)
        env = dict(st.env) if getattr(g, "closure", False) else {}
        if g.is_method:
            env["self"] = ("param", "self")
        pos = [self.ev(a, st) for a in call.args]
        if len(pos) > len(names):
            raise Unsupported("too many positional arguments for helper " + g.qual)
        for nm, v in zip(names, pos):
            env[nm] = v
        for k in call.keywords:
            env[k.arg] = self.ev(k.value, st)
        saved = (self.fn, self.module, getattr(self, "inline_depth", 0))
        caller_env = st.env
        self.fn, self.module, self.inline_depth = g, g.module, saved[2] + 1
        try:
            for nm in g.params:
                if nm not in env and nm not in ("self", "cls"):
                    if nm not in g.defaults:
                        raise Unsupported("missing argument %s for helper %s" % (nm, g.qual))
                    env[nm] = self.ev(g.defaults[nm], State({}))
            env.update({k: v for k, v in caller_env.items() if k.startswith("self.")})
            st.env = env
            self.emit(st, "inline-enter", (g.qual,), call)
            gen = self.run(list(g.node.body), st)
            while True:
                try:
                    st2, ex = next(gen)
                except StopIteration:
                    break
                back = dict(caller_env)
                back.update({k: v for k, v in st2.env.items() if k.startswith("self.")})
                # the helper's final locals stay visible to rules that read the path environment (loop-carried values), under names
                # that cannot clash with the caller's
                back.update({"%s::%s" % (g.name, k): v for k, v in st2.env.items() if not k.startswith("self.") and "::" not in k and caller_env.get(k) != v})
                st2.env = back
                self.fn, self.module, self.inline_depth = saved
                self.emit(st2, "inline-exit", (g.qual,), call)
                if ex is None:
                    yield st2, NONE, None
                elif ex[0] == "return":
                    yield st2, ex[1], None
                else:
                    yield st2, None, ex
                self.fn, self.module, self.inline_depth = g, g.module, saved[2] + 1
        finally:
            self.fn, self.module, self.inline_depth = saved

    def stmt(self, s, st):
        self.npaths += 0
        if isinstance(s, (ast.Expr, ast.Assign, ast.Return)) and s.value is not None:
            g = self.new_helper(s.value, st)
            if g is not None:
                for st2, val, ex in self.inline(g, s.value, st):
                    if ex is not None:
                        yield st2, ex
                    elif isinstance(s, ast.Return):
                        yield st2, ("return", val, s.lineno)
                    else:
                        if isinstance(s, ast.Assign):
                            for t in s.targets:
                                self.bind(t, val, st2, s)
                        yield st2, None
                return
        if isinstance(s, (ast.Assign, ast.Return, ast.Expr, ast.AugAssign)) and getattr(s, "value", None) is not None and not self.new_helper(s.value, st):
            # a branching helper the rules do not know, called somewhere INSIDE the statement's expression: its paths are run first, the
            # call is replaced by a temporary holding the returned value, and the statement continues on each path
            inner = None
            todo = [s.value]
            while todo and inner is None:
                n_ = todo.pop(0)
                if isinstance(n_, (ast.Lambda, ast.ListComp, ast.SetComp, ast.DictComp, ast.GeneratorExp, ast.IfExp)):
                    continue
                if isinstance(n_, ast.Call) and n_ is not s.value:
                    g_ = self.new_helper(n_, st)
                    if g_ is not None and any(isinstance(x, (ast.If, ast.For, ast.While, ast.Try, ast.With, ast.IfExp, ast.Raise)) for b in g_.node.body for x in ast.walk(b)):
                        inner = (n_, g_)
                        break
                todo.extend(ast.iter_child_nodes(n_))
            if inner is not None:
                call_node, g_ = inner
                self._tmp = getattr(self, "_tmp", 0) + 1
                tmp = "__inl%d" % self._tmp
                for st2, val, ex in self.inline(g_, call_node, st):
                    if ex is not None:
                        yield st2, ex
                        continue
                    st2.env[tmp] = val
                    one = copy.copy(s)
                    one.value = _replace_node(s.value, call_node, ast.copy_location(ast.Name(id=tmp, ctx=ast.Load()), call_node))
                    yield from self.stmt(one, st2)
                return
        if isinstance(s, (ast.Assign, ast.Return, ast.Expr, ast.AugAssign)) and getattr(s, "value", None) is not None:
            # a conditional expression anywhere in the statement (outside lambdas / comprehensions) whose arms make calls splits the path like
            # an if statement: `f(a if c else g(a))` is `if c: f(a) else: f(g(a))`; calls of the arm that is not taken are not recorded
            hit = _first_ifexp(s.value, self._is_function_ref(st))
            if hit is None and isinstance(s.value, ast.IfExp) and isinstance(s, (ast.Assign, ast.Return)):
                hit = s.value          # `x = A if c else B` / `return A if c else B` is the two-armed if statement
            if hit is not None:
                c = self.ev(hit.test, st)
                for st2, val in self.decisions(c, st, s):
                    one = copy.copy(s)
                    one.value = _replace_node(s.value, hit, hit.body if val else hit.orelse)
                    yield from self.stmt(one, st2)
                return
        if isinstance(s, ast.Expr):
            if isinstance(s.value, ast.Constant):
                yield st, None
                return
            v = self.ev(s.value, st)
            c = s.value
            if isinstance(c, ast.Call) and isinstance(c.func, ast.Attribute) and isinstance(c.func.value, ast.Name) and v[0] == "call":
                nm, meth = c.func.value.id, c.func.attr
                cur = st.env.get(nm)
                if cur is not None and cur[0] == "list" and meth == "append" and len(v[2]) == 1:
                    st.env[nm] = ("list", cur[1] + (v[2][0],))
                elif cur is not None and cur[0] == "list" and meth == "insert" and len(v[2]) == 2 and is_int(v[2][0]) and 0 <= v[2][0][1] <= len(cur[1]) \
                        and not any(x[0] == "star" for x in cur[1][:v[2][0][1]]):
                    k_ = v[2][0][1]
                    st.env[nm] = ("list", cur[1][:k_] + (v[2][1],) + cur[1][k_:])
                elif cur is not None and cur[0] == "list" and meth == "extend" and len(v[2]) == 1:
                    a = v[2][0]
                    st.env[nm] = ("list", cur[1] + (a[1] if plain_seq(a) else (("star", a),)))
                elif cur is not None and cur[0] == "comp" and cur[1] == "list" and meth in ("append", "extend") and len(v[2]) == 1:
                    a = v[2][0]
                    st.env[nm] = ("list", (("star", cur),) + ((a,) if meth == "append" else (a[1] if plain_seq(a) else (("star", a),))))
                elif cur is not None and cur[0] == "comp" and cur[1] == "dict" and meth == "update" and len(v[2]) == 1:
                    a = v[2][0]
                    st.env[nm] = ("dict", ((None, cur),) + (a[1] if a[0] == "dict" else ((None, a),)))
                elif cur is not None and cur[0] == "dict" and meth == "update" and len(v[2]) == 1:
                    a = v[2][0]
                    if a[0] == "call" and a[1] == ("glob", "builtins.dict") and len(a[2]) == 1:
                        a = self.as_dict(a[2][0]) or a
                    st.env[nm] = ("dict", cur[1] + (a[1] if a[0] == "dict" else ((None, a),)))
            yield st, None
        elif isinstance(s, ast.Assign):
            # x = x OP y and x[i] = x[i] OP y are accumulations like x OP= y: the same "aug" event is recorded (marked: a name is
            # re-bound, nothing is written in place), so that rules about sums see one form
            if len(s.targets) == 1 and isinstance(s.value, ast.BinOp) and isinstance(s.targets[0], (ast.Name, ast.Subscript)) and type(s.value.op) in BIN \
                    and ast.dump(_as_load(s.targets[0])) == ast.dump(_as_load(s.value.left)) and not (isinstance(s.targets[0], ast.Name) and s.targets[0].id not in st.env):
                cur = self.ev(s.value.left, st)
                val = self.ev(s.value.right, st)
                new = fold_bin(BIN[type(s.value.op)], cur, val)
                self.emit(st, "aug", (cur, BIN[type(s.value.op)], val, new, "rebind" if isinstance(s.targets[0], ast.Name) else "store"), s)
                if isinstance(s.targets[0], ast.Name):
                    st.env[s.targets[0].id] = new         # exactly what `x OP= y` records
                yield st, None
                return
            v = self.ev(s.value, st)
            for t in s.targets:
                self.bind(t, v, st, s)
            yield st, None
        elif isinstance(s, ast.AnnAssign):
            if s.value is not None:
                self.bind(s.target, self.ev(s.value, st), st, s)
            yield st, None
        elif isinstance(s, ast.AugAssign):
            load = ast.copy_location(_as_load(s.target), s.target)
            cur = self.ev(load, st)
            val = self.ev(s.value, st)
            new = fold_bin(BIN[type(s.op)], cur, val)
            self.emit(st, "aug", (cur, BIN[type(s.op)], val, new), s)
            if isinstance(s.target, ast.Name):
                st.env[s.target.id] = new
            elif isinstance(s.target, ast.Attribute) and cur is not None:
                b = self.ev(s.target.value, st)
                if b == ("param", "self"):
                    self.emit(st, "setattr", (b, s.target.attr, new), s)
                    st.env["self." + s.target.attr] = new
            yield st, None
        elif isinstance(s, ast.Return):
            v = self.ev(s.value, st) if s.value else NONE
            yield st, ("return", v, s.lineno)
        elif isinstance(s, ast.Raise):
            v = self.ev(s.exc, st) if s.exc else const("<re-raise>")
            yield st, ("raise", v, s.lineno)
        elif isinstance(s, ast.If):
            c = self.ev(s.test, st)
            for st2, val in self.decisions(c, st, s):
                yield from self.run(s.body if val else s.orelse, st2)
        elif isinstance(s, ast.Continue):
            yield st, ("continue", NONE, s.lineno)
        elif isinstance(s, ast.Break):
            yield st, ("break", NONE, s.lineno)
        elif isinstance(s, ast.For):
            yield from self.for_(s, st)
        elif isinstance(s, ast.Try):
            yield from self.try_(s, st)
        elif isinstance(s, ast.FunctionDef):
            self.nested[s.name] = (s, dict(st.env))
            st.env[s.name] = ("localfn", self.fn.qual + ".<locals>." + s.name)
            yield st, None
        elif isinstance(s, (ast.Pass, ast.Import, ast.ImportFrom)):
            if isinstance(s, (ast.Import, ast.ImportFrom)):
                for a in s.names:
                    nm = a.asname or a.name.split(".")[0]
                    st.env[nm] = ("glob", (s.module + "." if isinstance(s, ast.ImportFrom) and s.module else "") + a.name)
            yield st, None
        elif isinstance(s, (ast.Global, ast.Nonlocal)):
            self.emit(st, "global", (tuple(s.names),), s)
            yield st, None
        elif isinstance(s, ast.Assert):
            c = self.ev(s.test, st)
            self.emit(st, "assert", (c,), s)
            yield st, None
        elif isinstance(s, ast.With):
            # with C as name: BODY - the context expression is evaluated, the name is bound to it (a file object's __enter__ returns the
            # object itself), the body runs, and on EVERY way out of the body (normal, return, raise) the context is left
            ctxs = []
            for item in s.items:
                c = self.ev(item.context_expr, st)
                self.emit(st, "with-enter", (c,), s)
                ctxs.append(c)
                if item.optional_vars is not None:
                    self.bind(item.optional_vars, c, st, s)
            for st2, ex in self.run(s.body, st):
                for c in reversed(ctxs):
                    self.emit(st2, "with-exit", (c,), s)
                yield st2, ex
        else:
            raise Unsupported("statement " + type(s).__name__)

    def for_(self, s, st):
        # `continue` ends the iteration, `break` ends the loop without running its else clause; other exits (return / raise) leave the function
        it = self.expand(self.ev(s.iter, st))
        if plain_seq(it) and len(it[1]) <= 8:
            def unroll(k, st_k):
                if k == len(it[1]):
                    yield from self.run(s.orelse, st_k)
                    return
                self.bind(s.target, it[1][k], st_k, s)
                for st3, ex in self.run(s.body, st_k):
                    if ex is not None and ex[0] == "continue":
                        yield from unroll(k + 1, st3)
                    elif ex is not None and ex[0] == "break":
                        yield st3, None
                    elif ex is not None:
                        yield st3, ex
                    else:
                        yield from unroll(k + 1, st3)
            yield from unroll(0, st)
            return
        lid = ("L", st.loopn[0])
        st.loopn[0] += 1
        stored, grown = set(), set()
        for sub_ in s.body:
            for nn in ast.walk(sub_):
                if isinstance(nn, ast.Name) and isinstance(nn.ctx, ast.Store):
                    stored.add(nn.id)
                elif isinstance(nn, ast.AugAssign) and isinstance(nn.target, ast.Name):
                    stored.add(nn.target.id)
                elif isinstance(nn, ast.Call) and isinstance(nn.func, ast.Attribute) and isinstance(nn.func.value, ast.Name) \
                        and nn.func.attr in ("append", "extend", "update"):
                    grown.add(nn.func.value.id)
                elif isinstance(nn, ast.Subscript) and isinstance(nn.ctx, ast.Store) and isinstance(nn.value, ast.Name):
                    grown.add(nn.value.id)
        targets = {nn.id for nn in ast.walk(s.target) if isinstance(nn, ast.Name)}
        pre = dict(st.env)
        carried = {nm for nm in stored if nm in pre and nm not in targets}
        containers = {nm for nm in grown if nm in pre and nm not in carried and pre[nm][0] in ("list", "dict")}
        for nm in carried:
            st.env[nm] = ("prev", lid, nm, pre[nm])
        if it[0] == "comp" and it[1] in ("list", "gen", "tuple") and not it[5]:
            # a loop over an unfiltered comprehension is a loop over the inner sequence, its elements transformed (as for comprehensions)
            inner_elt, it = subst(it[2], {("elem", it[3], it[4]): ("elem", it[3], lid)}), it[3]
            self.emit(st, "loop-enter", (lid, it), s)
            self.bind(s.target, inner_elt, st, s)
        else:
            self.emit(st, "loop-enter", (lid, it), s)
            self.bind(s.target, ("elem", it, lid), st, s)
        # a body that is only `if c: <grow containers>` is the filter of a comprehension: [E for t in S if c]
        body, filt = s.body, ()
        while len(body) == 1 and isinstance(body[0], ast.If) and not body[0].orelse and all(_grows_only(b) for b in body[0].body) and not _first_ifexp_any(body[0].test):
            filt += (self.ev(body[0].test, st),)
            body = body[0].body
        for st3, ex in self.run(body, st):
            broke = ex is not None and ex[0] == "break"
            if ex is not None and ex[0] not in ("continue", "break"):
                yield st3, ex
                continue
            for nm in carried:
                nxt = st3.env.get(nm)
                if nxt == ("prev", lid, nm, pre[nm]):
                    st3.env[nm] = pre[nm]
                else:
                    st3.env[nm] = ("mu", lid, nm, pre[nm], nxt)
            for nm in containers:
                cur = st3.env.get(nm)
                old = pre[nm]
                if cur is not None and cur[0] == old[0] and cur[1][: len(old[1])] == old[1] and len(cur[1]) > len(old[1]):
                    new = cur[1][len(old[1]):]
                    if cur[0] == "list" and len(new) == 1 and new[0][0] != "star":
                        # x = []; for t in S: x.append(E)  is the list [E for t in S]
                        comp = ("comp", "list", new[0], it, lid, filt)
                        st3.env[nm] = comp if not old[1] else ("list", old[1] + (("star", comp),))
                    elif cur[0] == "list" and not filt:
                        st3.env[nm] = ("list", old[1] + (("star", ("comp", "list", ("tuple", new), it, lid, ())),))
                    elif cur[0] == "dict" and len(new) == 1 and new[0][0] is not None:
                        # d = {}; for t in S: d[K] = V  is the dict {K: V for t in S}
                        comp = ("comp", "dict", ("tuple", (new[0][0], new[0][1])), it, lid, filt)
                        st3.env[nm] = comp if not old[1] else ("dict", old[1] + ((None, comp),))
            self.emit(st3, "loop-exit", (lid,), s)
            if s.orelse and not broke:
                yield from self.run(s.orelse, st3)
            else:
                yield st3, None

    def try_(self, s, st):
        tid = ("T", s.lineno and len([e for e in st.events if e.kind == "try-enter"]))
        pre = st.fork()
        self.emit(st, "try-enter", (tid,), s)

        def finish(st_x, ex):
            """run the finally block on the way out"""
            if not s.finalbody:
                yield st_x, ex
                return
            self.emit(st_x, "finally", (tid,), s)
            for st4, ex4 in self.run(s.finalbody, st_x):
                yield st4, (ex4 if ex4 is not None else ex)

        for st2, ex in self.run(s.body, st):
            if ex is None:
                self.emit(st2, "try-body-end", (tid,), s)
                for st3, ex3 in self.run(s.orelse, st2):
                    yield from finish(st3, ex3)
            else:
                yield from finish(st2, ex)
        for h in s.handlers:
            sth = pre.fork()
            self.emit(sth, "try-enter", (tid,), s)
            exc = self.ev(h.type, sth) if h.type is not None else const("<any>")
            self.emit(sth, "handler", (tid, exc), h)
            if h.name:
                sth.env[h.name] = ("unknown", "exception")
            for st3, ex3 in self.run(h.body, sth):
                yield from finish(st3, ex3)
        if s.finalbody:
            # an exception not caught by any handler: finally runs, then it propagates
            stp = pre.fork()
            self.emit(stp, "try-enter", (tid,), s)
            self.emit(stp, "exception", (tid,), s)
            for st3, ex3 in finish(stp, ("raise", const("<propagated>"), s.lineno)):
                yield st3, ex3


def _spread_keywords(call):
    """the call with literal spreads written out - f(*(a, b), **dict(k=v)) as f(a, b, k=v) - or None if a spread is not a literal"""
    if not any(isinstance(a, ast.Starred) for a in call.args) and not any(k.arg is None for k in call.keywords):
        return call
    args, kws = [], []
    for a in call.args:
        if isinstance(a, ast.Starred):
            if not isinstance(a.value, (ast.Tuple, ast.List)) or any(isinstance(x, ast.Starred) for x in a.value.elts):
                return None
            args.extend(a.value.elts)
        else:
            args.append(a)
    for k in call.keywords:
        if k.arg is not None:
            kws.append(k)
        elif isinstance(k.value, ast.Call) and isinstance(k.value.func, ast.Name) and k.value.func.id == "dict" and not k.value.args and all(x.arg is not None for x in k.value.keywords):
            kws.extend(k.value.keywords)
        elif isinstance(k.value, ast.Dict) and all(isinstance(x, ast.Constant) and isinstance(x.value, str) for x in k.value.keys):
            kws.extend(ast.keyword(arg=x.value, value=v) for x, v in zip(k.value.keys, k.value.values))
        else:
            return None
    return ast.copy_location(ast.Call(func=call.func, args=args, keywords=kws), call)


def _pure_seq(t):
    """a sequence term whose value is the same whenever it is evaluated: parameters, attributes and range / len / enumerate / zip of those"""
    from .terms import callee
    return not any(isinstance(x, tuple) and x and x[0] == "call" and callee(x) not in ("builtins.range", "builtins.len", "builtins.enumerate", "builtins.zip") for x in walk(t))


def _grows_only(stmt):
    """the statement only grows a local container: x.append(E) / x[K] = V"""
    if isinstance(stmt, ast.Expr) and isinstance(stmt.value, ast.Call) and isinstance(stmt.value.func, ast.Attribute) and isinstance(stmt.value.func.value, ast.Name) \
            and stmt.value.func.attr == "append" and len(stmt.value.args) == 1 and not stmt.value.keywords:
        return True
    return isinstance(stmt, ast.Assign) and len(stmt.targets) == 1 and isinstance(stmt.targets[0], ast.Subscript) and isinstance(stmt.targets[0].value, ast.Name)


def _first_ifexp_any(expr):
    return any(isinstance(x, ast.IfExp) for x in ast.walk(expr))


def _first_ifexp(expr, is_function_ref=lambda n: False):
    """the first conditional expression in `expr` (not inside a lambda or comprehension) one of whose arms contains a call - or both of
    whose arms name a function (`kernel = predict_numba if fast else predict_numpy`: the later kernel(...) is then a call of ONE function
    on each path)"""
    todo = [expr]
    while todo:
        n = todo.pop(0)
        if isinstance(n, (ast.Lambda, ast.ListComp, ast.SetComp, ast.DictComp, ast.GeneratorExp)):
            continue
        if isinstance(n, ast.IfExp) and (any(isinstance(x, ast.Call) for arm in (n.body, n.orelse) for x in ast.walk(arm)) or (is_function_ref(n.body) and is_function_ref(n.orelse))
                                         or not any(isinstance(x, ast.Call) and not (isinstance(x.func, ast.Name) and x.func.id in ("len", "isinstance")) for x in ast.walk(n.test))):
            return n            # (a test without calls can be decided first without reordering any recorded call)
        todo.extend(ast.iter_child_nodes(n))
    return None


def _replace_node(root, old, new):
    if root is old:
        return new

    class T(ast.NodeTransformer):
        def visit(self, node):
            if node is old:
                return new
            return self.generic_visit(node)
    return T().visit(copy.deepcopy(root) if False else _shallow_copy_tree(root, old))


def _shallow_copy_tree(root, keep):
    """copy of the tree in which the node `keep` is kept by identity (so that it can be found and replaced)"""
    if root is keep:
        return root
    new = copy.copy(root)
    for f, v in ast.iter_fields(root):
        if isinstance(v, ast.AST):
            setattr(new, f, _shallow_copy_tree(v, keep))
        elif isinstance(v, list):
            setattr(new, f, [_shallow_copy_tree(x, keep) if isinstance(x, ast.AST) else x for x in v])
    return new


def _as_load(target):
    t = ast.parse(ast.unparse(target), mode="eval").body
    return t


class FunctionAnalysis:
    def __init__(self, fn):
        self.fn = fn
        self.paths = []
        self.unsupported = None
        self.nested = {}

    @property
    def ok(self):
        return self.unsupported is None


def analyse_function(pkg, fn, closure_env=None):
    fa = FunctionAnalysis(fn)
    ev = Evaluator(pkg, fn, closure_env)
    env = {}
    for p in fn.params:
        env[p] = ("param", p)
    if fn.vararg:
        env[fn.vararg] = ("param", "*" + fn.vararg)
    if fn.kwarg:
        env[fn.kwarg] = ("param", "**" + fn.kwarg)
    if closure_env:
        clash = [p for p in env if any(x == ("param", p) for v in closure_env.values() for x in walk(v))]
        if clash:
            fa.unsupported = "nested function parameter shadows an outer parameter: %s" % clash
            return fa
    try:
        for st, ex in ev.run(list(fn.node.body), State(env)):
            if ex is None:
                fa.paths.append(Path(st, "fall", NONE, getattr(fn.node, "end_lineno", 0)))
            else:
                fa.paths.append(Path(st, ex[0], ex[1], ex[2]))
            if len(fa.paths) > MAX_PATHS:
                raise Unsupported("more than %d paths" % MAX_PATHS)
    except Unsupported as e:
        fa.unsupported = str(e)
        fa.paths = []
        return fa
    except RecursionError:
        fa.unsupported = "recursion limit"
        fa.paths = []
        return fa
    from .loader import Function
    for name, (node, cenv) in ev.nested.items():
        sub = Function(fn.qual + ".<locals>." + name, fn.module, node, None, parent=fn)
        fa.nested[name] = analyse_function(pkg, sub, closure_env={**(closure_env or {}), **cenv})
    return fa


class Analysis:
    """whole-package analysis: functions -> FunctionAnalysis (lazy)"""

    def __init__(self, pkg):
        self.pkg = pkg
        self._fa = {}

    def fa(self, qual):
        if qual not in self._fa:
            if ".<locals>." in qual:
                outer, _, name = qual.rpartition(".<locals>.")
                o = self.fa(outer)
                self._fa[qual] = o.nested.get(name) if o.ok else o
                if self._fa[qual] is None:
                    from .loader import AnalysisError
                    raise AnalysisError("anchor vanished: nested function %s" % qual)
            else:
                self._fa[qual] = analyse_function(self.pkg, self.pkg.fn(qual))
        return self._fa[qual]

    def paths(self, qual):
        fa = self.fa(qual)
        if not fa.ok:
            raise UndecidedFunction(qual, fa.unsupported)
        return fa.paths

    def all(self):
        for q in self.pkg.functions:
            yield q, self.fa(q)


class UndecidedFunction(Exception):
    def __init__(self, qual, why):
        super().__init__("%s: %s" % (qual, why))
        self.qual, self.why = qual, why
