"""C14 - rolling and expanding windows select exactly the points inside each window (DESIGN §4 C14)."""
from .. import q as Q
from .. import spec
from ..nf import Builder, Space, Undecided, compare
from ..paths import lookup
from ..terms import callee, canon, const, is_const, is_int, kw, show, walk, NONE
from . import common as K

EXPLANATION = ("normal form of the shrunk centre region vs the documented formula; literal/operator checks of the closed square ball query "
               "(p = inf, r = size/2); role agreement of tree and query; index-shape and flatten-order checks; rejection guards")
RULES = {
    "R1": "centre region == (W + s/2, E - s/2, S + s/2, N - s/2); centres = grid_coordinates(that, spacing, shape, adjust) without pixel registration",
    "R2": "tree on the data (E, N) with the SciPy backend; query_ball_point(centres as (E, N) columns, r = size/2, p = inf)",
    "R3": "each index list is unravelled with shape=coordinates[0].shape; the object array has centres[0].shape and is filled through a C-order ravel",
    "R4": "expanding_window iterates sizes in the given order with r = size/2, p = inf, element 0 of the single-centre query, same unravel shape",
    "R5": "neither-shape-nor-spacing and oversize windows raise before any work; check_coordinates dominates",
}
ASSUMPTIONS = ["coverage of the region and nesting by size follow from the monotonicity of ball queries (declined)"]
RW, EW = "verde.coordinates.rolling_window", "verde.coordinates.expanding_window"
GC = "verde.coordinates.grid_coordinates"
CHK = ("call", ("glob", "verde.base.utils.check_coordinates"), (("param", "coordinates"),), (), 0)
INF = {("glob", "numpy.inf"), ("glob", "math.inf"), ("call", ("glob", "builtins.float"), (const("inf"),), (), 0)}


def ball_query(ctx, rule, qn, p, q, size_term, tag):
    r = Q.arg(ctx, q, "r")
    want = ("binop", "/", size_term, const(2))
    ok = None
    if isinstance(r, tuple):
        sp = Space()
        try:
            ok = compare(sp, Builder(sp).nf(r, {size_term: sp.sym("size")}), Builder(sp).nf(want, {size_term: sp.sym("size")}))
        except Undecided:
            ok = None
    elif r is None:
        ok = None
    why = "the ball radius is %s (documented: half the window size)" % (show(r) if isinstance(r, tuple) else r)
    if ok is None and isinstance(r, tuple):
        nc = [x for x, k_ in Q.narrowing_casts(r) if k_ == "narrowing"]
        if nc:
            ok, why = False, "the window size passes through the conversion %s before it is halved: for integer coordinates a fractional size is truncated and the window shrinks" % show(nc[0])[:70]
    ctx.check(rule, "%s|radius|%s" % (qn, tag), ok, "the ball radius is size / 2", bad=why, fn=qn)
    pn = Q.arg(ctx, q, "p")
    okp = True if isinstance(pn, tuple) and canon(pn) in {canon(x) for x in INF} else (False if pn is None or (isinstance(pn, tuple) and is_const(pn)) else None)
    ctx.check(rule, "%s|infinity-norm|%s" % (qn, tag), okp, "the query uses the infinity norm (a closed square window)",
              bad="the query uses p=%s: windows are not squares" % (show(pn) if isinstance(pn, tuple) else "2 (default)"), fn=qn)


def _handwritten_unravel(ctx, qn, call, idx, shape):
    """`call` = helper(idx, shape) in some argument order, helper = qn (a package function).  Judges every return path of the helper as an
    unravel of C-order flat indices to `shape`: np.unravel_index(i, s) is right; for a shape known to have one axis `(i,)` is right; for a shape known
    to have two axes the pair (i // s[1], i % s[1]) (or divmod(i, s[1])) is right and the same pair taken with s[0] - the number of rows - is a
    positive contradiction (it indexes an array of the transposed shape).  Returns (verdict, bad text) or None when the call is not of that form."""
    f = ctx.pkg.functions[qn]
    params = [a for a in f.params]
    args = list(call[2])
    if call[3] or len(args) != 2 or len(params) != 2 or idx not in [Q.unwrap(a, int_ok=True) for a in args] or shape not in args:
        return None
    pi = params[[Q.unwrap(a, int_ok=True) for a in args].index(idx)]
    ps_ = params[args.index(shape)]
    I, S = ("param", pi), ("param", ps_)

    def is_idx(t):
        return Q.unwrap(t, int_ok=True) == I

    def axis(t):        # s[k] -> k
        return t[2][1] if t[0] == "sub" and t[1] == S and is_const(t[2]) and is_int(t[2]) else None

    verdict, bad = True, None
    seen = 0
    for p in ctx.paths(qn):
        if p.exit != "return":
            continue
        seen += 1
        v = p.value
        if v[0] == "call" and callee(v) == "builtins.tuple" and len(v[2]) == 1:
            v = v[2][0]
        if v[0] == "tuple" and len(v[1]) == 1 and v[1][0][0] == "star":       # tuple(x) of a non-literal is the open sequence (*x,)
            v = v[1][0][1]
        nd = None
        for c, tv in p.conds:
            if c[0] == "cmp" and c[1] == "==" and c[2][0] == "call" and callee(c[2]) == "builtins.len" and c[2][2] == (S,) and is_const(c[3]) and tv:
                nd = c[3][1]
        k = None
        if v[0] == "call" and callee(v) == "numpy.unravel_index":
            ok = is_idx(Q.arg(ctx, v, "indices")) and Q.arg(ctx, v, "shape") == S
            verdict = verdict if ok else (None if verdict else verdict)
            continue
        if v[0] == "tuple" and len(v[1]) == 1 and is_idx(v[1][0]) and nd == 1:
            continue
        if v[0] == "call" and callee(v) in ("numpy.divmod", "builtins.divmod") and len(v[2]) == 2 and is_idx(v[2][0]):
            k = axis(v[2][1])
        elif v[0] == "tuple" and len(v[1]) == 2 and all(x[0] == "binop" for x in v[1]) and v[1][0][1] == "//" and v[1][1][1] == "%" and \
                is_idx(v[1][0][2]) and is_idx(v[1][1][2]) and v[1][0][3] == v[1][1][3]:
            k = axis(v[1][0][3])
        if k is not None and nd == 2:
            if k in (1, -1):
                continue
            if k in (0, -2):
                verdict = False
                bad = ("%s splits the C-order flat indices of a 2-D input by shape[0] (the number of rows) instead of shape[1] (the row length): the pair "
                       "indexes an array of the transposed shape" % qn)
                continue
        if verdict:
            verdict = None
    if not seen:
        return None
    return verdict, bad


def check(ctx):
    K.point_order_contract(ctx, "R3")     # indices returned by the tree are unravelled in C order: the tree must number the points in C order
    K.roles_rule(ctx, "R2", [RW, EW], with_return=True, skip_kinds=("arith",), require={RW: [{"tree-query"}, {"region-arg"}], EW: [{"tree-query"}]})
    want_wr = [p for p in spec.paths("coords.window_region") if p.exit == "return"][0].value
    n = 0
    for p in ctx.paths(RW):
        if p.exit != "return":
            continue
        given = lookup(p.decided, ("cmp", "is", ("param", "region"), NONE)) is False
        tag = "region-given" if given else "region-none"
        n += 1
        gcs = [e.data[0] for e in p.events if e.kind == "call" and callee(e.data[0]) == GC]
        if len(gcs) != 1:
            ctx.add("R1", "%s|one-centre-grid|%s" % (RW, tag), "UNDECIDED", "expected one grid_coordinates call", fn=RW)
            continue
        g = gcs[0]
        wr = Q.arg(ctx, g, "region")
        base = ("param", "region") if given else ("call", ("glob", "verde.coordinates.get_region"), (("sub", CHK, ("slice", NONE, const(2), NONE)),), (), 0)
        res, detail = None, ""
        if isinstance(wr, tuple) and wr[0] in ("list", "tuple") and len(wr[1]) == 4:
            sp = Space()
            env = {Q.sub(base, i): sp.sym("region[%d]" % i) for i in range(4)}
            env[("param", "size")] = sp.sym("size")
            senv = {Q.sub(("param", "region"), i): sp.sym("region[%d]" % i) for i in range(4)}
            senv[("param", "size")] = sp.sym("size")
            res = True
            for i in range(4):
                try:
                    gnf, wnf = Builder(sp).nf(wr[1][i], env), Builder(sp).nf(want_wr[1][i], senv)
                    r = compare(sp, gnf, wnf)
                except Undecided as e:
                    r, gnf, wnf = None, str(e), ""
                if r is False:
                    res, detail = False, "bound %d is %s, documented %s" % (i, repr(gnf)[:70], repr(wnf)[:70])
                    break
                if r is None and res is True:
                    res, detail = None, "bound %d: %s" % (i, repr(gnf)[:80])
        ctx.check("R1", "%s|centre-region|%s" % (RW, tag), res, "window centres span the region shrunk by size/2 on every side",
                  bad="rolling_window centre region: " + detail, fn=RW, undecided=detail or "centre region is not a 4-element literal")
        for nm in ("spacing", "shape", "adjust"):
            v = Q.arg(ctx, g, nm)
            ctx.check("R1", "%s|grid_coordinates-%s|%s" % (RW, nm, tag), True if v == ("param", nm) else (False if v is None or (isinstance(v, tuple) and (is_const(v) or v[0] == "param")) else None),
                      "%s is forwarded under its own name" % nm, bad="grid_coordinates receives %s=%s" % (nm, show(v) if isinstance(v, tuple) else v), fn=RW)
        pr = Q.arg(ctx, g, "pixel_register")
        ctx.check("R1", "%s|no-pixel-registration|%s" % (RW, tag), True if pr in (None, const(False)) else (False if pr == const(True) else None),
                  "window centres are grid nodes (no pixel registration)", bad="window centres are pixel-registered", fn=RW)
        # tree / query
        trees = [e.data[0] for e in p.events if e.kind == "call" and callee(e.data[0]) == "verde.utils.kdtree"]
        qs = [e.data[0] for e in p.events if e.kind == "call" and callee(e.data[0]) == ".query_ball_point"]
        if len(qs) == 1 and qs[0][1][0] == "attr":
            recv = qs[0][1][1]
            kept = [x for x in walk(recv) if isinstance(x, tuple) and x and x[0] == "sub" and x[1][0] == "glob" and x[1][1].startswith(ctx.pkg.name + ".")]
            if kept and not (recv[0] == "call" and callee(recv) == "verde.utils.kdtree"):
                ctx.add("R2", "%s|tree-and-query|%s" % (RW, tag), "VIOLATED", "the queried tree is read from the module-level object %s: it may have been built from the coordinates of an earlier call "
                        "(arrays modified in place since are not noticed)" % show(kept[0][1]), fn=RW)
                continue
        if len(trees) != 1 or len(qs) != 1:
            ctx.add("R2", "%s|tree-and-query|%s" % (RW, tag), "UNDECIDED", "expected one kdtree and one query_ball_point call", fn=RW)
            continue
        t, q = trees[0], qs[0]
        ctx.check("R2", "%s|tree-on-data|%s" % (RW, tag), True if t[2] and t[2][0] == ("sub", CHK, ("slice", NONE, const(2), NONE)) else None, "the tree holds the data points (E, N)", fn=RW)
        up = Q.arg(ctx, t, "use_pykdtree")
        ctx.check("R2", "%s|scipy-backend|%s" % (RW, tag), True if up == const(False) else (False if up in (None, const(True)) else None),
                  "the SciPy backend is forced (pykdtree has no ball query)", bad="kdtree may return a pykdtree tree, which has no query_ball_point", fn=RW)
        x = Q.arg(ctx, q, "x")
        wantx = ("call", ("glob", "numpy.transpose"), (("call", ("glob", "verde.base.utils.n_1d_arrays"), (g, const(2)), (), 0),), (), 0)
        ctx.check("R2", "%s|query-centres|%s" % (RW, tag), True if isinstance(x, tuple) and canon(x) == canon(wantx) else None, "the ball centres are the C-order raveled (E, N) window centres", fn=RW)
        ball_query(ctx, "R2", RW, p, q, ("param", "size"), tag)
        # indices
        v = p.value
        ok_shape = ok_unr = ok_fill = None
        bad_unr = None
        if v[0] == "tuple" and len(v[1]) == 2:
            cen, ind = v[1]
            ctx.check("R3", "%s|returns-centres-first|%s" % (RW, tag), True if cen == g else (False if ind == g else None), "returns (centres, indices)", bad="returns (indices, centres)", fn=RW)
            if ind[0] == "call" and callee(ind) in ("numpy.empty", "numpy.full", "numpy.zeros"):
                shp = Q.arg(ctx, ind, "shape")
                ok_shape = True if shp == ("attr", Q.sub(g, 0), "shape") or shp == ("attr", Q.sub(g, 1), "shape") else (False if isinstance(shp, tuple) and shp[0] == "attr" and shp[2] == "shape" and ("param", "coordinates") in Q.leaves(shp) else None)
                st = [e for e in p.events if e.kind == "store" and any(xx == ind for xx in walk(e.data[0]))]
                if len(st) == 1:
                    b, val = st[0].data[0], st[0].data[2]
                    flat_c = Q.ravel_of(b) == (ind, True)
                    flat_f = Q.ravel_of(b) is not None and not Q.ravel_of(b)[1]
                    if val[0] == "comp" and val[3] == q and val[2][0] == "call" and callee(val[2]) == "numpy.unravel_index":
                        ok_fill = True if flat_c else (False if flat_f else None)
                        u = val[2]
                        ushape = Q.arg(ctx, u, "shape")
                        want_shape = ("attr", Q.sub(CHK, 0), "shape")
                        ok_unr = True if ushape == want_shape or ushape == ("attr", Q.sub(CHK, 1), "shape") else (False if isinstance(ushape, tuple) and any(xx == g for xx in walk(ushape)) else None)
                        uidx = Q.arg(ctx, u, "indices")
                        src = Q.unwrap(uidx, int_ok=True) if isinstance(uidx, tuple) else None
                        ctx.check("R3", "%s|unravels-each-window|%s" % (RW, tag), True if src is not None and src == ("elem", q, val[4]) else None, "each window's own index list is unravelled", fn=RW)
                    elif val[0] == "comp" and val[3] == q and val[2][0] == "call" and str(callee(val[2]) or "").startswith(ctx.pkg.name + ".") and callee(val[2]) in ctx.pkg.functions:
                        # the unravelling moved into a package helper the rules cannot name: judge the helper's own return paths
                        hv = _handwritten_unravel(ctx, callee(val[2]), val[2], ("elem", q, val[4]), ("attr", Q.sub(CHK, 0), "shape"))
                        if hv is not None:
                            ok_fill = True if flat_c else (False if flat_f else None)
                            ok_unr = hv[0]
                            bad_unr = hv[1]
                            ctx.check("R3", "%s|unravels-each-window|%s" % (RW, tag), True, "each window's own index list is unravelled", fn=RW)
        ctx.check("R3", "%s|indices-array-shape|%s" % (RW, tag), ok_shape, "the index array has the shape of the window centres", bad="the index array is shaped like the data, not like the centres", fn=RW)
        ctx.check("R3", "%s|unravel-shape|%s" % (RW, tag), ok_unr, "1-D indices are unravelled to the shape of the input coordinates", bad=bad_unr or "indices are unravelled with the centres' shape", fn=RW)
        ctx.check("R3", "%s|fill-order|%s" % (RW, tag), ok_fill, "windows are stored through a C-order ravel, matching the C-order ravel of the centres", bad="windows are stored in a non-C order", fn=RW)
    if n < 2:
        ctx.add("R1", RW + "|paths", "UNDECIDED", "expected return paths for region given / not given", fn=RW)
    # R5 guards
    ps = ctx.paths(RW)
    _both, neither = K.both_neither(ctx, RW, "shape", "spacing", extra_raise=lambda p: not p.calls(lambda t: callee(t) == GC))
    ctx.check("R5", RW + "|rejects-neither", neither, "neither shape nor spacing raises before any work", bad="neither shape nor spacing no longer raises", fn=RW)
    over = [p for p in ps if p.exit == "raise" and p.conds and p.conds[-1][1] and p.conds[-1][0][0] == "cmp" and p.conds[-1][0][1] in ("<", ">")]
    ok = None
    for p in over:
        c = p.conds[-1][0]
        small, big = (c[2], c[3]) if c[1] == "<" else (c[3], c[2])
        if big == ("param", "size") and small[0] == "call" and callee(small) == "builtins.min":
            ok = True
        elif big == ("param", "size") and small[0] == "call" and callee(small) == "builtins.max":
            ok = False
    ctx.check("R5", RW + "|rejects-oversize", ok if over else False, "a window larger than the smaller side of the region raises",
              bad="the oversize test compares size with the larger side / is missing", fn=RW)
    for qn in (RW, EW):
        okc = all(any(e.kind == "call" and e.data[0] == CHK for e in p.events) for p in ctx.paths(qn) if p.exit == "return")
        ctx.check("R5", qn + "|check_coordinates", True if okc else False, "coordinates pass check_coordinates", bad="coordinates of different shapes are no longer rejected", fn=qn)
    # R4 expanding window
    for p in ctx.paths(EW):
        if p.exit != "return":
            continue
        loops = [e for e in p.events if e.kind == "loop-enter"]
        ok = True if len(loops) == 1 and loops[0].data[1] == ("param", "sizes") else (False if loops and loops[0].data[1][0] == "call" and callee(loops[0].data[1]) in ("builtins.sorted", "builtins.reversed") else None)
        ctx.check("R4", EW + "|sizes-in-given-order", ok, "sizes are used in the order given", bad="sizes are reordered: results no longer follow the given order", fn=EW)
        qs = [e.data[0] for e in p.events if e.kind == "call" and callee(e.data[0]) == ".query_ball_point"]
        trees = [e.data[0] for e in p.events if e.kind == "call" and callee(e.data[0]) == "verde.utils.kdtree"]
        if len(qs) != 1 or len(trees) != 1 or not loops:
            ctx.add("R4", EW + "|query", "UNDECIDED", "expected one tree and one ball query", fn=EW)
            continue
        q = qs[0]
        size_t = ("elem", ("param", "sizes"), loops[0].data[0])
        ball_query(ctx, "R4", EW, p, q, size_t, "-")
        up = Q.arg(ctx, trees[0], "use_pykdtree")
        ctx.check("R4", EW + "|scipy-backend", True if up == const(False) else (False if up in (None, const(True)) else None), "the SciPy backend is forced",
                  bad="kdtree may return a pykdtree tree, which has no query_ball_point", fn=EW)
        x = Q.arg(ctx, q, "x")
        ctx.check("R4", EW + "|centre", True if isinstance(x, tuple) and Q.unwrap(x, funcs={"numpy.atleast_2d"}) == ("param", "center") else None, "the ball is centred on the given centre", fn=EW)
        us = [e.data[0] for e in p.events if e.kind == "call" and callee(e.data[0]) == "numpy.unravel_index"]
        ok0 = oks = None
        if len(us) == 1:
            idx = Q.arg(ctx, us[0], "indices")
            src = Q.unwrap(idx, int_ok=True) if isinstance(idx, tuple) else None
            if src is not None and src[0] == "sub" and src[1] == q and is_int(src[2]):
                ok0 = True if src[2][1] == 0 else False
            shp = Q.arg(ctx, us[0], "shape")
            oks = True if shp == ("attr", Q.sub(CHK, 0), "shape") or shp == ("attr", Q.sub(CHK, 1), "shape") else None
            v = p.value
            okr = Q.grown(v) is not None and (v[0] == "comp" or len(v[1]) == 1) and Q.grown(v)[2] == us[0]
            ctx.check("R4", EW + "|one-index-set-per-size", True if okr else None, "the result holds one unravelled index set per size", fn=EW)
        # an index set that is the query's own list turned into an array WITHOUT an integer dtype: an empty window gives np.asarray([]) -
        # a float64 array, which cannot index (the reason the code converts with dtype="int" before unravelling)
        floaty = [x for d in ([p.value] + [dd for e in p.events for dd in e.data if isinstance(dd, tuple)]) for x in walk(d)
                  if isinstance(x, tuple) and x and x[0] == "call" and callee(x) in ("numpy.asarray", "numpy.array", "numpy.asanyarray") and x[2]
                  and x[2][0] == ("sub", q, const(0)) and kw(x, "dtype") is None and len(x[2]) == 1]
        used_raw = [x for x in floaty if not any(u[2] and any(y == x for y in walk(u[2][0])) for u in us)]
        if used_raw:
            ctx.add("R4", EW + "|index-sets-have-an-integer-dtype", "VIOLATED", "a window's index list is converted with %s (no integer dtype) and used as an index without unravel_index: "
                    "an empty window becomes a float64 array that cannot index the coordinates" % show(used_raw[0])[:60], fn=EW)
        else:
            ctx.check("R4", EW + "|index-sets-have-an-integer-dtype", True, "no index list is turned into an array of default (float for empty) dtype", fn=EW, nontrivial=False)
        ctx.check("R4", EW + "|single-centre-result", ok0, "element 0 of the single-centre query is used", bad="the wrong element of the query result is used", fn=EW)
        ctx.check("R4", EW + "|unravel-shape", oks, "indices are unravelled to the shape of the input coordinates", fn=EW)
