"""Seeded faults and neutral edits for C14."""
C = "coordinates.py"
Q1 = "indices1d = tree.query_ball_point(np.transpose(n_1d_arrays(centers, 2)), r=size / 2, p=np.inf)"
Q2 = "index1d = tree.query_ball_point(center, r=size / 2, p=np.inf)[0]"
WR = "window_region = [dimension + (-1) ** (i % 2) * size / 2 for i, dimension in enumerate(region)]"
ENTRIES = [
    dict(name="neutral: window region written out with 0.5 * size", expect="DISCHARGED", file="coordinates.py", old="    window_region = [dimension + (-1) ** (i % 2) * size / 2 for i, dimension in enumerate(region)]",
         new="    window_region = [region[0] + 0.5 * size, region[1] - 0.5 * size, region[2] + size * 0.5, region[3] - size / 2]"),
    dict(name="neutral: rolling_window builds its tree in a new helper", expect="DISCHARGED",
         edits=[("coordinates.py", "    centers = grid_coordinates(window_region, spacing=spacing, shape=shape, adjust=adjust)\n    tree = kdtree(coordinates, use_pykdtree=False)\n", "    centers = grid_coordinates(window_region, spacing=spacing, shape=shape, adjust=adjust)\n    tree = _window_tree(coordinates)\n"),
                ("coordinates.py", "def _check_rolling_window_overlap(region, size, shape, spacing):", "def _window_tree(coordinates):\n    return kdtree(coordinates, use_pykdtree=False)\n\ndef _check_rolling_window_overlap(region, size, shape, spacing):")]),
    dict(name="rolling_window: new helper builds the tree on reversed coordinates", rule="R2",
         edits=[("coordinates.py", "    centers = grid_coordinates(window_region, spacing=spacing, shape=shape, adjust=adjust)\n    tree = kdtree(coordinates, use_pykdtree=False)\n", "    centers = grid_coordinates(window_region, spacing=spacing, shape=shape, adjust=adjust)\n    tree = _window_tree(coordinates)\n"),
                ("coordinates.py", "def _check_rolling_window_overlap(region, size, shape, spacing):", "def _window_tree(coordinates):\n    return kdtree(coordinates[::-1], use_pykdtree=False)\n\ndef _check_rolling_window_overlap(region, size, shape, spacing):")]),
    dict(name="rolling: r = size", rule="R2", file=C, old=Q1, new=Q1.replace("r=size / 2", "r=size")),
    dict(name="rolling: Euclidean norm", rule="R2", file=C, old=Q1, new=Q1.replace("p=np.inf", "p=2")),
    dict(name="rolling: default norm", rule="R2", file=C, old=Q1, new=Q1.replace(", p=np.inf", "")),
    dict(name="rolling: centre region grows instead of shrinking", rule="R1", file=C, old=WR, new=WR.replace("(-1) ** (i % 2)", "(-1) ** ((i + 1) % 2)")),
    dict(name="rolling: full window subtracted", rule="R1", file=C, old=WR, new=WR.replace("* size / 2", "* size")),
    dict(name="rolling: centres pixel registered", rule="R1", file=C, old="centers = grid_coordinates(window_region, spacing=spacing, shape=shape, adjust=adjust)",
         new="centers = grid_coordinates(window_region, spacing=spacing, shape=shape, adjust=adjust, pixel_register=True)"),
    dict(name="rolling: adjust not forwarded", rule="R1", file=C, old="centers = grid_coordinates(window_region, spacing=spacing, shape=shape, adjust=adjust)",
         new="centers = grid_coordinates(window_region, spacing=spacing, shape=shape)"),
    dict(name="rolling: unravel with the centres' shape", rule="R3", file=C, old="shape=coordinates[0].shape) for i in indices1d]", new="shape=centers[0].shape) for i in indices1d]"),
    dict(name="rolling: index array shaped like the data", rule="R3", file=C, old="indices = np.empty(centers[0].shape, dtype='object')", new="indices = np.empty(coordinates[0].shape, dtype='object')"),
    dict(name="rolling: F-order fill", rule="R3", file=C, old="    indices.ravel()[:] = [", new="    indices.ravel(order='F')[:] = ["),
    dict(name="rolling: pykdtree allowed", rule="R2", file=C, old="    tree = kdtree(coordinates, use_pykdtree=False)\n    indices1d", new="    tree = kdtree(coordinates)\n    indices1d"),
    dict(name="rolling: oversize test against the larger side", rule="R5", file=C, old="region_min_width = min(region[1] - region[0], region[3] - region[2])", new="region_min_width = max(region[1] - region[0], region[3] - region[2])"),
    dict(name="rolling: neither check dropped", rule="R5", file=C, old="    if shape is None and spacing is None:\n        raise ValueError('Either a shape or a spacing must be provided.')\n    coordinates = check_coordinates", new="    coordinates = check_coordinates"),
    dict(name="rolling: tree on (N, E)", rule="R2", file=C, old="    tree = kdtree(coordinates, use_pykdtree=False)\n    indices1d", new="    tree = kdtree(coordinates[::-1], use_pykdtree=False)\n    indices1d"),
    dict(name="expanding: sorted sizes", rule="R4", file=C, old="    for size in sizes:\n        index1d", new="    for size in sorted(sizes):\n        index1d"),
    dict(name="expanding: r = size", rule="R4", file=C, old=Q2, new=Q2.replace("r=size / 2", "r=size")),
    dict(name="expanding: p = 1", rule="R4", file=C, old=Q2, new=Q2.replace("p=np.inf", "p=1")),
    dict(name="neutral: rolling radius as 0.5 * size", expect="DISCHARGED", file=C, old=Q1, new=Q1.replace("r=size / 2", "r=0.5 * size")),
    dict(name="neutral: float('inf')", expect="DISCHARGED", file=C, old=Q2, new=Q2.replace("p=np.inf", "p=float('inf')")),
    dict(name="neutral: explicit window region", expect="DISCHARGED", file=C, old=WR,
         new="half = size / 2\n    window_region = [region[0] + half, region[1] - half, region[2] + half, region[3] - half]"),
]
