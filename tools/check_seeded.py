"""Re-run every filed seeded change (seeded/<id>/patch.diff) against the current checks: apply to /repo, run all quick checks, undo.
Prints one line per change (which properties report VIOLATION / UNDECIDED) and fails if a change is no longer reported with a
VIOLATION line by any check.  With --composed the patched tree is first rewritten by all behaviour-preserving transformations of tools/neutral_sweep.py at once
(the report must survive the rewrite).  Usage: /venv/bin/python tools/check_seeded.py [--update-meta] [--table] [--composed] [--only NAME,NAME*,...]"""
import json
import pathlib
import subprocess
import sys

VERIF = pathlib.Path(__file__).resolve().parent.parent
sys.path.insert(0, str(VERIF))


def main():
    from vstat import report
    st = subprocess.run(["git", "-C", "/repo", "status", "--porcelain"], capture_output=True, text=True).stdout.strip()
    if st:
        print("refusing: /repo has uncommitted changes")
        return 3
    bad = 0
    rows = []
    only = None
    if "--only" in sys.argv:          # --only C01-10,C18-9,...  (names or name prefixes)
        only = tuple(sys.argv[sys.argv.index("--only") + 1].split(","))
    for d in sorted((VERIF / "seeded").iterdir()):
        patch = d / "patch.diff"
        if not patch.exists():
            continue
        if only is not None and not any(d.name == o or (o.endswith("*") and d.name.startswith(o[:-1])) for o in only):
            continue
        r = subprocess.run(["git", "-C", "/repo", "apply", str(patch)], capture_output=True, text=True)
        if r.returncode:
            print(d.name, "patch does not apply:", r.stderr.strip()[:200])
            bad += 1
            continue
        res = {}
        try:
            overlay = None
            if "--composed" in sys.argv:      # the patched tree, additionally rewritten by every behaviour-preserving transformation at once
                sys.path.insert(0, str(VERIF / "tools"))
                import neutral_sweep
                overlay = neutral_sweep.transformed("composed")
            for i in range(1, 21):
                pid = "C%02d" % i
                code, ctx, lines = report.run_property(pid, "quick", write=False, quiet=True, overlay=overlay)
                if code:
                    first = [ln.strip() for ln in lines if ln.startswith("  C")][:3] if code == 1 else [ln.strip() for ln in lines if ln.startswith("ANALYSIS")][:3]
                    res[pid] = {"exit": code, "violation": code == 1, "first_reports": first}
        finally:
            subprocess.run(["git", "-C", "/repo", "checkout", "--", "."], check=True)
        viol = sorted(p for p, v in res.items() if v["exit"] == 1)
        und = sorted(p for p, v in res.items() if v["exit"] == 2)
        own = d.name.split("-")[0]
        print("%-7s VIOLATION by %-18s undecided in %-12s %s" % (d.name, ",".join(viol) or "-", ",".join(und) or "-", "" if own in viol else ("(own property: %s)" % ("undecided" if own in und else "silent"))))
        mp0 = d / "meta.json"
        m0 = json.load(open(mp0)) if mp0.exists() else {}
        # a change whose defect lives in run-time values (round-off, ties, library internals) has no positive static contradiction: for those,
        # meta.json records static_verdict = "undecided" with the reason, and the requirement is that the owning property does NOT stay silent
        if not viol and not (m0.get("static_verdict") == "undecided" and own in und):
            bad += 1
        mp = d / "meta.json"
        m = json.load(open(mp)) if mp.exists() else {}
        rules = sorted({ln.split(" at ")[0] for v in res.values() if v["exit"] == 1 for ln in v["first_reports"]})
        rows.append((d.name, m.get("summary", ""), m.get("needs", ""), rules, und))
        if "--update-meta" in sys.argv:
            m["checks"] = res
            mp.write_text(json.dumps(m, indent=1))
    if "--table" in sys.argv:
        for name, summ, needs, rules, und in rows:
            print("| %s | %s | %s | %s |" % (name, summ.replace("|", "/")[:200], needs.replace("|", "/")[:140], ", ".join(rules)))
    print("seeded changes not reported:", bad)
    return 1 if bad else 0


if __name__ == "__main__":
    sys.exit(main())
