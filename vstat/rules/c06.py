"""C06 - Chain, Vector and filter compose estimators without leaking or losing data (DESIGN §4 C06)."""
from .. import q as Q
from ..paths import lookup
from ..terms import callee, canon, const, is_const, is_int, kw, show, walk, NONE
from . import common as K

EXPLANATION = ("loop-carried dataflow (prev/mu terms) of the tuple threaded through Chain.fit, guard/accumulation structure of Chain.predict, "
               "zip alignment of components/data/weights in Vector, residual form and identity of returned coordinates/weights in filter, return arity of the block filters")
RULES = {
    "R1": "Chain.fit: step.filter(*args) receives the loop-carried tuple whose initial value is (coordinates, data, weights) and whose next value is the previous filter's result",
    "R2": "Chain.predict iterates all steps, predicts only where hasattr(step, 'predict'), accumulates with += per component from 0",
    "R3": "Vector.fit: (estimator, data_comp, weight_comp) are elements of (self.components, validated data, validated weights) in one zip; Vector.predict maps predict over the components in order",
    "R4": "BaseGridder.filter: fit(coordinates, data, weights); returns (coordinates, residuals, weights) with the first and last identical to the parameters and r_i = data_i - pred_i.reshape(data_i.shape)",
    "R5": "BlockReduce.filter returns (coordinates, data), BlockMean.filter (coordinates, data, weights), so *args threading lines up",
    "R6": "Chain.fit / Vector.fit set region_ from the first two coordinates",
}
ASSUMPTIONS = ["'prediction + last residual = data' as a numeric identity is declined; its structural ingredients are R1, R2, R4"]
CF, CP = "verde.chain.Chain.fit", "verde.chain.Chain.predict"
VF, VP = "verde.vector.Vector.fit", "verde.vector.Vector.predict"
FL = "verde.base.base_classes.BaseGridder.filter"
TRIPLE = ("tuple", (("param", "coordinates"), ("param", "data"), ("param", "weights")))


def by_name(ctx, it):
    """the iterable is derived from self.named_steps, and that property is a dict keyed by the step names (duplicates collapse)"""
    if not any(x == Q.self_attr("named_steps") for x in walk(it)):
        return False
    f = ctx.pkg.find_method("verde.chain.Chain", "named_steps")
    if f is None:
        return False
    rets = [p.value for p in ctx.paths(f.qual) if p.exit == "return"]
    return bool(rets) and all(v[0] == "dict" or (v[0] == "call" and callee(v) == "builtins.dict") or v[0] == "comp" for v in rets)


def r1_threading(ctx):
    qn = CF
    n = 0
    for p in ctx.paths(qn):
        if not p.normal:
            continue
        fl = [e for e in p.events if e.kind == "call" and callee(e.data[0]) == ".filter"]
        if len(fl) != 1:
            ctx.add("R1", qn + "|one-filter-call", "UNDECIDED", "expected one step.filter call in the loop", fn=qn)
            continue
        n += 1
        c = fl[0].data[0]
        recv = c[1][1]
        loops = [e for e in p.events if e.kind == "loop-enter"]
        it = loops[0].data[1] if loops else None
        ctx.check("R1", qn + "|iterates-all-steps", True if it == Q.self_attr("steps") else (False if it is not None and ((it[0] == "sub" and it[1] == Q.self_attr("steps")) or by_name(ctx, it)) else None),
                  "the loop runs over all of self.steps", bad="the loop runs over %s%s" % (show(it) if it else None, ": steps that share a name collapse to one" if it is not None and by_name(ctx, it) else ""), fn=qn)
        ctx.check("R1", qn + "|filter-on-the-step", True if recv[0] == "sub" and recv[1][0] == "elem" and recv[1][1] == it and recv[2] == const(1) else None, "filter is called on the step object (name, step)[1]", fn=qn)
        a = c[2]
        ok, why = None, ""
        if len(a) == 1 and a[0][0] == "star" and a[0][1][0] == "prev":
            pv = a[0][1]
            ok = True if pv[3] == TRIPLE else (False if pv[3][0] == "tuple" and set(pv[3][1]) == set(TRIPLE[1]) else None)
            why = "the threaded tuple starts as %s" % show(pv[3])
        elif len(a) == 3 and tuple(a) == TRIPLE[1]:
            ok, why = False, "every step filters the original (coordinates, data, weights): residuals are not passed on"
        elif a and all(x[0] == "param" for x in a):
            ok, why = False, "filter receives %s" % show(("tuple", a))
        explicit = len(a) == 3 and all(x[0] == "prev" for x in a)
        if explicit:
            # the same threading written with three separately carried variables
            inits = tuple(x[3] for x in a)
            ok = True if inits == TRIPLE[1] else (False if set(inits) == set(TRIPLE[1]) else None)
            why = "the carried variables start as %s" % show(("tuple", inits))
        ctx.check("R1", qn + "|threads-previous-result", ok, "filter receives the loop-carried tuple, initially (coordinates, data, weights)", bad=why, fn=qn)
        # the carried variable's next value is this call's result
        nxt = [v for k, v in p.env.items() if isinstance(v, tuple) and v and v[0] == "mu" and v[4] == c]
        okn, whyn = True if nxt else (False if len(a) == 1 and a[0][0] == "star" and a[0][1][0] == "prev" and not nxt else None), "the filter result is discarded"
        if explicit:
            okn = True
            for k, x in enumerate(a):
                mu = [v for v in p.env.values() if isinstance(v, tuple) and v and v[0] == "mu" and v[2] == x[2] and v[1] == x[1]]
                nv = mu[0][4] if mu else None
                if nv == Q.sub(c, k):
                    continue
                if nv is None:
                    okn, whyn = False, "%s is not updated from the filter result: every step sees the original %s" % (x[2], x[2])
                    break
                if k == 2 and nv == NONE:
                    # a filter that returns no weights (BlockReduce) ends the weights - but only when it really returned two values
                    short = lookup(p.decided, ("cmp", ">", ("call", ("glob", "builtins.len"), (c,), (), 0), const(2))) is False \
                        or lookup(p.decided, ("cmp", "==", ("call", ("glob", "builtins.len"), (c,), (), 0), const(2))) is True
                    if not short:
                        okn, whyn = False, ("the weights returned by a step are replaced by None on a path that does not establish that the step returned only "
                                            "(coordinates, data): weights produced by a step (BlockMean uncertainty) are lost when fit was given none")
                        break
                    continue
                if k == 2 and nv[0] == "ifexp" and nv[1] == ("cmp", ">", ("call", ("glob", "builtins.len"), (c,), (), 0), const(2)) and nv[2] == Q.sub(c, 2) and nv[3] == NONE:
                    continue
                if nv[0] == "sub" and nv[1] == c and is_const(nv[2]):
                    okn, whyn = False, "%s is updated from element %s of the filter result instead of element %d" % (x[2], show(nv[2]), k)
                    break
                if okn is True:
                    okn = None
        ctx.check("R1", qn + "|next-is-filter-result", okn, "the tuple carried to the next step is this step's filter result", bad=whyn, fn=qn)
    if not n:
        ctx.add("R1", qn + "|paths", "UNDECIDED", "no normal path with a filter call", fn=qn)
    for p in ctx.paths(qn):
        if not p.normal:
            continue
        regs = [e.data[2] for e in p.events if e.kind == "setattr" and e.data[1] == "region_" and e.data[0] == Q.SELF]
        ok, why = None, ""
        if not regs:
            ok, why = False, "Chain.fit does not set region_"
        else:
            r = regs[-1]
            if r[0] == "call" and callee(r) == "verde.coordinates.get_region" and r[2]:
                a = r[2][0]
                if a == ("sub", ("param", "coordinates"), ("slice", NONE, const(2), NONE)) or a == ("param", "coordinates"):
                    ok = True
                elif any(x[0] in ("mu", "prev") or (x[0] == "call" and callee(x) == ".filter") for x in walk(a)):
                    ok, why = False, "region_ is the bounding box of what the last step's filter returned (e.g. block-reduced coordinates), not of the data given to fit"
        ctx.check("R6", qn + "|region_", ok, "region_ = get_region(coordinates[:2]) of the coordinates given to fit", bad=why, fn=qn)


def r2_sum(ctx):
    qn = CP
    n = 0
    for p in ctx.paths(qn):
        if p.exit != "return":
            continue
        pr = [(i, e) for i, e in enumerate(p.events) if e.kind == "call" and callee(e.data[0]) == ".predict"]
        if not pr:
            continue
        n += 1
        tag = Q.tags(p.conds)
        loops = [e for e in p.events if e.kind == "loop-enter"]
        it = loops[0].data[1] if loops else None
        ctx.check("R2", qn + "|iterates-all-steps", True if it == Q.self_attr("steps") else (False if it is not None and (it[0] == "sub" or by_name(ctx, it)) else None), "the loop runs over all of self.steps",
                  bad="the loop runs over %s: %s" % (show(it) if it else None, "steps that share a name collapse to one (named_steps is a dict keyed by name)" if it is not None and by_name(ctx, it) else "some steps do not contribute"), fn=qn)
        i0, e0 = pr[0]
        step = e0.data[0][1][1]
        guard = [(i, e) for i, e in enumerate(p.events) if e.kind == "cond" and e.data[0][0] == "call" and callee(e.data[0]) == "builtins.hasattr" and e.data[0][2] == (step, const("predict")) and e.data[1] is True]
        okg = True if guard and guard[0][0] < i0 else False
        if not okg:
            # the same guard written as the filter of a comprehension over the steps: (s.predict(c) for _, s in self.steps if hasattr(s, "predict"))
            is_guard = lambda c: c[0] == "call" and callee(c) == "builtins.hasattr" and c[2] == (step, const("predict"))
            for e in p.events:
                for x in walk(e.data):
                    if isinstance(x, tuple) and x and x[0] == "comp" and any(is_guard(c) for c in x[5]) and any(y == e0.data[0] for y in walk(x[2])):
                        okg = True
            if not okg and any(isinstance(x, tuple) and x and x[0] == "call" and callee(x) in ("builtins.hasattr", "builtins.getattr", "builtins.callable") for e in p.events for x in walk(e.data)):
                okg = None            # some other test of what the step offers: not decided here
        ctx.check("R2", qn + "|guarded-by-hasattr", okg, "predict is called only on steps that have it",
                  bad="predict is called without the hasattr(step, 'predict') guard (block reductions would raise)", fn=qn)
        ctx.check("R2", qn + "|predict-on-coordinates", True if e0.data[0][2] == (("param", "coordinates"),) else None, "each step predicts at the given coordinates", fn=qn)
        augs = [e for e in p.events if e.kind == "aug"]
        ok = None
        if len(augs) == 1:
            tgt, op, val = augs[0].data[0], augs[0].data[1], augs[0].data[2]
            pred_el = val[0] == "elem" and Q.unwrap(val[1]) == e0.data[0]
            same_idx = tgt[0] == "sub" and tgt[2] == ("idx", val[2]) if pred_el else False
            ok = True if op == "+" and pred_el and same_idx else (False if op != "+" else None)
        elif not augs:
            # no in-place accumulation on this path: a violation only if the result does not depend on the predictions at all
            ok = None if any(x == e0.data[0] for x in walk(p.value)) or any(isinstance(x, tuple) and x and x[0] in ("mu", "prev") for x in walk(p.value)) else False
        ctx.check("R2", qn + "|accumulates-per-component", ok, "result[i] += pred_i for every component of every predicting step", bad="predictions are not summed (operator %s)" % (augs[0].data[1] + "=" if augs else "missing"), fn=qn)
        first_time = any(c[0] == "cmp" and c[1] == "is" and c[2][0] == "prev" and c[3] == NONE and v for c, v in p.conds)
        if first_time and augs:
            base = augs[0].data[0][1] if augs[0].data[0][0] == "sub" else augs[0].data[0]
            ok0 = True if base[0] == "comp" and base[2] == const(0) else (False if base[0] == "comp" and is_const(base[2]) else None)
            ctx.check("R2", qn + "|starts-from-zero", ok0, "the accumulator starts as one 0 per component of the first prediction", bad="the accumulator does not start from 0", fn=qn)
        elif augs:
            base = augs[0].data[0][1] if augs[0].data[0][0] == "sub" else augs[0].data[0]
            ctx.check("R2", qn + "|later-steps-add-to-the-running-sum", True if base[0] == "prev" else (False if base[0] == "comp" else None),
                      "later steps add to the running sum", bad="the sum is reset for every step", fn=qn)
    if not n:
        ctx.add("R2", qn + "|paths", "UNDECIDED", "no return path with a predict call", fn=qn)


def r3_vector(ctx):
    qn = VF
    cfi = None
    for p in ctx.paths(qn):
        if p.exit != "return":
            continue
        cands = [e.data[0] for e in p.events if e.kind == "call" and callee(e.data[0]) == "verde.base.utils.check_fit_input"]
        if not cands:
            ctx.add("R3", qn + "|validated-input", "VIOLATED", "Vector.fit does not validate its input with check_fit_input", fn=qn)
            continue
        cfi = cands[0]
        okv = cfi[2][:3] == (("param", "coordinates"), ("param", "data"), ("param", "weights"))
        up = Q.arg(ctx, cfi, "unpack")
        # zip(self.components, data, weights) needs tuples for ANY number of components: with unpack=True a single component is unpacked
        ctx.check("R3", qn + "|tuples-for-any-component-count", True if okv and up == const(False) else (False if up in (None, const(True)) else None),
                  "check_fit_input(..., unpack=False): data and weights stay tuples, so the zip pairs component i with data[i], weights[i] for 1..n components",
                  bad="check_fit_input unpacks one-element tuples (unpack=True): a single-component Vector zips its component with the elements of the data array / with None", fn=qn)
        fits = [e.data[0] for e in p.events if e.kind == "call" and callee(e.data[0]) == ".fit"]
        loops = [e for e in p.events if e.kind == "loop-enter"]
        if len(fits) != 1 or len(loops) != 1:
            ctx.add("R3", qn + "|one-fit-in-one-loop", "UNDECIDED", "expected one component fit inside one loop", fn=qn)
            continue
        it, lid = loops[0].data[1], loops[0].data[0]
        want_it = ("call", ("glob", "builtins.zip"), (Q.self_attr("components"), Q.sub(cfi, 1), Q.sub(cfi, 2)), (), 0)
        ok = True if canon(it) == canon(want_it) else (False if it[0] == "call" and callee(it) == "builtins.zip" and len(it[2]) == 3 and {canon(x) for x in it[2]} != {canon(x) for x in want_it[2]} else None)
        ctx.check("R3", qn + "|zip-components-data-weights", ok, "the loop zips (self.components, validated data, validated weights), unreordered",
                  bad="the loop iterates %s" % show(it)[:120], fn=qn)
        c = fits[0]
        recv = c[1][1]
        a = c[2]
        want = (Q.sub(cfi, 0), ("elem", Q.sub(cfi, 1), lid), ("elem", Q.sub(cfi, 2), lid))
        okr = recv == ("elem", Q.self_attr("components"), lid)
        fixed = lambda t, base: t[0] == "sub" and t[1] == base and is_const(t[2])       # noqa: E731  data[0] / weights[0] inside the loop: one element for every component
        oka = True if tuple(a) == want and okr else (False if len(a) == 3 and (a[1] == want[2] or a[2] == want[1] or a[2] == Q.sub(cfi, 2) or a[1] == Q.sub(cfi, 1)
                                                                           or fixed(a[1], Q.sub(cfi, 1)) or fixed(a[2], Q.sub(cfi, 2))) else None)
        ctx.check("R3", qn + "|component-fit-arguments", oka, "component i is fitted with (coordinates, data[i], weights[i])",
                  bad="component fit receives %s" % show(("tuple", a))[:140], fn=qn)
        okreg = any(e.kind == "setattr" and e.data[1] == "region_" and e.data[2][0] == "call" and callee(e.data[2]) == "verde.coordinates.get_region" for e in p.events)
        ctx.check("R6", qn + "|region_", True if okreg else None, "region_ = get_region(validated coordinates[:2])", fn=qn)
    for nm, par in (("data-must-be-tuple", "data"), ("weights-must-be-tuple", "weights")):
        ok = any(p.exit == "raise" and p.conds and any(x[0] == "call" and callee(x) == "builtins.isinstance" and x[2] and x[2][0] == ("param", par) for x in walk(p.conds[-1][0])) for p in ctx.paths(qn))
        ctx.check("R3", "%s|raises|%s" % (qn, nm), True if ok else False, "%s that is not a tuple raises" % par, bad="non-tuple %s is accepted" % par, fn=qn)
    qn = VP
    for p in ctx.paths(qn):
        if p.exit != "return":
            continue
        v = Q.unseq(p.value)
        ok = None
        if v[0] == "comp":
            ok = True if v[3] == Q.self_attr("components") and v[2][0] == "call" and v[2][1] == ("attr", ("elem", v[3], v[4]), "predict") and v[2][2] == (("param", "coordinates"),) else \
                (False if v[3][0] == "sub" or (v[3][0] == "call" and callee(v[3]) == "builtins.reversed") else None)
        ctx.check("R3", qn + "|maps-predict-over-components", ok, "the prediction tuple is (comp.predict(coordinates) for comp in self.components), in order",
                  bad="components are predicted in a different order / subset", fn=qn)


def r4_filter(ctx):
    qn = FL
    n = 0
    for p in ctx.paths(qn):
        if p.exit != "return":
            continue
        n += 1
        single = Q.eq_truth(p, lambda c: c[3] == const(1) and c[2][0] == "call" and callee(c[2]) == "builtins.len", last=True) is True
        tag = "single" if single else "multi"
        fits = [e.data[0] for e in p.events if e.kind == "call" and e.data[0][1] == ("attr", Q.SELF, "fit")]
        okf = len(fits) == 1 and tuple(fits[0][2]) + tuple(v for _k, v in fits[0][3]) == TRIPLE[1]
        passed = (tuple(fits[0][2]) + tuple(v for _k, v in fits[0][3])) if fits else ()
        ctx.check("R4", "%s|fits-on-the-arguments|%s" % (qn, tag), True if okf else (False if fits and all(x in TRIPLE[1] or is_const(x) for x in passed) else None),
                  "self.fit(coordinates, data, weights)", bad="fit receives %s" % (show(("tuple", fits[0][2])) if fits else None), fn=qn)
        v = p.value
        if v[0] != "tuple" or len(v[1]) != 3:
            ctx.add("R4", "%s|returns-three|%s" % (qn, tag), "VIOLATED" if v[0] == "tuple" else "UNDECIDED", "filter returns %s instead of (coordinates, residuals, weights)" % show(v)[:60], fn=qn)
            continue
        ctx.check("R4", "%s|returns-given-coordinates|%s" % (qn, tag), True if v[1][0] == ("param", "coordinates") else False, "the coordinates are returned as given",
                  bad="filter returns %s as coordinates" % show(v[1][0])[:60], fn=qn)
        ctx.check("R4", "%s|returns-given-weights|%s" % (qn, tag), True if v[1][2] == ("param", "weights") else False, "the weights are returned as given",
                  bad="filter returns %s as weights" % show(v[1][2])[:60], fn=qn)
        r = Q.unseq(v[1][1])
        if r[0] == "sub" and r[2] == const(0):
            r = Q.unseq(r[1])
        ok, why = None, ""
        # the residuals must keep what the subtraction produced: a conversion to the data's dtype (or a fixed small dtype)
        # truncates the fractional residuals of integer data, and the next step then fits the wrong numbers
        casts = Q.narrowing_casts(r)
        lossy = [c for c, k in casts if k in ("narrowing", "integer")]
        ctx.check("R4", "%s|residuals-not-narrowed|%s" % (qn, tag), False if lossy else (None if casts else True), "the residuals are returned in the dtype the subtraction produced",
                  bad="the residuals are converted with %s: for integer (or lower-precision) data they are truncated, so data != prediction + residual" % (show(lossy[0])[:90] if lossy else ""),
                  fn=qn, undecided="conversion of the residuals cannot be classified")
        if r[0] == "comp" and Q.cast_of(r[2]) is not None:
            r = (r[0], r[1], Q.cast_of(r[2])[0]) + tuple(r[3:])
        if r[0] == "comp":
            # algebra decides the form: with d = the data element and q = the prediction element of the same zip step (reshaped or not),
            # the residual must be the polynomial d - q (written as d - q, d + -1*q, np.subtract(d, q), -(q - d), ...)
            from ..nf import Builder, Space, Undecided as NfUndecided
            sp = Space()
            elt = r[2]
            dsym, qsym = sp.sym("d"), sp.sym("q")
            env, steps, shapes = {}, set(), []
            for x in walk(elt):
                if isinstance(x, tuple) and x and x[0] == "elem":
                    if Q.unwrap(x[1]) == ("param", "data"):
                        env[x] = dsym
                        steps.add(("d", x[2]))
                    elif any(y[0] == "call" and y[1] == ("attr", Q.SELF, "predict") for y in walk(x[1]) if isinstance(y, tuple) and y):
                        env[x] = qsym
                        steps.add(("q", x[2]))
            for x in walk(elt):
                if isinstance(x, tuple) and x and x[0] == "call" and Q.reshape_of(x) is not None and Q.reshape_of(x)[0] in env and env[Q.reshape_of(x)[0]] is qsym:
                    shapes.append(Q.reshape_of(x)[1])
            try:
                got = Builder(sp).nf(elt, env)
                if got == dsym - qsym:
                    instep = len({i for _k, i in steps}) == 1
                    data_el = [x for x, v_ in env.items() if v_ is dsym]
                    shape_ok = bool(shapes) and all(sh[0] == "attr" and sh[2] == "shape" and sh[1] in data_el for sh in shapes)
                    ok, why = (True, "") if instep and shape_ok else (None, "prediction is not reshaped to the data's shape" if instep else "data and prediction come from different zip steps")
                elif got == qsym - dsym:
                    ok, why = False, "residuals are prediction - data (sign flipped)"
                elif got.atoms_used() <= (dsym.atoms_used() | qsym.atoms_used()):
                    ok, why = False, "residuals are %r with d = data, q = prediction (documented d - q)" % got
            except NfUndecided:
                pass
        ctx.check("R4", "%s|residual-form|%s" % (qn, tag), ok, "residual_i = data_i - pred_i.reshape(data_i.shape), data and prediction zipped in step", bad=why, fn=qn, undecided=why or "residual form not recognised")
        pc = [e.data[0] for e in p.events if e.kind == "call" and e.data[0][1] == ("attr", Q.SELF, "predict")]
        ctx.check("R4", "%s|predict-at-data-coordinates|%s" % (qn, tag), True if pc and pc[0][2] == (("param", "coordinates"),) else None, "the prediction is evaluated at the data coordinates", fn=qn)
        if fits and pc:
            i_f = [i for i, e in enumerate(p.events) if e.kind == "call" and e.data[0] == fits[0]][0]
            i_p = [i for i, e in enumerate(p.events) if e.kind == "call" and e.data[0] == pc[0]][0]
            ctx.check("R4", "%s|fit-before-predict|%s" % (qn, tag), True if i_f < i_p else False, "fit precedes predict", bad="predict runs before fit", fn=qn)
    if n < 2:
        ctx.add("R4", qn + "|paths", "UNDECIDED", "expected single- and multi-component return paths", fn=qn)


def r4_overrides(ctx):
    """sibling agreement: a gridder that overrides filter() keeps BaseGridder.filter's contract - the coordinates and the weights come back
    as they were given (a Chain step that hands reduced coordinates on is a block reduction, not a gridder)"""
    base = "verde.base.base_classes.BaseGridder"
    for cq in sorted(ctx.pkg.subclasses(base)):
        f = ctx.pkg.classes[cq].methods.get("filter")
        if f is None:
            continue
        for p in ctx.paths(f.qual):
            if p.exit != "return":
                continue
            v = Q.unseq(p.value) if p.value[0] not in ("tuple",) else p.value
            tag = Q.tags(p.conds) or "-"
            if v[0] != "tuple" or len(v[1]) != 3:
                ctx.add("R4", "%s|returns-three|%s" % (f.qual, tag), "VIOLATED" if v[0] in ("prev", "mu") or (v[0] == "tuple") else "UNDECIDED",
                        "%s.filter returns %s instead of (the given coordinates, residuals, the given weights): inside an outer Chain the next step is fitted on whatever the last inner step handed on" % (cq.rsplit(".", 1)[1], show(v)[:50]), fn=f.qual)
                continue
            ctx.check("R4", "%s|returns-given-coordinates|%s" % (f.qual, tag), True if v[1][0] == ("param", "coordinates") else False, "the coordinates are returned as given",
                      bad="filter returns %s as coordinates" % show(v[1][0])[:60], fn=f.qual)
            ctx.check("R4", "%s|returns-given-weights|%s" % (f.qual, tag), True if v[1][2] == ("param", "weights") else False, "the weights are returned as given",
                      bad="filter returns %s as weights" % show(v[1][2])[:60], fn=f.qual)


def r5_arity(ctx):
    for qn, n, names in (("verde.blockreduce.BlockReduce.filter", 2, "(coordinates, data)"), ("verde.blockreduce.BlockMean.filter", 3, "(coordinates, data, weights)")):
        ok = True
        for p in ctx.paths(qn):
            if p.exit != "return":
                continue
            v = p.value
            if v[0] != "tuple" or len(v[1]) != n:
                ok = False if v[0] == "tuple" else None
            elif not (v[1][0][0] == "call" and v[1][0][1] == ("attr", Q.SELF, "_block_coordinates")):
                ok = None if ok else ok
        ctx.check("R5", qn + "|return-arity", ok, "returns %d values %s with the block coordinates first" % (n, names), bad="returns a tuple of the wrong length: Chain's *args threading breaks", fn=qn)


def check(ctx):
    r1_threading(ctx)
    r2_sum(ctx)
    r3_vector(ctx)
    r4_filter(ctx)
    r4_overrides(ctx)
    r5_arity(ctx)
