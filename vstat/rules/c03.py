"""C03 - predictions evaluate the documented analytic models (DESIGN §4 C03)."""
import ast

from .. import q as Q
from .. import spec
from ..intervals import Bad, Unmodelled, iv
from ..nf import Builder, Space, Undecided, compare
from ..terms import callee, canon, const, is_const, is_int, kw, show, walk, NONE
from . import common as K

EXPLANATION = ("algebraic normal forms (engine F): every kernel path is normalised to a rational function over interned atoms and compared "
               "with the docstring formula transcribed in vstat/specsrc (parsed, never executed); interval definedness of each branch; "
               "structural checks of the predict/jacobian loops, block layout, monomial order, SciPy class table")
RULES = {
    "R1": "biharmonic kernel == r^2 (ln r - 1) with r = sqrt(e^2 + n^2) + mindist on every branch (numpy and jit twins)",
    "R2": "branch masks are complementary and cover; the branch containing r=0 is finite and the branch containing r<=1e8 does not overflow; "
          "the elastic kernel is finite under mindist > 0",
    "R3": "predict = J.p: accumulator starts at 0, loops over all forces, adds G(obs - force_j) * forces[j] with one index; jacobian fills G with observations along rows",
    "R4": "kernel arguments are coordinate differences obs - force with the same sign on both axes",
    "R5": "elastic kernels by position (g_ee, g_nn, g_ne) and 2x2 block layout in jacobian and predict",
    "R6": "monomial pairs range over the triangle, sorted by total degree with a stable sort (documented order)",
    "R7": "CheckerBoard.predict == amplitude sin(2 pi e / w_east_) cos(2 pi n / w_north_); default wavelengths are half the region",
    "R8": "Linear/Cubic/ScipyGridder select the documented SciPy classes with the rescale flag; fit builds cls(points, values, **kwargs)",
}
ASSUMPTIONS = ["SciPy's interpolators and numpy ufuncs compute what their documentation says", "distances are non-negative (log(a**b) = b log a on the small-r branch)"]


def synonyms(ctx, qn, specname):
    f = ctx.pkg.fn(qn)
    return dict(zip(f.params, spec.params(specname)))


def spec_nf(b, specname, k=None):
    ps = [p for p in spec.paths(specname) if p.exit == "return"]
    v = ps[0].value
    if k is not None:
        v = v[1][k]
    return b.nf(v)


def cmp_formula(ctx, rule, key, got_term, want_nf, b, fn, what, masks=()):
    try:
        got = Builder(b.sp, masks=masks, synonyms=b.synonyms).nf(got_term)
    except Undecided as e:
        ctx.add(rule, key, "UNDECIDED", "normal form not computable: %s" % e, fn=fn)
        return None
    r = compare(b.sp, got, want_nf)
    ctx.check(rule, key, r, what + " [normal forms equal]", bad="%s: computes %s, documented %s" % (what, repr(got)[:160], repr(want_nf)[:160]), fn=fn,
              undecided="normal forms differ and involve uninterpreted symbols: %s vs %s" % (repr(got)[:120], repr(want_nf)[:120]))
    return r


def branch_distance_agrees(operand, value):
    """The distance a branch is SELECTED on (the operand of the mask / test) against the distance the branch formula is EVALUATED on (the
    argument of its logarithm).  True: the same term; False: the formula's distance is the tested one plus something (the mindist shift
    applied after the mask was taken) or the other way round - elements between the two thresholds get the formula of the wrong branch;
    None: anything else."""
    logs = [x[2][0] for x in walk(value) if isinstance(x, tuple) and x and x[0] == "call" and callee(x) in ("numpy.log", "math.log") and x[2]]
    if not logs:
        return None
    verdict = True
    for a in logs:
        def core(x):
            x = Q.unwrap(x)
            while True:
                if x[0] == "binop" and x[1] == "**":       # log(r**2), log(r**r): the base carries the distance
                    x = Q.unwrap(x[2])
                elif x[0] == "sub" and not is_const(x[2]):  # distance[mask]
                    x = Q.unwrap(x[1])
                else:
                    return x
        a = core(a)
        o = core(operand)
        if a == o:
            continue
        def shifted(x, y):
            return x[0] == "binop" and x[1] in ("+", "-") and (x[2] == y or x[3] == y) and not is_const(x[3] if x[2] == y else x[2])
        if shifted(a, o) or shifted(o, a):
            return False
        verdict = None
    return verdict


def r1_r2_biharmonic(ctx):
    # ---- numpy kernel: masked piecewise stores into the returned buffer
    qn = "verde.spline.greens_func_numpy"
    b = Builder(Space(), synonyms=synonyms(ctx, qn, "kernels.biharmonic"))
    want = spec_nf(b, "kernels.biharmonic")
    for p in ctx.paths(qn):
        if p.exit != "return":
            continue
        ret = p.value
        stores = [e for e in p.events if e.kind == "store" and e.data[0] == ret]
        masks = tuple(e.data[1] for e in stores)
        fresh = ret[0] == "call" and callee(ret) in ("numpy.empty_like", "numpy.zeros_like", "numpy.empty", "numpy.zeros")
        ctx.check("R2", qn + "|result-buffer-fresh", True if fresh else None, "the result is a freshly allocated buffer", fn=qn)
        NEGOP = {"<": ">=", "<=": ">", ">": "<=", ">=": "<"}

        def mask_test(m):
            """(operand, op, threshold) of a mask that is (the complement of) a comparison with a constant"""
            neg = False
            while m[0] == "unop" and m[1] in ("~", "not"):
                m, neg = m[2], not neg
            if m[0] == "cmp" and m[1] in NEGOP and is_const(m[3]) and isinstance(m[3][1], (int, float)):
                return m[2], (NEGOP[m[1]] if neg else m[1]), float(m[3][1])
            return None
        tests = [mask_test(m) for m in masks]
        comp_ok, gap = None, None
        if len(masks) == 2 and (masks[1] == ("unop", "~", masks[0]) or masks[0] == ("unop", "~", masks[1])):
            comp_ok = True
        elif len(masks) == 2 and masks[0] == masks[1]:
            comp_ok, gap = False, "both stores use the same mask: the other elements stay uninitialised"
        elif len(masks) == 2 and all(tests) and tests[0][0] == tests[1][0] and tests[0][2] == tests[1][2]:
            o1, o2 = tests[0][1], tests[1][1]
            if o2 == NEGOP[o1]:
                comp_ok = True
            elif {o1, o2} == {"<", ">"}:
                comp_ok, gap = False, "the masks are r < %g and r > %g: an element at distance exactly %g is written by neither store and keeps the buffer's initial value" % (tests[0][2], tests[0][2], tests[0][2])
        ctx.check("R2", qn + "|masks-complementary", comp_ok,
                  "the two stores use a mask and its complement, so every element is written exactly once", bad=gap or "", fn=qn)
        if len(stores) != 2:
            ctx.add("R1", qn + "|branches", "UNDECIDED", "expected two masked stores, found %d" % len(stores), fn=qn)
            continue
        for e, t in zip(stores, tests):
            m = e.data[1]
            tag = ("low" if t[1] in ("<", "<=") else "high") if t is not None else ("mask" if m[0] == "cmp" else "complement")
            cmp_formula(ctx, "R1", "%s|branch|%s" % (qn, tag), e.data[2], want, b, qn, "branch value equals r^2 (ln r - 1)", masks=masks)
            # definedness on the part of [0, 1e8] the branch covers (each store judged on its OWN mask)
            if t is not None:
                operand, op_, thr = t
                covers_low = op_ in ("<", "<=")
                I = (0.0, thr) if covers_low else (thr, 1e8)
                try:
                    lo, hi = iv(e.data[2], operand, I, masks)
                    ok, why = (abs(lo) < 1e300 and abs(hi) < 1e300), "range [%.3g, %.3g]" % (lo, hi)
                except Bad as ex:
                    ok, why = False, str(ex)
                except Unmodelled as ex:
                    ok, why = None, "no interval model for " + str(ex)
                ctx.check("R2", "%s|defined|%s" % (qn, "r in [0,%g]" % thr if covers_low else "r in [%g,1e8]" % thr), ok,
                          "the branch is finite on its part of the distance range (%s)" % why,
                          bad="the branch covering %s is not finite there: %s" % ("r = 0" if covers_low else "large r", why), fn=qn, line=e.line)
            else:
                ctx.add("R2", "%s|defined|%s" % (qn, tag), "UNDECIDED", "branch mask is not a comparison of the distance with a constant", fn=qn)
            if t is not None:
                ctx.check("R2", "%s|selected-and-evaluated-on-one-distance|%s" % (qn, tag), branch_distance_agrees(t[0], e.data[2]),
                          "the mask is taken on the same (shifted) distance the branch formula uses",
                          bad="the mask is taken on another distance than the formula is evaluated on (the mindist shift lies between them): elements between the two thresholds get the wrong branch", fn=qn, line=e.line)
    # ---- jit kernel: if/else
    qn = "verde.spline.greens_func_jit"
    b = Builder(Space(), synonyms=synonyms(ctx, qn, "kernels.biharmonic"))
    want = spec_nf(b, "kernels.biharmonic")
    for p in ctx.paths(qn):
        if p.exit != "return":
            continue
        c, v = p.conds[-1] if p.conds else (None, None)
        tag = "cond-%s" % v
        cmp_formula(ctx, "R1", "%s|branch|%s" % (qn, tag), p.value, want, b, qn, "branch value equals r^2 (ln r - 1)")
        if c is not None and c[0] == "cmp" and c[1] in ("<", "<=", ">", ">=") and is_const(c[3]):
            thr = float(c[3][1])
            below = c[1] in ("<", "<=")
            covers_low = below if v else not below
            I = (0.0, thr) if covers_low else (thr, 1e8)
            try:
                lo, hi = iv(p.value, c[2], I, ())
                ok, why = True, "range [%.3g, %.3g]" % (lo, hi)
            except Bad as ex:
                ok, why = False, str(ex)
            except Unmodelled as ex:
                ok, why = None, "no interval model for " + str(ex)
            ctx.check("R2", "%s|defined|%s" % (qn, "low" if covers_low else "high"), ok, "the branch is finite on its part of the distance range (%s)" % why,
                      bad="the branch covering %s is not finite there: %s" % ("r = 0" if covers_low else "large r", why), fn=qn)
            ctx.check("R2", "%s|selected-and-evaluated-on-one-distance|%s" % (qn, "low" if covers_low else "high"), branch_distance_agrees(c[2], p.value),
                      "the test is made on the same (shifted) distance the branch formula uses",
                      bad="the branch is selected on another distance than the formula is evaluated on (the mindist shift lies between them)", fn=qn)


def g_call(t, names):
    return t[0] == "call" and callee(t) in names


def diff_sign(t, obs, force):
    """+1 if t == obs-ish - force-ish, -1 if force-ish - obs-ish, else None (obs/force are parameter names)"""
    if t[0] == "binop" and t[1] == "+" and {("param", obs), ("param", force)} <= Q.leaves(t):
        return 0        # a sum of observation and force coordinates is definitely not a difference
    if t[0] != "binop" or t[1] != "-":
        return None
    l, r = Q.leaves(t[2]), Q.leaves(t[3])
    if ("param", obs) in l and ("param", force) in r and ("param", force) not in l and ("param", obs) not in r:
        return 1
    if ("param", force) in l and ("param", obs) in r and ("param", obs) not in l and ("param", force) not in r:
        return -1
    return None


def r3_r4_structure(ctx):
    specs = [
        ("verde.spline.predict_numpy", "verde.spline.greens_func_numpy", "result", 1),
        ("verde.spline.predict_numba", "verde.spline.greens_func_jit", "result", 1),
    ]
    for qn, G, acc, _n in specs:
        for p in ctx.paths(qn):
            if p.exit != "return":
                continue
            init = [e for e in p.events if e.kind == "store" and Q.leaves(e.data[0]) == {("param", acc)}]
            ok0 = bool(init) and all(e.data[2] == const(0) for e in init)
            ctx.check("R3", qn + "|accumulator-starts-at-zero", True if ok0 else (False if init else False),
                      "the accumulator is initialised to 0", bad="the accumulator is not initialised to 0 (%s)" % ([show(e.data[2]) for e in init] or "no initial store"), fn=qn)
            loops = [e for e in p.events if e.kind == "loop-enter"]
            floop = [e for e in loops if any(x == ("attr", ("param", "forces"), "size") for x in walk(e.data[1]))]
            okl = len(floop) == 1 and floop[0].data[1][0] == "call" and callee(floop[0].data[1]) in ("builtins.range", "numba.prange") and floop[0].data[1][2] == (("attr", ("param", "forces"), "size"),)
            ctx.check("R3", qn + "|loops-over-all-forces", True if okl else (False if floop and floop[0].data[1][0] == "call" and len(floop[0].data[1][2]) != 1 else None),
                      "the force loop is range(forces.size): every force contributes", bad="the force loop is %s" % (show(floop[0].data[1]) if floop else None), fn=qn)
            augs = [e for e in p.events if e.kind == "aug" and ("param", acc) in Q.leaves(e.data[0])]
            if len(augs) != 1 or augs[0].data[1] != "+":
                ctx.check("R3", qn + "|accumulates-with-+=", False if augs and augs[0].data[1] != "+" else None, "", bad="the accumulation operator is %s=" % (augs[0].data[1] if augs else "?"), fn=qn)
                continue
            ctx.check("R3", qn + "|accumulates-with-+=", True, "contributions are added", fn=qn)
            val = augs[0].data[2]
            ok = None
            if val[0] == "binop" and val[1] == "*":
                g, fj = (val[2], val[3]) if g_call(val[2], {G}) else (val[3], val[2])
                if g_call(g, {G}) and fj[0] == "sub" and fj[1] == ("param", "forces"):
                    j = fj[2]
                    a0, a1 = g[2][0], g[2][1]
                    idx_ok = all(any(x[0] == "sub" and x[1] == ("param", nm) and x[2] == j for x in walk(a)) for a, nm in ((a0, "force_east"), (a1, "force_north")))
                    s0, s1 = diff_sign(a0, "east", "force_east"), diff_sign(a1, "north", "force_north")
                    ok = True if idx_ok and s0 is not None and s1 is not None else (False if not idx_ok else None)
                    ctx.check("R4", qn + "|difference-arguments", True if (s0 in (1, -1) and s0 == s1) else (False if s0 is not None and s1 is not None else None),
                              "kernel arguments are coordinate differences with the same sign on both axes (translation invariance)",
                              bad="the two kernel arguments use opposite signs or are not differences", fn=qn)
                    md = g[2][2] if len(g[2]) > 2 else None
                    ctx.check("R3", qn + "|mindist-forwarded", True if md == ("param", "mindist") else (False if md is not None and is_const(md) else None),
                              "mindist reaches the kernel", bad="the kernel receives mindist=%s" % (show(md) if md else None), fn=qn)
            ctx.check("R3", qn + "|term-is-G(obs-force_j)*forces[j]", ok, "each term is G(obs - force_j) * forces[j] with one index j in all three subscripts",
                      bad="force location and force value are indexed differently", fn=qn)
    # Jacobians
    qn = "verde.spline.jacobian_numpy"
    for p in ctx.paths(qn):
        if p.exit != "return":
            continue
        st = [e for e in p.events if e.kind == "store" and e.data[0] == ("param", "jac")]
        ok = None
        if len(st) == 1 and g_call(st[0].data[2], {"verde.spline.greens_func_numpy"}):
            g = st[0].data[2]
            a0, a1 = g[2][0], g[2][1]
            s0, s1 = diff_sign(a0, "east", "force_east"), diff_sign(a1, "north", "force_north")

            def rows(a, nm):
                return any(Q.reshape_of(x) is not None and Q.reshape_of(x)[0] == ("param", nm) and Q.reshape_of(x)[1][0] == "tuple" and len(Q.reshape_of(x)[1][1]) == 2 and Q.reshape_of(x)[1][1][1] == const(1)
                           for x in walk(a) if isinstance(x, tuple) and x and x[0] == "call")

            def cols_wrong(a, nm):
                return any(Q.reshape_of(x) is not None and ("param", nm) in Q.leaves(Q.reshape_of(x)[0]) for x in walk(a) if isinstance(x, tuple) and x and x[0] == "call")
            okrows = rows(a0, "east") and rows(a1, "north") and not cols_wrong(a0, "force_east") and not cols_wrong(a1, "force_north")
            ok = True if okrows and s0 is not None and s1 is not None else (False if cols_wrong(a0, "force_east") or cols_wrong(a1, "force_north") else None)
            ctx.check("R4", qn + "|difference-arguments", True if (s0 in (1, -1) and s0 == s1) else (False if s0 is not None and s1 is not None else None),
                      "kernel arguments are coordinate differences with the same sign on both axes", bad="opposite signs on the two axes", fn=qn)
            ctx.check("R3", qn + "|mindist-forwarded", True if len(g[2]) > 2 and g[2][2] == ("param", "mindist") else None, "mindist reaches the kernel", fn=qn)
        why = "the Jacobian is filled transposed (forces along rows)"
        if ok is None and st:
            # stores with explicit index arrays: jac[I, J] = G(east[A] - force_east[B], ...) must have A == I (observation = row) and B == J
            # (force = column) in every store; a store that mirrors entries (jac[J, I] = the same values) assumes a symmetry the matrix has
            # only when the forces sit on the data points in the same order
            verdicts = []
            for e in st:
                ix, val = e.data[1], e.data[2]
                if not (ix[0] == "tuple" and len(ix[1]) == 2 and g_call(val, {"verde.spline.greens_func_numpy"})):
                    verdicts.append(None)
                    continue
                i_, j_ = ix[1]
                a0 = val[2][0]
                obs = [x[2] for x in walk(a0) if isinstance(x, tuple) and x and x[0] == "sub" and x[1] == ("param", "east")]
                frc = [x[2] for x in walk(a0) if isinstance(x, tuple) and x and x[0] == "sub" and x[1] == ("param", "force_east")]
                if len(obs) == 1 and len(frc) == 1:
                    good = obs[0] == i_ and frc[0] == j_
                    verdicts.append(True if good else (False if obs[0] == j_ and frc[0] == i_ and i_ != j_ else None))
                else:
                    verdicts.append(None)
            if any(v is False for v in verdicts):
                ok, why = False, "a store puts G(obs[r] - force[c]) into entry [c, r]: the Jacobian is assumed symmetric, which holds only when every force sits on the data point of the same index"
            elif verdicts and all(v is True for v in verdicts):
                ok = None       # each store is right; whether together they cover the matrix is not decided here
        ctx.check("R3", qn + "|observations-along-rows", ok, "jac[:] = G(obs as a column - forces as a row): observations along rows, forces along columns",
                  bad=why, fn=qn)
    qn = "verde.spline.jacobian_numba"
    for p in ctx.paths(qn):
        if p.exit != "return":
            continue
        st = [e for e in p.events if e.kind == "store" and e.data[0] == ("param", "jac")]
        ok = None
        if len(st) == 1 and g_call(st[0].data[2], {"verde.spline.greens_func_jit"}) and st[0].data[1][0] == "tuple" and len(st[0].data[1][1]) == 2:
            i, j = st[0].data[1][1]
            g = st[0].data[2]
            a0, a1 = g[2][0], g[2][1]

            def uses(a, nm, ix):
                return any(x[0] == "sub" and x[1] == ("param", nm) and x[2] == ix for x in walk(a))
            good = uses(a0, "east", i) and uses(a0, "force_east", j) and uses(a1, "north", i) and uses(a1, "force_north", j)
            swapped = uses(a0, "east", j) or uses(a0, "force_east", i)
            ok = True if good else (False if swapped else None)
            s0, s1 = diff_sign(a0, "east", "force_east"), diff_sign(a1, "north", "force_north")
            ctx.check("R4", qn + "|difference-arguments", True if (s0 in (1, -1) and s0 == s1) else (False if s0 is not None and s1 is not None else None),
                      "kernel arguments are coordinate differences with the same sign on both axes", bad="opposite signs on the two axes", fn=qn)
        ctx.check("R3", qn + "|observations-along-rows", ok, "jac[i, j] = G(obs_i - force_j)", bad="row/column indices are swapped", fn=qn)
    # the public methods hand the same state to both kernels
    for cq, attrs in (("verde.spline.Spline", ["mindist"]), ("verde.vector.VectorSpline2D", ["mindist", "poisson"])):
        for m in ("predict", "jacobian"):
            qn = cq + "." + m
            kernel_calls = []
            for p in ctx.paths(qn):
                for e in p.events:
                    if e.kind == "call" and e.data[0][1][0] == "glob" and e.data[0][1][1].startswith(cq.rsplit(".", 1)[0] + ".") \
                            and e.data[0][1][1].rsplit(".", 1)[1].startswith(("predict_", "jacobian_")):
                        kernel_calls.append(e)
            for a in attrs:
                vals = {Q.arg(ctx, e.data[0], a) for e in kernel_calls}
                ok = True if vals == {Q.self_attr(a)} else (False if any(v is not None and v != "unknown" and (is_const(v) or (Q.is_self_attr(v) and v != Q.self_attr(a))) for v in vals) else None)
                ctx.check("R3", "%s|kernel-%s" % (qn, a), ok, "every kernel call receives self.%s" % a, bad="a kernel call receives %s=%s" % (a, [show(v) for v in vals if isinstance(v, tuple)]), fn=qn)


def r5_elastic(ctx):
    qn = "verde.vector.greens_func_2d"
    b = Builder(Space(), synonyms=synonyms(ctx, qn, "kernels.elastic"))
    rets = [p for p in ctx.paths(qn) if p.exit == "return"]
    for p in rets:
        v = p.value
        if v[0] != "tuple" or len(v[1]) != 3:
            ctx.add("R5", qn + "|returns-three-kernels", "UNDECIDED" if v[0] != "tuple" else "VIOLATED", "the function returns %s instead of (g_ee, g_nn, g_ne)" % show(v)[:80], fn=qn)
            continue
        for k, nm in enumerate(("g_ee", "g_nn", "g_ne")):
            cmp_formula(ctx, "R5", "%s|%s" % (qn, nm), v[1][k], spec_nf(b, "kernels.elastic", k), b, qn, "element %d of the result equals the documented %s" % (k, nm))
        # definedness under mindist > 0
        f = ctx.pkg.fn(qn)
        pe, pn, pm, pp = (("param", x) for x in f.params[:4])
        r0 = None
        for x in walk(v):
            if x[0] == "call" and callee(x) in ("numpy.sqrt", "numpy.hypot"):
                r0 = x
        env = {pe: (-1e8, 1e8), pn: (-1e8, 1e8), pm: (1e-12, 1e6), pp: (-1.0, 1.0)}
        if r0 is None:
            ctx.add("R2", qn + "|defined-mindist>0", "UNDECIDED", "distance term not found", fn=qn)
        else:
            try:
                for el in v[1]:
                    iv(el, r0, (0.0, 1.5e8), (), env)
                ok, why = True, "all three kernels finite for distance in [0, 1.5e8], mindist in [1e-12, 1e6]"
            except Bad as ex:
                ok, why = False, str(ex)
            except Unmodelled as ex:
                ok, why = None, "no interval model for " + str(ex)
            ctx.check("R2", qn + "|defined-mindist>0", ok, why, bad="a kernel is not finite for coincident points even with mindist > 0: " + why, fn=qn)
    # block layout of the numpy Jacobian
    qn = "verde.vector.jacobian_2d_numpy"
    G = {"verde.vector.greens_func_2d"}
    for p in ctx.paths(qn):
        if p.exit != "return":
            continue
        st = [e for e in p.events if e.kind == "store" and e.data[0] == ("param", "jac")]
        blocks = {}
        for e in st:
            idx, val = e.data[1], e.data[2]
            if idx[0] == "tuple" and len(idx[1]) == 2 and all(x[0] == "slice" for x in idx[1]) and val[0] == "sub" and g_call(val[1], G) and is_int(val[2]):
                r, c = idx[1]
                rk = "east-rows" if r[1] == NONE and r[2] != NONE else ("north-rows" if r[1] != NONE and r[2] == NONE else "?")
                ck = "east-forces" if c[1] == NONE and c[2] != NONE else ("north-forces" if c[1] != NONE and c[2] == NONE else "?")
                blocks[(rk, ck)] = val[2][1]
                rb = r[2] if rk == "east-rows" else r[1]
                cb = c[2] if ck == "east-forces" else c[1]
                ctx.check("R5", "%s|block-bounds|%s,%s" % (qn, rk, ck),
                          True if Q.leaves(rb) <= {("param", "east"), ("param", "north")} and Q.leaves(cb) <= {("param", "force_east"), ("param", "force_north")} else
                          (False if Q.leaves(rb) & {("param", "force_east"), ("param", "force_north")} else None),
                          "row blocks are split at the number of points, column blocks at the number of forces",
                          bad="row/column block boundaries use the wrong sizes", fn=qn)
        want = {("east-rows", "east-forces"): 0, ("north-rows", "north-forces"): 1, ("east-rows", "north-forces"): 2, ("north-rows", "east-forces"): 2}
        for kblk, wv in want.items():
            g = blocks.get(kblk)
            ctx.check("R5", "%s|block|%s,%s" % ((qn,) + kblk), True if g == wv else (False if g is not None else None),
                      "block (%s, %s) holds kernel #%d of (g_ee, g_nn, g_ne)" % (kblk + (wv,)), bad="block (%s, %s) holds kernel #%s instead of #%d" % (kblk + (g, wv)), fn=qn)
        gc = [e.data[0] for e in p.events if e.kind == "call" and callee(e.data[0]) in G]
        if len(gc) == 1:
            a0, a1 = gc[0][2][0], gc[0][2][1]
            s0, s1 = diff_sign(a0, "east", "force_east"), diff_sign(a1, "north", "force_north")
            ctx.check("R4", qn + "|difference-arguments", True if (s0 in (1, -1) and s0 == s1) else (False if s0 is not None and s1 is not None else None),
                      "kernel arguments are coordinate differences with the same sign on both axes", bad="opposite signs / not differences", fn=qn)
            for a, nm in ((gc[0][2][2] if len(gc[0][2]) > 2 else None, "mindist"), (gc[0][2][3] if len(gc[0][2]) > 3 else None, "poisson")):
                ctx.check("R5", "%s|kernel-%s" % (qn, nm), True if a == ("param", nm) else (False if a is not None and (is_const(a) or a[0] == "param") else None),
                          "%s reaches the kernel" % nm, bad="the kernel receives %s=%s" % (nm, show(a) if a else None), fn=qn)
    # predict: implied 2x2 block matrix
    for qn, Gs in (("verde.vector.predict_2d_numpy", G), ("verde.vector.predict_2d_numba", {"verde.vector.greens_func_2d"})):
        for p in ctx.paths(qn):
            if p.exit != "return":
                continue
            for acc, (k_own, k_cross) in (("vec_east", (0, 2)), ("vec_north", (1, 2))):
                augs = [e for e in p.events if e.kind == "aug" and ("param", acc) in Q.leaves(e.data[0]) and e.data[1] == "+"]
                ok = None
                if len(augs) == 1:
                    terms = flatten_sum(augs[0].data[2])
                    got = set()
                    for t in terms:
                        if t[0] == "binop" and t[1] == "*":
                            for g, fj in ((t[2], t[3]), (t[3], t[2])):
                                if g[0] == "sub" and g_call(g[1], Gs) and is_int(g[2]) and fj[0] == "sub" and fj[1] == ("param", "forces"):
                                    ix = fj[2]
                                    plain = ix[0] == "elem" and ix[1][0] == "call" and callee(ix[1]) == "builtins.range" and len(ix[1][2]) == 1
                                    shifted = ix[0] == "binop" and ix[1] == "+" and any(y[0] == "elem" and y[1][0] == "call" and callee(y[1]) == "builtins.range" and len(y[1][2]) == 1 for y in (ix[2], ix[3]))
                                    off = "east" if plain else ("north" if shifted else "?")      # forces[j] / forces[j + nforces]; any other index form is not classified
                                    got.add((g[2][1], off))
                    want_set = {(k_own, "east" if acc == "vec_east" else "north"), (k_cross, "north" if acc == "vec_east" else "east")}
                    ok = True if got == want_set else (False if len(got) == 2 and not any(o == "?" for _k, o in got) else None)
                    detail = "got %s, documented %s" % (sorted(got), sorted(want_set))
                else:
                    detail = "no single += found"
                ctx.check("R5", "%s|%s-combination" % (qn, acc), ok, "%s += g_%s*f_east-or-north + g_ne*other, as the Jacobian blocks imply" % (acc, "ee" if acc == "vec_east" else "nn"),
                          bad="%s combines kernels and force halves differently from the Jacobian: %s" % (acc, detail), fn=qn)
            init = [e for e in p.events if e.kind == "store" and e.data[0] in (("param", "vec_east"), ("param", "vec_north"))]
            ok0 = len({e.data[0] for e in init}) == 2 and all(e.data[2] == const(0) for e in init)
            ctx.check("R3", qn + "|accumulators-start-at-zero", True if ok0 else False, "both accumulators are initialised to 0", bad="an accumulator is not initialised to 0", fn=qn)
            loops = [e for e in p.events if e.kind == "loop-enter" and any(x == ("attr", ("param", "forces"), "size") for x in walk(e.data[1]))]
            half = ("binop", "//", ("attr", ("param", "forces"), "size"), const(2))
            okl = len(loops) == 1 and loops[0].data[1][0] == "call" and loops[0].data[1][2] == (half,)
            ctx.check("R3", qn + "|loops-over-all-forces", True if okl else None, "the force loop is range(forces.size // 2)", fn=qn)
    # numba Jacobian: element-wise block layout
    qn = "verde.vector.jacobian_2d_numba"
    for p in ctx.paths(qn):
        if p.exit != "return":
            continue
        st = [e for e in p.events if e.kind == "store" and e.data[0] == ("param", "jac")]
        got = {}
        for e in st:
            idx, val = e.data[1], e.data[2]
            if idx[0] == "tuple" and len(idx[1]) == 2 and val[0] == "sub" and is_int(val[2]):
                rk = "north-rows" if idx[1][0][0] == "binop" else "east-rows"
                ck = "north-forces" if idx[1][1][0] == "binop" else "east-forces"
                got[(rk, ck)] = val[2][1]
        want = {("east-rows", "east-forces"): 0, ("north-rows", "north-forces"): 1, ("east-rows", "north-forces"): 2, ("north-rows", "east-forces"): 2}
        ctx.check("R5", qn + "|block-layout", True if got == want else (False if len(got) == 4 else None), "jit twin fills the same 2x2 block layout",
                  bad="jit Jacobian layout %s differs from the documented %s" % (got, want), fn=qn)
    # GREENS_FUNC_2D_JIT is the jit-compiled greens_func_2d
    m = ctx.pkg.modules["verde.vector"]
    alias = ctx.pkg.canon_qual("verde.vector.GREENS_FUNC_2D_JIT")
    ctx.check("R5", "verde.vector.GREENS_FUNC_2D_JIT|is-greens_func_2d", True if alias == "verde.vector.greens_func_2d" else None,
              "the jit kernel is the same function object as the numpy kernel")


def flatten_sum(t):
    if t[0] == "binop" and t[1] == "+":
        return flatten_sum(t[2]) + flatten_sum(t[3])
    return [t]


def r6_monomials(ctx):
    qn = "verde.trend.polynomial_power_combinations"
    deg = ("param", "degree")
    for p in ctx.paths(qn):
        if p.exit != "return":
            continue
        v = p.value
        v = Q.unseq(v)
        direct = Q.unseq(v)
        if direct[0] == "comp" and direct[2][0] == "star" and direct[2][1][0] == "comp" and not (v[0] == "call"):
            # the documented order generated directly: for total = 0..degree (outer), for j = 0..total (inner): (total - j, j)
            # - grouped by total degree, ties by ascending power of northing - which is what the stable sort by sum of the j-major triangle gives
            outer_it, lo, inner = direct[3], direct[4], direct[2][1]
            inner_it, li, elt = inner[3], inner[4], inner[2]
            full = ("call", ("glob", "builtins.range"), (("binop", "+", deg, const(1)),), (), 0)
            T = ("elem", outer_it, lo)
            tri = ("call", ("glob", "builtins.range"), (("binop", "+", T, const(1)),), (), 0)
            J = ("elem", inner_it, li)
            okd = None
            if canon(outer_it) == canon(full) and canon(inner_it) == canon(tri):
                if elt == ("tuple", (("binop", "-", T, J), J)):
                    okd = True
                elif elt == ("tuple", (J, ("binop", "-", T, J))):
                    okd = False
            ctx.check("R6", qn + "|sorted-by-degree", okd, "pairs are generated by total degree: (total - j, j) for total = 0..degree, j = 0..total", fn=qn,
                      bad="pairs are generated as (j, total - j): ties within a degree come out in the opposite of the documented order")
            ctx.check("R6", qn + "|triangle-and-tie-order", okd, "pairs (i, j) with i + j = total <= degree, ties by ascending power of northing", fn=qn,
                      bad="ties within a degree are ordered by descending power of northing")
            continue
        if not (v[0] == "call" and callee(v) == "builtins.sorted" and len(v[2]) == 1):
            ctx.add("R6", qn + "|sorted-by-degree", "UNDECIDED", "the result is not sorted(...): %s" % show(v)[:80], fn=qn)
            continue
        key = kw(v, "key")
        rev = kw(v, "reverse")
        ok = True if key == ("glob", "builtins.sum") and rev in (None, const(False)) else (False if (key is not None and key[0] == "glob" and key[1] in ("builtins.max", "builtins.min")) or rev == const(True) or key is None else None)
        ctx.check("R6", qn + "|sorted-by-degree", ok, "pairs are sorted by total degree (key=sum, ascending; sorted() is stable)",
                  bad="pairs are sorted with key=%s reverse=%s: the documented order by total degree is lost" % (show(key) if key else None, show(rev) if rev else None), fn=qn)
        c = v[2][0]
        ok = None
        why = ""
        if c[0] == "comp" and c[2][0] == "star" and c[2][1][0] == "comp":
            outer_it, lo = c[3], c[4]
            inner = c[2][1]
            inner_it, li, elt = inner[3], inner[4], inner[2]
            full = ("call", ("glob", "builtins.range"), (("binop", "+", deg, const(1)),), (), 0)
            o = ("elem", outer_it, lo)
            tri = ("call", ("glob", "builtins.range"), (("binop", "-", ("binop", "+", deg, const(1)), o),), (), 0)
            i_t = ("elem", inner_it, li)
            outer_ok = canon(outer_it) == canon(full)
            inner_ok = canon(inner_it) == canon(tri)
            if outer_ok and inner_ok and elt == ("tuple", (i_t, o)):
                ok = True
            elif outer_ok and inner_ok and elt == ("tuple", (o, i_t)):
                ok, why = False, "pairs are (j, i): ties within a degree come out in the opposite of the documented order"
            elif outer_ok and canon(inner_it) == canon(full):
                ok, why = False, "both powers range over 0..degree: terms above the total degree are included"
            elif outer_ok and inner_it[0] == "call" and callee(inner_it) == "builtins.range":
                a = inner_it[2]
                if len(a) == 1 and a[0][0] == "binop" and Q.leaves(a[0]) == {deg} and ("elem", outer_it, lo) in list(walk(a[0])):
                    ok, why = False, "inner range is %s instead of range(degree + 1 - j): wrong number of terms" % show(inner_it)
        ctx.check("R6", qn + "|triangle-and-tie-order", ok, "pairs (i, j): j in 0..degree (outer), i in 0..degree-j (inner) - (N+1)(N+2)/2 terms, ties by ascending power of northing",
                  bad=why or "monomial generation differs from the documented triangle", fn=qn)
    neg = any(p.exit == "raise" and p.conds and p.conds[-1][0] == ("cmp", "<", deg, const(0)) and p.conds[-1][1] for p in ctx.paths(qn))
    ctx.check("R6", qn + "|rejects-negative-degree", True if neg else False, "degree < 0 raises", bad="negative degrees are no longer rejected", fn=qn)


def r7_checkerboard(ctx):
    qn = "verde.synthetic.CheckerBoard.predict"
    syn = {"self.amplitude": "amplitude", "self.w_east_": "w_east", "self.w_north_": "w_north"}
    b = Builder(Space(), synonyms=syn)
    want = spec_nf(b, "kernels.checkerboard")
    co = ("param", "coordinates")
    for p in ctx.paths(qn):
        if p.exit != "return":
            continue
        bb = Builder(b.sp, synonyms=syn)
        env = {Q.sub(co, 0): b.sp.sym("easting"), Q.sub(co, 1): b.sp.sym("northing")}
        try:
            got = bb.nf(p.value, env)
            r = compare(b.sp, got, want)
        except Undecided as e:
            got, r = str(e), None
        ctx.check("R7", qn + "|formula", r, "predict == amplitude sin(2 pi e / w_east_) cos(2 pi n / w_north_) with e, n = coordinates[0], coordinates[1] [normal forms equal]",
                  bad="CheckerBoard.predict computes %s, documented %s" % (repr(got)[:150], repr(want)[:150]), fn=qn,
                  undecided="normal forms differ with uninterpreted symbols: %s" % (repr(got)[:150]))
    for prop, lo, hi, par in (("w_east_", 0, 1, "w_east"), ("w_north_", 2, 3, "w_north")):
        qn = "verde.synthetic.CheckerBoard." + prop
        reg = Q.self_attr("region")
        b2 = Builder(Space())
        want = (b2.nf(Q.sub(reg, hi)) - b2.nf(Q.sub(reg, lo))) / b2.nf(const(2))
        okd = okg = None
        for p in ctx.paths(qn):
            if p.exit != "return":
                continue
            isnone = K_lookup(p, ("cmp", "is", Q.self_attr(par), NONE))
            if isnone is True:
                try:
                    got = Builder(b2.sp).nf(p.value)
                    okd = compare(b2.sp, got, want)
                    detail = repr(got)
                except Undecided as e:
                    okd, detail = None, str(e)
            elif isnone is False:
                okg = True if p.value == Q.self_attr(par) else (False if Q.is_self_attr(p.value) else None)
        ctx.check("R7", qn + "|default-half-extent", okd, "the default wavelength is (region[%d] - region[%d]) / 2" % (hi, lo),
                  bad="the default %s is %s, documented half of region[%d] - region[%d]" % (par, detail if okd is False else "?", hi, lo), fn=qn)
        ctx.check("R7", qn + "|given-value", okg, "a given %s is used as is" % par, bad="a given %s is not returned" % par, fn=qn)


def K_lookup(p, cond):
    from ..paths import lookup
    return lookup(p.decided, cond)


def r8_scipy(ctx):
    want = {"verde.scipygridder.Linear": "scipy.interpolate.LinearNDInterpolator", "verde.scipygridder.Cubic": "scipy.interpolate.CloughTocher2DInterpolator"}
    for cq, klass in want.items():
        qn = cq + "._get_interpolator"
        for p in ctx.paths(qn):
            if p.exit != "return":
                continue
            v = p.value
            ok = okr = None
            if v[0] == "tuple" and len(v[1]) == 2:
                ok = True if v[1][0] == ("glob", klass) else (False if v[1][0][0] == "glob" and v[1][0][1].startswith("scipy.interpolate.") else None)
                d = v[1][1]
                if d[0] == "dict":
                    dd = {k[1]: x for k, x in d[1] if k is not None and is_const(k)}
                    okr = True if dd.get("rescale") == Q.self_attr("rescale") else False
            ctx.check("R8", qn + "|class", ok, "%s uses %s" % (cq.rsplit(".", 1)[1], klass.rsplit(".", 1)[1]),
                      bad="%s uses %s" % (cq.rsplit(".", 1)[1], show(v[1][0]) if v[0] == "tuple" else show(v)), fn=qn)
            ctx.check("R8", qn + "|rescale", okr, "the rescale option is passed on as {'rescale': self.rescale}", bad="rescale is not forwarded to the SciPy interpolator", fn=qn)
    qn = "verde.scipygridder.ScipyGridder._get_interpolator"
    table = {"linear": "scipy.interpolate.LinearNDInterpolator", "nearest": "scipy.interpolate.NearestNDInterpolator", "cubic": "scipy.interpolate.CloughTocher2DInterpolator"}
    for p in ctx.paths(qn):
        if p.exit != "return":
            continue
        v = p.value
        ok = None
        if v[0] == "tuple" and v[1][0][0] == "sub" and v[1][0][1][0] == "dict" and v[1][0][2] == Q.self_attr("method"):
            dd = {k[1]: x for k, x in v[1][0][1][1] if k is not None and is_const(k)}
            ok = True if dd == {k: ("glob", c) for k, c in table.items()} else False
        ctx.check("R8", qn + "|method-table", ok, "linear/nearest/cubic map to LinearND/NearestND/CloughTocher2D", bad="the method table maps names to the wrong SciPy classes", fn=qn)
    qn = "verde.scipygridder._BaseScipyGridder.fit"
    for p in ctx.paths(qn):
        if p.exit != "return":
            continue
        gi = [e.data[0] for e in p.events if e.kind == "call" and e.data[0][1] == ("attr", Q.SELF, "_get_interpolator")]
        cons = [e.data[0] for e in p.events if e.kind == "call" and e.data[0][1][0] == "sub" and gi and e.data[0][1] == Q.sub(gi[0], 0)]
        ok = None
        if len(cons) == 1:
            c = cons[0]
            okk = any(k is None and v == Q.sub(gi[0], 1) for k, v in c[3])
            pts = c[2][0] if c[2] else None
            vals = c[2][1] if len(c[2]) > 1 else None
            good_vals = vals is not None and Q.unwrap(vals) == Q.sub(("call", ("glob", "verde.base.utils.check_fit_input"), (("param", "coordinates"), ("param", "data"), ("param", "weights")), (), 0), 1)
            ok = True if okk and good_vals else (False if not okk else None)
        why8 = "the interpolator keyword arguments (rescale) are not passed to the SciPy class"
        if ok is None:
            made = [e.data[2] for e in p.events if e.kind == "setattr" and e.data[0] == Q.SELF and e.data[1] == "interpolator_"]
            if made and made[-1][0] == "call" and any(x[0] == "attr" and x[1] == Q.SELF and x[2] not in ("rescale", "method", "extra_args") for x in walk(made[-1][1]) if isinstance(x, tuple) and x):
                # class / keyword arguments read back from an attribute of the instance: on a refit these are the ones of an earlier configuration
                ok, why8 = False, "the SciPy class / its keyword arguments are read from instance state (%s) instead of this call's _get_interpolator(): set_params between fits is ignored" % show(made[-1][1])[:60]
        ctx.check("R8", qn + "|constructs-cls(points, values, **kwargs)", ok, "fit builds interpolator_class(points, raveled data, **kwargs)", bad=why8, fn=qn)


def check(ctx):
    r1_r2_biharmonic(ctx)
    r3_r4_structure(ctx)
    r5_elastic(ctx)
    r6_monomials(ctx)
    from . import c01
    ctx.alias = {"R7": "R6"}          # Trend.predict sums coef_k * easting^i * northing^j over the same combinations as the Jacobian (C01.R7)
    try:
        c01.r7_trend(ctx)
    finally:
        ctx.alias = {}
    r7_checkerboard(ctx)
    r8_scipy(ctx)
