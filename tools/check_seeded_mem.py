"""Fast regression over every filed seeded change: the patch is applied IN MEMORY to /repo's current source (vstat/patching.py) and all twenty
quick checks run on it, 10 processes.  Same requirement as tools/check_seeded.py (which really applies each patch to /repo and is the
authoritative run): a change must be reported with a VIOLATION line by some check, unless its meta.json records static_verdict =
"undecided", in which case its owning property must not exit 0.  Usage: /venv/bin/python tools/check_seeded_mem.py [-j N]"""
import json
import multiprocessing as mp
import pathlib
import sys

VERIF = pathlib.Path(__file__).resolve().parent.parent
sys.path.insert(0, str(VERIF))
sys.path.insert(0, str(VERIF / "tools"))


def one(name):
    import try_mem
    d = VERIF / "seeded" / name
    try:
        res = try_mem.run(str(d / "patch.diff"), None, 2)
    except Exception as e:  # noqa: BLE001
        return name, None, repr(e)[:200]
    return name, {p: r["exit"] for p, r in res.items()}, ""


def main():
    j = int(sys.argv[sys.argv.index("-j") + 1]) if "-j" in sys.argv else 10
    names = sorted(d.name for d in (VERIF / "seeded").iterdir() if (d / "patch.diff").exists())
    bad = viol = und = 0
    with mp.Pool(j) as pool:
        for name, res, err in pool.imap(one, names):
            if res is None:
                print(name, "does not apply in memory:", err)
                bad += 1
                continue
            own = name.split("-")[0]
            m = json.load(open(VERIF / "seeded" / name / "meta.json"))
            v = sorted(p for p, c in res.items() if c == 1)
            u = sorted(p for p, c in res.items() if c == 2)
            if v:
                viol += 1
            elif m.get("static_verdict") == "undecided" and own in u:
                und += 1
            else:
                bad += 1
                print("%-7s NOT REPORTED: violation by %s, undecided in %s" % (name, v or "-", u or "-"))
    print("filed changes: %d, reported with a VIOLATION: %d, recorded undecided (owning property exits 2): %d, not reported: %d" % (len(names), viol, und, bad))
    return 1 if bad else 0


if __name__ == "__main__":
    sys.exit(main())
