"""C18 - grid <-> table conversions preserve every value at its own coordinates (DESIGN §4 C18)."""
from .. import q as Q
from ..terms import callee, canon, const, is_const, is_int, kw, show, walk, NONE
from ..paths import lookup
from . import c05
from . import common as K

EXPLANATION = ("role/axis typing of every (dimension name, coordinate array) pairing, mesh slicing direction, np.meshgrid operand order and "
               "reversal in make_xarray_grid / grid_to_table / meshgrid_to_1d / meshgrid_from_1d / check_meshgrid; name-count rejection; flatten order")
RULES = {
    "R1": "make_xarray_grid, meshgrid_to_1d, meshgrid_from_1d, check_meshgrid pair names and arrays by axis; names are validated (None / count mismatch raise) before use; mixed dimensionality raises",
    "R2": "grid_to_table: names = grid dims (northing, easting); north = coords[names[0]], east = coords[names[1]]; coordinate columns = C-order ravels of "
          "np.meshgrid(east, north) reversed, zipped with the names in order; data columns = C-order ravels; extra coordinates appended with their names; unnamed DataArray -> 'scalars'",
    "R3": "meshgrid_from_1d . meshgrid_to_1d and the reverse are role identities (rows = N, columns = E on both sides)",
}
ASSUMPTIONS = ["values are moved by numpy/xarray/pandas (library)"]
GT = "verde.utils.grid_to_table"
MX = "verde.utils.make_xarray_grid"


def order_args(t):
    """non-C order arguments of flatten-like calls inside term t"""
    bad = []
    for x in walk(t):
        if x[0] == "call" and callee(x) in ("numpy.ravel", ".ravel", ".flatten", "numpy.reshape", ".reshape", "numpy.asarray", "numpy.array"):
            o = kw(x, "order")
            if o is not None and o != const("C"):
                bad.append(show(x)[:60])       # 'F' always differs; 'K'/'A' follow the memory layout, which differs for non-C-contiguous inputs
            if callee(x) in (".ravel", ".flatten") and x[2] and x[2][0] != const("C"):
                bad.append(show(x)[:60])
            if callee(x) == "numpy.ravel" and len(x[2]) > 1 and x[2][1] != const("C"):
                bad.append(show(x)[:60])
    return bad


def _from_extra_names(t):
    """the term is built from the extra coordinate names (the parameter, or what its validator returned)"""
    return any(x == ("param", "extra_coords_names") or (x[0] == "call" and callee(x) == "verde.base.utils.check_extra_coords_names") for x in walk(t) if isinstance(x, tuple) and x)


def _segments(t):
    """[(kind, payload, reversed)] runs of a sequence term: list/tuple displays with starred parts, whole-sequence [::-1]"""
    if t[0] == "sub" and t[2][0] == "slice" and t[2][1] == NONE and t[2][2] == NONE and t[2][3] == const(-1):
        return [(k, x, not r) for k, x, r in reversed(_segments(t[1]))]
    if t[0] in ("list", "tuple"):
        out = []
        for it in t[1]:
            if it[0] == "star":
                out.extend(_segments(it[1]) if it[1][0] in ("list", "tuple", "sub") else [("many", it[1], False)])
            else:
                out.append(("one", it, False))
        return out
    return [("many", t, False)]


def _mapping_view(t):
    """(mapping term, is_sorted) when t enumerates a mapping: M, M.keys(), M.values(), M.items(), list(...)/tuple(...) of these, sorted(...) of
    these (without a key function); None otherwise"""
    srt = False
    while True:
        if t[0] == "call" and callee(t) in ("builtins.list", "builtins.tuple") and len(t[2]) == 1 and not t[3]:
            t = t[2][0]
        elif t[0] == "call" and callee(t) == "builtins.sorted" and len(t[2]) == 1 and not t[3]:
            srt = True
            t = t[2][0]
        elif t[0] == "call" and t[1][0] == "attr" and t[1][2] in ("keys", "values", "items") and not t[2] and not t[3]:
            return t[1][1], srt
        else:
            return None


def _order_clash(names, arrays):
    """names and arrays are paired positionally (zip).  True iff one of them enumerates a mapping M in sorted-key order and the other
    enumerates the same M in its own order (M.values(), M.items(), a comprehension over them)."""
    a = _mapping_view(names)
    it = arrays[3] if arrays[0] == "comp" and not arrays[5] else arrays
    b = _mapping_view(it)
    if a is None or b is None or a[0] != b[0]:
        return False
    if it == names:
        return False
    return a[1] != b[1]


def check(ctx):
    c05.r2_make_xarray_grid(ctx, rule="R1")
    c05.r3_mesh(ctx, rule="R1")
    # name validators and dimensionality check
    for qn, par in (("verde.base.utils.check_extra_coords_names", "extra_coords_names"), ("verde.base.utils.check_data_names", "data_names")):
        ps = ctx.paths(qn)
        none = any(p.exit == "raise" and p.conds and p.conds[-1][0] == ("cmp", "is", ("param", par), NONE) and p.conds[-1][1] for p in ps)
        cnt = any(p.exit == "raise" and p.conds and p.conds[-1][1] and p.conds[-1][0][0] == "cmp" and p.conds[-1][0][1] == "!=" and
                  all(x[0] == "call" and callee(x) == "builtins.len" for x in (p.conds[-1][0][2], p.conds[-1][0][3])) for p in ps)
        ctx.check("R1", qn + "|raises|none", True if none else False, "%s=None raises" % par, bad="%s=None is accepted" % par, fn=qn)
        ctx.check("R1", qn + "|raises|count", True if cnt else False, "a name-count mismatch raises", bad="a name-count mismatch is accepted", fn=qn)
        one = any(p.exit == "return" and any(c[0] == "call" and callee(c) == "builtins.isinstance" and v for c, v in p.conds) and p.value == ("tuple", (("param", par),)) for p in ps)
        ctx.check("R1", qn + "|single-string-becomes-tuple", True if one else None, "a single string is wrapped in a tuple", fn=qn)
    qn = "verde.utils.get_ndim_horizontal_coords"
    mixed = any(p.exit == "raise" and p.conds and p.conds[-1][1] and p.conds[-1][0][0] == "cmp" and p.conds[-1][0][1] == "!=" for p in ctx.paths(qn))
    ctx.check("R1", qn + "|raises|mixed-dimensions", True if mixed else False, "easting and northing of different dimensionality raise", bad="mixed dimensionality is accepted", fn=qn)
    K.precedes(ctx, "R1", "verde.utils.make_xarray_grid", K.is_call("verde.base.utils.check_extra_coords_names"),
               lambda e: (e.kind == "store" and e.data[3] == "container" and _from_extra_names(e.data[1])) or
               (e.kind == "call" and callee(e.data[0]) == ".update" and _from_extra_names(e.data[0])),
               "extra-names-validated-before-use", "extra coordinate names are validated before they are used")
    # a "shape repair" in a helper of make_xarray_grid: transposing an array because its shape equals the REVERSED grid shape, tested before
    # (or without) establishing that it differs from the grid shape - for a square grid both shapes are equal and a correctly oriented array
    # is transposed
    from ..paths import known_functions
    inv = known_functions() or set()
    for hq in sorted(K.scope(ctx)):
        if hq in inv or hq not in ctx.pkg.functions or not hq.startswith(MX.rsplit(".", 1)[0] + "."):
            continue
        badt = None
        for p in ctx.paths(hq):
            if p.exit != "return" or not isinstance(p.value, tuple):
                continue
            v = p.value
            if not (v[0] == "call" and callee(v) == "numpy.transpose" and len(v[2]) == 1 and v[2][0][0] == "param"):
                continue
            arr = v[2][0]
            def shape_of(t):
                return t == ("attr", arr, "shape") or (t[0] == "call" and callee(t) == "numpy.shape" and t[2] == (arr,))
            def rev(t):
                if t[0] == "tuple" and len(t[1]) == 2 and all(x[0] == "sub" for x in t[1]) and t[1][0][1] == t[1][1][1] and (t[1][0][2], t[1][1][2]) in ((const(1), const(0)), (const(-1), const(-2))):
                    return True         # (s[1], s[0]): the reversed 2-tuple written out (also what s[::-1] of a pair is normalised to)
                return t[0] == "sub" and t[2][0] == "slice" and t[2][3] == const(-1) and t[2][1] == NONE and t[2][2] == NONE
            eq_rev = [c for c, tv in p.conds if tv and c[0] == "cmp" and c[1] == "==" and ((shape_of(c[2]) and rev(c[3])) or (shape_of(c[3]) and rev(c[2])))]
            differs = [c for c, tv in p.conds if tv and c[0] == "cmp" and c[1] == "!=" and (shape_of(c[2]) or shape_of(c[3]))]
            if eq_rev and not differs:
                badt = "%s transposes %s whenever its shape equals the reversed grid shape, without having established that it differs from the grid shape: on a square grid a correctly oriented array is transposed" % (hq.rsplit(".", 1)[1], arr[1])
        ctx.check("R1", hq + "|no-transpose-of-a-correctly-shaped-array", False if badt else True, "no helper transposes an array that may already have the grid's shape", bad=badt or "", fn=hq, nontrivial=False)
    # ---- R2 grid_to_table
    K.roles_rule(ctx, "R2", [GT], with_return=False, require={GT: [{"meshgrid-operands"}, {"zip-name-array", "dict-entry"}]})
    n = 0
    for p in ctx.paths(GT):
        if p.exit != "return":
            continue
        is_ds = any(c[0] == "call" and callee(c) == "builtins.hasattr" and v for c, v in p.conds)
        tag = "dataset" if is_ds else "dataarray"
        n += 1
        mg = [e.data[0] for e in p.events if e.kind == "call" and callee(e.data[0]) == "numpy.meshgrid"]
        zips = [e.data[0] for e in p.events if e.kind == "call" and callee(e.data[0]) == "builtins.zip"]
        bad = order_args(p.value)
        ctx.check("R2", "%s|C-order-ravels|%s" % (GT, tag), False if bad else True, "every column is a C-order ravel", bad="non-C flatten order: %s" % bad[:2], fn=GT)
        if len(mg) != 1 or len(zips) not in (1, 2):
            ctx.add("R2", "%s|structure|%s" % (GT, tag), "UNDECIDED", "expected one meshgrid and one or two zip calls (found %d, %d)" % (len(mg), len(zips)), fn=GT)
            continue
        names_t, cols_t = zips[0][2]
        # coordinate columns: reversed meshgrid ravels
        first_two = cols_t[1][:2] if cols_t[0] in ("list", "tuple") else ()
        ok = None
        if len(first_two) == 2:
            a, b = (Q.unwrap(x) for x in first_two)
            if a == Q.sub(mg[0], 1) and b == Q.sub(mg[0], 0):
                ok = True
            elif a == Q.sub(mg[0], 0) and b == Q.sub(mg[0], 1):
                ok = False
        ctx.check("R2", "%s|coordinate-columns-reversed-meshgrid|%s" % (GT, tag), ok, "coordinate columns are (northing mesh, easting mesh), matching the (northing, easting) names",
                  bad="coordinate columns are (easting mesh, northing mesh) under the (northing, easting) names", fn=GT)
        dims_src = ("attr", ("param", "grid"), "dims") if not is_ds else None
        nm0 = names_t
        base_names = nm0[1][0][1] if (nm0[0] == "list" and nm0[1] and nm0[1][0][0] == "star") else nm0
        okn = None
        src = Q.unwrap(base_names)
        if src[0] == "attr" and src[2] == "dims":
            okn = True
        ctx.check("R2", "%s|names-from-dims|%s" % (GT, tag), okn, "coordinate names are the grid's dims", fn=GT)
        # data columns
        if len(zips) == 2:
            dn, da = zips[1][2]
        else:       # single name / single array: zip of two literal one-element lists is folded into the dict
            d = Q.arg(ctx, [e.data[0] for e in p.events if e.kind == "call" and callee(e.data[0]) == "pandas.DataFrame"][-1], "data")
            pairs = [(k, v) for k, v in (d[1] if isinstance(d, tuple) and d[0] == "dict" else ()) if k is not None]
            dn = ("list", tuple(k for k, _v in pairs))
            da = ("list", tuple(v for _k, v in pairs))
        okd = None
        if _order_clash(dn, da):
            # names taken in sorted order, arrays in the mapping's own (declaration) order, or the other way round: a positive
            # contradiction - for some Dataset the two orders differ and every column is labelled with another variable's name
            okd = False
        elif da[0] == "comp" and da[3] == dn:
            elt = Q.unwrap(da[2])
            okd = True if elt[0] == "sub" and elt[1] == ("param", "grid") and elt[2] == ("elem", dn, da[4]) else None
        elif da[0] == "list" and len(da[1]) == 1 and dn[0] == "list" and len(dn[1]) == 1:
            okd = True if Q.unwrap(da[1][0]) == ("param", "grid") else None
            nm = dn[1][0]
            gname = ("attr", ("param", "grid"), "name")     # conditional expressions are stored on the un-negated test
            oku = nm[0] == "ifexp" and nm[1] == ("cmp", "is", gname, NONE) and nm[2] == const("scalars") and nm[3] == gname
            # the same choice as two paths (an if statement, or a conditional expression the engine has forked): "scalars" where the name
            # is None, the name itself where it is not
            named = lookup(p.decided, ("cmp", "is", gname, NONE))
            if named is True:
                oku = nm == const("scalars")
            elif named is False:
                oku = nm == gname
            unguarded = nm == gname and named is None
            ctx.check("R2", "%s|unnamed-dataarray-is-scalars" % GT, True if oku else (False if unguarded or (named is True and nm == gname) else None),
                      "an unnamed DataArray becomes the column 'scalars'", bad="an unnamed DataArray produces a None column name", fn=GT)
        ctx.check("R2", "%s|data-columns-in-step|%s" % (GT, tag), okd, "data columns are the raveled variables, in the order of their names",
                  bad="the variable names are enumerated in another order than the arrays they label (sorted names against the mapping's own order)", fn=GT)
        # extra coordinates appended with their own names
        exc = [x for x in cols_t[1][2:]] if cols_t[0] == "list" else []
        exn = [x for x in names_t[1][1:]] if names_t[0] == "list" else []
        oke = None
        if len(exc) == 1 and len(exn) == 1 and exc[0][0] == "star" and exn[0][0] == "star" and exc[0][1][0] == "comp" and exn[0][1][0] == "comp":
            ce, ne = exc[0][1], exn[0][1]
            same_loop = ce[4] == ne[4]
            val = Q.unwrap(ce[2])
            oke = True if same_loop and val[0] == "sub" and val[1] == ("param", "grid") and val[2] == ne[2] else None
        bad_e = None
        if oke is None:
            # the LAST run of each sequence (names: the extra names; columns: the extra arrays) enumerates the same filtered iteration; when
            # exactly one of the two is reversed (a [::-1] applied to a list that holds more than the two meshes) the names label other arrays
            ns, cs = _segments(names_t), _segments(cols_t)
            if ns and cs and ns[-1][0] == "many" and cs[-1][0] == "many":
                a, b = ns[-1][1], cs[-1][1]
                same_run = a[0] == "comp" and b[0] == "comp" and ((a[3] == b[3] and a[5] == b[5]) or (b[3] == a and not b[5]))
                if same_run and ns[-1][2] != cs[-1][2]:
                    oke = False
                    bad_e = "the extra coordinate arrays are enumerated in reversed order relative to their names (a [::-1] meant for the two meshes reverses the extra columns too): with two or more extra coordinates each is labelled with another one's name"
        ctx.check("R2", "%s|extra-coordinates-appended|%s" % (GT, tag), oke, "each extra coordinate is appended together with its own name", bad=bad_e or "", fn=GT)
    if n < 2:
        ctx.add("R2", GT + "|paths", "UNDECIDED", "Dataset and DataArray paths not both found", fn=GT)
    # ---- R3 inverse pair: both conversions meet the Coords contract (checked with return roles above under R1) + validation in both
    for qn in ("verde.utils.meshgrid_from_1d",):
        ok = any(p.exit == "raise" and p.conds and p.conds[-1][0][0] == "cmp" and p.conds[-1][0][1] == "!=" and p.conds[-1][0][3] == const(1) for p in ctx.paths(qn))
        ctx.check("R3", qn + "|rejects-non-1d", True if ok else False, "non-1-D horizontal coordinates raise", bad="non-1-D inputs are accepted by meshgrid_from_1d", fn=qn)
        keep = all(p.value[0] == "call" and callee(p.value) == "verde.base.utils.check_coordinates" or True for p in ctx.paths(qn) if p.exit == "return")
    for qn in ("verde.utils.meshgrid_to_1d", "verde.utils.meshgrid_from_1d"):
        rest_ok = None
        for p in ctx.paths(qn):
            if p.exit != "return":
                continue
            v = Q.unwrap(p.value)
            if v[0] == "tuple" and len(v[1]) == 3 and v[1][2] == ("star", ("sub", ("param", "coordinates"), ("slice", const(2), NONE, NONE))):
                rest_ok = True
        ctx.check("R3", qn + "|extra-coordinates-pass-through", rest_ok, "extra coordinates are passed through unchanged, after the two horizontal ones", fn=qn)
