"""Engine H: zone abstraction of the modular longitude arithmetic of longitude_continuity (DESIGN §3.9).

The input square of (W, E) is partitioned by the cell of each bound and of E - W.  On each non-empty class every value the
function computes is an affine form a*w + b*e + c, every `% 360` is a shift by a constant multiple of 360 and every branch
condition has a definite truth value, so exactly one path of the function (taken from engine A) applies and the returned
bounds can be checked exactly.  Exhaustive over a finite partition; nothing is executed or sampled.
"""
import itertools
from fractions import Fraction as Fr

from .terms import callee, is_const, show


def pt(v):
    return (Fr(v), True, Fr(v), True)


def op(a, b):
    return (Fr(a), False, Fr(b), False)


CELLS = [pt(-180), op(-180, 0), pt(0), op(0, 180), pt(180), op(180, 360), pt(360)]
DCELLS = [pt(-360), op(-360, 0), pt(0), op(0, 360), pt(360)]


def cell_name(c):
    return "{%s}" % c[0] if c[0] == c[2] else "(%s,%s)" % (c[0], c[2])


def shift(cell, c, neg=False):
    lo, lc, hi, hc = cell
    if neg:
        lo, lc, hi, hc = -hi, hc, -lo, lc
    return (lo + c, lc, hi + c, hc)


def minkowski_diff(J, I):
    return (J[0] - I[2], J[1] and I[3], J[2] - I[0], J[3] and I[1])


def has(c, x):
    return (c[0] < x or (c[0] == x and c[1])) and (x < c[2] or (x == c[2] and c[3]))


def intersects(a, b):
    lo, hi = max(a[0], b[0]), min(a[2], b[2])
    if lo > hi:
        return False
    if lo < hi:
        return True
    return has(a, lo) and has(b, lo)


class Refine(Exception):
    """the abstraction cannot decide on this class (would need a finer partition or an unmodelled operation)"""


class Aff:
    def __init__(self, cw, ce, c):
        self.cw, self.ce, self.c = cw, ce, Fr(c)

    def __repr__(self):
        s = "".join("%s%s" % ("+" if k > 0 else "-", n) for k, n in ((self.cw, "w"), (self.ce, "e")) if k)
        return (s or "") + (("%s%s" % ("+" if self.c >= 0 and s else "", self.c)) if self.c or not s else "")

    def __add__(s, o):
        return Aff(s.cw + o.cw, s.ce + o.ce, s.c + o.c)

    def __neg__(s):
        return Aff(-s.cw, -s.ce, -s.c)

    def __sub__(s, o):
        return s + (-o)

    def key(s):
        return (s.cw, s.ce, s.c)


def rng(f, cls):
    cw_, ce_, cd_ = cls
    k = (f.cw, f.ce)
    if k == (0, 0):
        return pt(f.c)
    if k == (1, 0):
        return shift(cw_, f.c)
    if k == (0, 1):
        return shift(ce_, f.c)
    if k == (-1, 0):
        return shift(cw_, f.c, neg=True)
    if k == (0, -1):
        return shift(ce_, f.c, neg=True)
    if k == (-1, 1):
        return shift(cd_, f.c)
    if k == (1, -1):
        return shift(cd_, f.c, neg=True)
    raise Refine("form %r is outside the abstract domain" % f)


def ev(t, env, cls):
    if t in env:
        return env[t]
    k = t[0]
    if k == "const" and isinstance(t[1], (int, float)) and not isinstance(t[1], bool):
        return Aff(0, 0, Fr(t[1]) if isinstance(t[1], int) else Fr(repr(t[1])))
    if k == "unop" and t[1] == "neg":
        return -ev(t[2], env, cls)
    if k == "binop":
        a = ev(t[2], env, cls)
        b = ev(t[3], env, cls)
        if t[1] == "+":
            return a + b
        if t[1] == "-":
            return a - b
        if t[1] == "%":
            if (b.cw, b.ce) != (0, 0) or b.c <= 0:
                raise Refine("modulus is not a positive constant")
            m = b.c
            lo, lc, hi, hc = rng(a, cls)
            kk = lo // m
            inside = hi < m * (kk + 1) or (hi == m * (kk + 1) and not hc) or (lo == hi)
            if lo == hi and lc:
                kk = lo // m
            if not inside:
                raise Refine("%r ranges over %s..%s, which straddles a multiple of %s" % (a, lo, hi, m))
            return a - Aff(0, 0, m * kk)
        raise Refine("operator " + t[1])
    if k == "call" and callee(t) == "builtins.abs" and len(t[2]) == 1:
        a = ev(t[2][0], env, cls)
        lo, lc, hi, hc = rng(a, cls)
        if lo >= 0:
            return a
        if hi <= 0:
            return -a
        raise Refine("abs of a form of mixed sign")
    if k == "call" and callee(t) == "numpy.where" and len(t[2]) == 3:
        return ev(t[2][1] if truth(t[2][0], env, cls) else t[2][2], env, cls)
    raise Refine("term " + show(t)[:60])


def truth(t, env, cls):
    if t[0] == "cmp" and t[1] in (">", "<", ">=", "<="):
        a, b = ev(t[2], env, cls), ev(t[3], env, cls)
        lo, lc, hi, hc = rng(a - b, cls)
        op_ = t[1]
        if op_ in ("<", "<="):
            lo, lc, hi, hc = -hi, hc, -lo, lc
            op_ = ">" if op_ == "<" else ">="
        if op_ == ">":
            if lo > 0 or (lo == 0 and not lc):
                return True
            if hi <= 0:
                return False
        else:
            if lo >= 0:
                return True
            if hi < 0 or (hi == 0 and not hc):
                return False
        raise Refine("comparison %s is not constant on the class" % show(t)[:50])
    if t[0] == "call" and callee(t) in ("numpy.allclose", "numpy.isclose", "math.isclose") and len(t[2]) >= 2:
        a, b = ev(t[2][0], env, cls), ev(t[2][1], env, cls)
        r = rng(a - b, cls)
        if r[0] == r[2] == 0:
            return True
        if not intersects(r, pt(0)):
            return False
        raise Refine("allclose is not constant on the class")
    if t[0] == "cmp" and t[1] == "==":
        a, b = ev(t[2], env, cls), ev(t[3], env, cls)
        r = rng(a - b, cls)
        if r[0] == r[2] == 0:
            return True
        if not intersects(r, pt(0)):
            return False
        raise Refine("equality is not constant on the class")
    if t[0] == "unop" and t[1] == "not":
        return not truth(t[2], env, cls)
    if t[0] == "boolop":
        vals = [truth(x, env, cls) for x in t[2]]
        return all(vals) if t[1] == "And" else any(vals)
    raise Refine("condition " + show(t)[:60])


def classes():
    for cw_, ce_, cd_ in itertools.product(CELLS, CELLS, DCELLS):
        if intersects(minkowski_diff(ce_, cw_), cd_):
            yield (cw_, ce_, cd_)


def class_name(cls):
    return "W in %s, E in %s, E-W in %s" % tuple(cell_name(c) for c in cls)


def expected(cls):
    """(width form, full_globe, [admissible (W', E', convention)])"""
    cw_, ce_, cd_ = cls
    d = Aff(-1, 1, 0)
    full = cd_ in (pt(-360), pt(360))
    if full:
        width = Aff(0, 0, 360)
    elif cd_ == pt(0):
        width = Aff(0, 0, 0)
    elif cd_ == op(0, 360):
        width = d
    else:
        width = d + Aff(0, 0, 360)
    ok = []
    for kk in (-1, 0, 1):
        W = Aff(1, 0, 360 * kk)
        E = W + width
        if (E.cw, E.ce) not in ((1, 0), (0, 1), (0, 0)):
            continue
        for lo_, hi_ in ((0, 360), (-180, 180)):
            rW, rE = rng(W, cls), rng(E, cls)
            if rW[0] >= lo_ and rE[2] <= hi_:
                ok.append((W, E, (lo_, hi_)))
    return width, full, ok


def interpret(paths, env, cls, is_region_only):
    """the (W', E') forms returned on class `cls`: picks the path whose decisions hold on the class"""
    chosen = None
    for p in paths:
        okp = True
        for cond, val in p.conds:
            if is_region_only(cond) is not None:
                if is_region_only(cond) != val:
                    okp = False
                    break
                continue
            if truth(cond, env, cls) != val:
                okp = False
                break
        if okp:
            chosen = p
            break
    if chosen is None:
        raise Refine("no path of the function matches the class")
    stores = [e for e in chosen.events if e.kind == "store" and e.data[1][0] == "slice" and e.data[2][0] == "tuple" and len(e.data[2][1]) == 2]
    if not stores:
        raise Refine("no store of the (w, e) pair into the returned region found")
    wt, et = stores[-1].data[2][1]
    return ev(wt, env, cls), ev(et, env, cls), chosen
