"""C15 - nearest-neighbour based results (DESIGN §4 C15)."""
from .. import q as Q
from ..paths import lookup
from ..terms import callee, canon, const, is_const, is_int, kw, show, walk, NONE
from . import common as K

EXPLANATION = ("literal/operator/tuple-position checks on every k-d tree query (k, element of the result, column drop, reduction axis, comparison), "
               "role agreement of tree and query, projection-label agreement of the two point sets, output-shape plumbing")
RULES = {
    "R1": "KNeighbors: tree_ and data_ come from the same fit call's coordinates[:2] and data (C-order); predict gathers data_[indices], indices = element 1 of "
          "tree_.query(points, k=self.k), reduces along axis=1, reshapes to the broadcast shape",
    "R2": "median_distance: projection (if any) applied to the raveled pair and the same pair used for tree and query; k = k_nearest + 1; distances = element 0; first column dropped; median over axis=1",
    "R3": "distance_mask: data and query coordinates both projected or both raw; tree on the data, query with the grid; element 0; distance <= maxdist; grid form returns grid.where(mask)",
    "R4": "_get_grid_coordinates: np.meshgrid(coords[dims[1]], coords[dims[0]]); neither argument raises",
}
ASSUMPTIONS = ["agreement with brute-force distances is SciPy's k-d tree contract (declined)"]
KN = "verde.neighbors.KNeighbors"
CFI = ("call", ("glob", "verde.base.utils.check_fit_input"), (("param", "coordinates"), ("param", "data"), ("param", "weights")), (), 0)


def bshape(co=("param", "coordinates")):
    return ("attr", ("call", ("glob", "numpy.broadcast"), (Q.sub(co, 0), Q.sub(co, 1)), (), 0), "shape")


def reshape_target(t):
    """(inner, shape) if t is inner.reshape(shape) / np.reshape(inner, shape)"""
    if Q.reshape_of(t) is not None:
        return Q.reshape_of(t)
    if t[0] == "call" and t[1][0] == "attr" and t[1][2] == "reshape" and len(t[2]) == 1:
        return t[1][1], t[2][0]
    if t[0] == "call" and callee(t) == "numpy.reshape" and len(t[2]) == 2:
        return t[2][0], t[2][1]
    return None, None


def point_order(ctx, qn, p, term):
    """axis order ('EN' / 'NE' / None) of a point set handed to a k-d tree or a query"""
    from .. import roles
    r = roles.Checker(ctx.pkg, p, qn).role(term)
    if isinstance(r, roles.A) and r.kind == "pm":
        return r.axis
    if isinstance(r, roles.Tup) and len(r.elts) >= 2 and all(isinstance(e, roles.A) and e.axis in ("E", "N") for e in r.elts[:2]):
        return r.elts[0].axis + r.elts[1].axis
    return None


def r1_kneighbors(ctx):
    K.roles_rule(ctx, "R1", [KN + ".fit", KN + ".predict"], with_return=False)
    orders = {}
    for p in ctx.paths(KN + ".fit"):
        for e in p.events:
            if e.kind == "setattr" and e.data[1] == "tree_" and e.data[2][0] == "call" and e.data[2][2]:
                orders.setdefault("fit", set()).add(point_order(ctx, KN + ".fit", p, e.data[2][2][0]))
    for p in ctx.paths(KN + ".predict"):
        for e in p.events:
            if e.kind == "call" and callee(e.data[0]) == ".query" and e.data[0][2]:
                orders.setdefault("predict", set()).add(point_order(ctx, KN + ".predict", p, e.data[0][2][0]))
    f, q = orders.get("fit", {None}), orders.get("predict", {None})
    ok = True if len(f) == 1 and f == q and None not in f else (False if None not in f and None not in q and f != q else None)
    ctx.check("R1", KN + "|tree-and-query-axis-order", ok, "fit builds the tree and predict queries it with the same (easting, northing) column order",
              bad="the tree is built on %s columns but queried with %s columns" % (sorted(f), sorted(q)), fn=KN + ".predict")
    qn = KN + ".fit"
    for p in ctx.paths(qn):
        if p.exit != "return":
            continue
        sets = {e.data[1]: e.data[2] for e in p.events if e.kind == "setattr" and e.data[0] == Q.SELF}
        tag = "weights" if lookup(p.decided, ("cmp", "is", ("param", "weights"), NONE)) is False else "noweights"
        tr = sets.get("tree_")
        want = ("sub", Q.sub(CFI, 0), ("slice", NONE, const(2), NONE))
        ok = None
        if tr is not None and tr[0] == "call" and callee(tr) == "verde.utils.kdtree" and tr[2]:
            arg = tr[2][0]
            ok = True if canon(arg) == canon(want) else None
            if canon(arg) == canon(Q.sub(CFI, 0)) or arg == ("param", "coordinates") or \
                    (arg[0] == "sub" and arg[1] in (Q.sub(CFI, 0), ("param", "coordinates")) and arg[2][0] == "slice" and arg[2] != ("slice", NONE, const(2), NONE) and arg[2] != ("slice", const(0), const(2), NONE)):
                ok = False
        why = "tree_ is built on reversed coordinates"
        if ok is False and tr is not None:
            why = "tree_ is built on %s, not on the first two coordinates: extra coordinates (height, time, ...) take part in the neighbour search" % show(tr[2][0])[:60]
        if tr is None and "data_" in sets:
            # data_ comes from this call, the tree from an earlier one: neighbours are looked up among the OLD points and their indices
            # are used to gather the NEW values
            ok, why = False, "a path of fit stores data_ but leaves tree_ as it was: after a refit the tree and the data belong to different point sets"
        ctx.check("R1", "%s|tree-on-validated-coordinates|%s" % (qn, tag), ok, "tree_ is built on the first two validated coordinates (E, N)", bad=why, fn=qn, line=p.line)
        d = sets.get("data_")
        okd = None
        if d is not None:
            src = Q.unwrap(d)
            okd = True if canon(src) == canon(Q.sub(CFI, 1)) else (False if canon(src) in (canon(Q.sub(CFI, 2)), canon(Q.sub(CFI, 0))) else None)
            from .c18 import order_args
            if order_args(d):
                okd = False
        if d is not None and okd is not False:
            from ..effects import Effects
            ef = getattr(ctx, "_effects", None)
            if ef is None:
                ef = ctx._effects = Effects(ctx.an)
            al = ef.aliases(d)
            copied = any(x[0] == "call" and (callee(x) in ("numpy.array", "numpy.copy", ".copy") or (callee(x) == ".astype")) for x in walk(d) if isinstance(x, tuple) and x)
            ctx.check("R1", "%s|data_-is-a-copy|%s" % (qn, tag), False if al and not copied else True, "data_ does not share memory with the array given to fit",
                      bad="data_ may be a view of the caller's %s (np.ravel / n_1d_arrays return views of contiguous input): changing that array after fit changes the predictions" % sorted(al), fn=qn)
        ctx.check("R1", "%s|data_-is-raveled-data|%s" % (qn, tag), okd, "data_ is the C-order ravel (copied) of the validated data", bad="data_ is not the C-order raveled data: %s" % (show(d)[:60] if d else None), fn=qn)
    qn = KN + ".predict"
    for p in ctx.paths(qn):
        if p.exit != "return":
            continue
        one_d = Q.eq_truth(p, lambda c: c[3] == const(1), last=True) is True
        tag = "k=1" if one_d else "k>1"
        qs = [e.data[0] for e in p.events if e.kind == "call" and callee(e.data[0]) == ".query"]
        if len(qs) != 1:
            ctx.add("R1", "%s|query|%s" % (qn, tag), "UNDECIDED", "expected one tree query", fn=qn)
            continue
        q = qs[0]
        ctx.check("R1", "%s|query-on-tree_|%s" % (qn, tag), True if q[1][1] == Q.self_attr("tree_") else None, "the fitted tree_ is queried", fn=qn)
        kq = Q.arg(ctx, q, "k")
        ctx.check("R1", "%s|k|%s" % (qn, tag), True if kq == Q.self_attr("k") else (False if kq is None or (isinstance(kq, tuple) and (is_const(kq) or Q.leaves(kq) == {Q.self_attr("k")})) else None),
                  "k = self.k neighbours are queried", bad="the query uses k=%s" % (show(kq) if isinstance(kq, tuple) else "1 (default)"), fn=qn)
        x = Q.arg(ctx, q, "x")
        wantx = ("call", ("glob", "numpy.transpose"), (("call", ("glob", "verde.base.utils.n_1d_arrays"), (("param", "coordinates"), const(2)), (), 0),), (), 0)
        okq = True if isinstance(x, tuple) and canon(x) == canon(wantx) else None
        whyq = ""
        if okq is None and isinstance(x, tuple):
            n1 = [y for y in walk(x) if isinstance(y, tuple) and y and y[0] == "call" and callee(y) == "verde.base.utils.n_1d_arrays"]
            if n1 and Q.arg(ctx, n1[0], "arrays") == ("param", "coordinates"):
                n_ = Q.arg(ctx, n1[0], "n")
                if isinstance(n_, tuple) and n_ != const(2):
                    okq, whyq = False, "the query uses n_1d_arrays(coordinates, %s): extra coordinates take part in the neighbour search (the tree holds easting and northing only)" % show(n_)[:40]
            elif x[0] == "call" and callee(x) in ("numpy.transpose", "numpy.column_stack") and x[2] and x[2][0] == ("param", "coordinates"):
                okq, whyq = False, "the query points are built from all the coordinates, not from the first two"
        ctx.check("R1", "%s|query-points|%s" % (qn, tag), okq, "query points are the C-order raveled first two query coordinates", bad=whyq, fn=qn)
        inner, shp = reshape_target(p.value)
        ctx.check("R1", "%s|output-shape|%s" % (qn, tag), True if shp is not None and canon(shp) == canon(bshape()) else (False if shp is not None and Q.leaves(shp) and not any(x_[0] == "call" and callee(x_) == "numpy.broadcast" for x_ in walk(shp)) else None),
                  "the result has the broadcast shape of the query easting/northing", bad="the result is reshaped to %s" % (show(shp)[:60] if shp else None), fn=qn)
        ok_red = ok_idx = ok_data = None
        if inner is not None and inner[0] == "call" and inner[1] == Q.self_attr("reduction"):
            ax = kw(inner, "axis")
            ok_red = True if ax == const(1) else (False if ax is None or is_const(ax) else None)
            vals = inner[2][0] if inner[2] else None
            gi, gshape = reshape_target(vals) if vals is not None else (None, None)
            if gi is not None and gi[0] == "sub" and gi[1] == Q.self_attr("data_"):
                ok_data = True
                idx = Q.unwrap(gi[2], funcs={"numpy.atleast_2d", "numpy.ravel"}, methods={"ravel"})
                def newaxis_only(ix):
                    return ix[0] == "tuple" and all(x == ("slice", NONE, NONE, NONE) or x == NONE or (x[0] == "glob" and x[1] == "numpy.newaxis") for x in ix[1])
                while (idx[0] == "attr" and idx[2] == "T") or (idx[0] == "sub" and newaxis_only(idx[2])) or (idx[0] == "call" and callee(idx) == "numpy.transpose" and len(idx[2]) == 1 and not idx[3]):
                    # np.atleast_2d(indices).T and indices[:, np.newaxis] both only add an axis
                    idx = Q.unwrap(idx[2][0] if idx[0] == "call" else idx[1], funcs={"numpy.atleast_2d", "numpy.ravel"}, methods={"ravel"})
                if idx[0] == "sub" and idx[1] == q and is_int(idx[2]):
                    ok_idx = True if idx[2][1] == 1 else False
            elif gi is not None and gi[0] == "sub":
                ok_data = False if Q.is_self_attr(gi[1]) else None
        # the reduced values must not be narrowed: mean / median of integer data is fractional
        nc = [x for x, k_ in Q.narrowing_casts(p.value) if k_ == "narrowing"] if isinstance(p.value, tuple) else []
        ctx.check("R1", "%s|prediction-not-narrowed|%s" % (qn, tag), False if nc else True, "the reduced values are returned in the dtype the reduction produced",
                  bad="the prediction is converted with %s: the mean or median of integer data is truncated to the data's dtype" % (show(nc[0])[:70] if nc else ""), fn=qn)
        ctx.check("R1", "%s|reduce-axis|%s" % (qn, tag), ok_red, "the reduction runs over the neighbours (axis=1)", bad="the reduction axis is %s" % (show(kw(inner, 'axis')) if inner and kw(inner, 'axis') else "the default"), fn=qn)
        ctx.check("R1", "%s|gathers-data_|%s" % (qn, tag), ok_data, "values are gathered from data_", bad="values are gathered from another attribute", fn=qn)
        ctx.check("R1", "%s|indices-element|%s" % (qn, tag), ok_idx, "indices = element 1 of the query result", bad="the gather index is element 0 (distances) of the query result", fn=qn)


def r2_median(ctx):
    qn = "verde.distances.median_distance"
    K.roles_rule(ctx, "R2", [qn], with_return=False, require={qn: [{"tree-query"}]})
    for p in ctx.paths(qn):
        if p.exit != "return":
            continue
        proj = lookup(p.decided, ("cmp", "is", ("param", "projection"), NONE)) is False
        tag = "proj" if proj else "noproj"
        trees = [e.data[0] for e in p.events if e.kind == "call" and callee(e.data[0]) == "verde.utils.kdtree"]
        qs = [e.data[0] for e in p.events if e.kind == "call" and callee(e.data[0]) == ".query"]
        if len(trees) != 1 or len(qs) != 1:
            ctx.add("R2", "%s|tree-and-query|%s" % (qn, tag), "UNDECIDED", "expected one tree and one query", fn=qn)
            continue
        t, q = trees[0], qs[0]
        pts = t[2][0] if t[2] else None
        x = Q.arg(ctx, q, "x")
        same = isinstance(x, tuple) and pts is not None and canon(Q.unwrap(x, funcs={"numpy.transpose"})) == canon(pts)
        lab_t = any(y[0] == "call" and y[1] == ("param", "projection") for y in walk(pts)) if pts else None
        lab_q = any(y[0] == "call" and y[1] == ("param", "projection") for y in walk(x)) if isinstance(x, tuple) else None
        ctx.check("R2", "%s|same-points-for-tree-and-query|%s" % (qn, tag), True if same else (False if lab_t is not None and lab_q is not None and lab_t != lab_q else None),
                  "the tree and the query use the same (projected or raw) point pair", bad="only one of tree/query uses the projected points", fn=qn)
        ctx.check("R2", "%s|projection-applied|%s" % (qn, tag), True if lab_t == proj else (False if lab_t is not None else None),
                  "the projection is applied exactly when one is given", bad="the projection is %s" % ("ignored" if proj else "applied without being given"), fn=qn)
        # the distances are horizontal: only easting and northing take part (n_1d_arrays(coordinates, 2)), extra coordinates are ignored
        flat = [y for y in walk(pts) if isinstance(y, tuple) and y and y[0] == "call" and callee(y) == "verde.base.utils.n_1d_arrays"] if pts else []
        okh = None
        if flat:
            n_ = Q.arg(ctx, flat[0], "n")
            okh = True if n_ == const(2) else (False if isinstance(n_, tuple) and (n_[0] == "call" and callee(n_) == "builtins.len" or (is_const(n_) and n_[1] != 2)) else None)
            if okh is False and proj and any(isinstance(y, tuple) and y and y[0] == "sub" and y[2] == ("slice", NONE, const(2), NONE) for y in walk(pts)):
                okh = None        # trimmed to two before the projection on this path
        ctx.check("R2", "%s|horizontal-coordinates-only|%s" % (qn, tag), okh, "the tree holds the first two coordinates only (extra coordinates such as height are ignored)",
                  bad="the tree is built on all the coordinates given: with an extra coordinate the distances are no longer horizontal", fn=qn)
        kq = Q.arg(ctx, q, "k")
        want = ("binop", "+", ("param", "k_nearest"), const(1))
        okk = True if isinstance(kq, tuple) and canon(kq) in (canon(want), canon(("binop", "+", const(1), ("param", "k_nearest")))) else \
            (False if kq == ("param", "k_nearest") or kq is None or (isinstance(kq, tuple) and Q.leaves(kq) == {("param", "k_nearest")}) else None)
        whyk = "the query uses k=%s" % (show(kq) if isinstance(kq, tuple) else kq)
        if okk is None and isinstance(kq, tuple) and kq[0] == "binop" and kq[1] == "+" and kq[3] == const(1) and kq[2][0] == "call" and callee(kq[2]) in ("builtins.min", "numpy.minimum") and len(kq[2][2]) == 2:
            # k_nearest clamped from above: every k_nearest up to (number of points - 1) is meaningful (all the other points), so a
            # bound of size - c is harmless for c <= 1 and silently shortens the neighbourhood for c >= 2
            a, b = kq[2][2]
            bound = b if a == ("param", "k_nearest") else (a if b == ("param", "k_nearest") else None)
            if bound is not None and bound[0] == "binop" and bound[1] == "-" and is_const(bound[3]) and isinstance(bound[3][1], int) and bound[2][0] == "attr" and bound[2][2] == "size":
                okk = True if bound[3][1] <= 1 else False
                whyk = "k_nearest is clamped to size - %d: asking for all the other points (k_nearest = size - 1) silently uses one neighbour fewer" % bound[3][1]
        ctx.check("R2", "%s|k-plus-one|%s" % (qn, tag), okk, "k_nearest + 1 neighbours are queried (the point itself is the first)", bad=whyk, fn=qn)
        inner, shp = reshape_target(p.value)
        ctx.check("R2", "%s|output-shape|%s" % (qn, tag), True if shp is not None and canon(shp) == canon(bshape()) else None, "the result has the broadcast shape of the input", fn=qn)
        ok_ax = ok_el = ok_col = None
        if inner is not None and inner[0] == "call" and callee(inner) in ("numpy.median", "numpy.nanmedian", "numpy.mean"):
            ok_fn = callee(inner) == "numpy.median"
            ctx.check("R2", "%s|median|%s" % (qn, tag), True if ok_fn else False, "the median of the distances is taken", bad="%s is used instead of the median" % callee(inner), fn=qn)
            ax = Q.arg(ctx, inner, "axis")
            ok_ax = True if ax == const(1) else (False if ax is None or (isinstance(ax, tuple) and is_const(ax)) else None)
            kd = inner[2][0] if inner[2] else None
            if kd is not None and kd[0] == "sub" and kd[2][0] == "tuple" and len(kd[2][1]) == 2:
                rows, cols = kd[2][1]
                if rows == ("slice", NONE, NONE, NONE) and cols[0] == "slice":
                    ok_col = True if cols == ("slice", const(1), NONE, NONE) else (False if cols in (("slice", NONE, const(-1), NONE), ("slice", NONE, NONE, NONE), ("slice", const(0), NONE, NONE)) else None)
                src = kd[1]
                if src[0] == "sub" and src[1] == q and is_int(src[2]):
                    ok_el = True if src[2][1] == 0 else False
            elif kd is not None and kd[0] == "sub" and kd[1] == q:
                ok_col = False
        ctx.check("R2", "%s|axis|%s" % (qn, tag), ok_ax, "the median runs over the neighbours (axis=1)", bad="the median axis is not 1", fn=qn)
        ctx.check("R2", "%s|distances-element|%s" % (qn, tag), ok_el, "distances = element 0 of the query result", bad="element 1 (indices) of the query result is used as distances", fn=qn)
        ctx.check("R2", "%s|self-column-dropped|%s" % (qn, tag), ok_col, "the first (self, zero-distance) column is dropped: [:, 1:]", bad="the self-distance column is not the one dropped", fn=qn)


def r3_distance_mask(ctx):
    qn = "verde.mask.distance_mask"
    K.roles_rule(ctx, "R3", [qn], with_return=False, require={qn: [{"tree-query"}]})
    for p in ctx.paths(qn):
        if p.exit != "return":
            continue
        proj = lookup(p.decided, ("cmp", "is", ("param", "projection"), NONE)) is False
        grid = lookup(p.decided, ("cmp", "is", ("param", "grid"), NONE)) is False
        tag = "%s,%s" % ("proj" if proj else "noproj", "grid" if grid else "array")
        trees = [e.data[0] for e in p.events if e.kind == "call" and callee(e.data[0]) == "verde.utils.kdtree"]
        qs = [e.data[0] for e in p.events if e.kind == "call" and callee(e.data[0]) == ".query"]
        if len(trees) != 1 or len(qs) != 1:
            ctx.add("R3", "%s|tree-and-query|%s" % (qn, tag), "UNDECIDED", "expected one tree and one query", fn=qn)
            continue
        t, q = trees[0], qs[0]
        x = Q.arg(ctx, q, "x")
        has = lambda term: any(y[0] == "call" and y[1] == ("param", "projection") for y in walk(term))  # noqa: E731
        lt, lq = has(t[2][0]) if t[2] else None, has(x) if isinstance(x, tuple) else None
        ctx.check("R3", "%s|both-or-neither-projected|%s" % (qn, tag), True if lt == proj and lq == proj else (False if lt is not None and lq is not None else None),
                  "data and query coordinates are both %s" % ("projected" if proj else "raw"), bad="data projected: %s, query projected: %s (projection given: %s)" % (lt, lq, proj), fn=qn)
        on_data = t[2] and ("param", "data_coordinates") in Q.leaves(t[2][0]) and ("param", "coordinates") not in Q.leaves(t[2][0])
        q_grid = isinstance(x, tuple) and any(y[0] == "call" and callee(y) == "verde.mask._get_grid_coordinates" for y in walk(x)) and ("param", "data_coordinates") not in Q.leaves(x)
        ctx.check("R3", "%s|tree-on-data-query-with-grid|%s" % (qn, tag), True if on_data and q_grid else (False if t[2] and ("param", "data_coordinates") not in Q.leaves(t[2][0]) else None),
                  "the tree holds the data points and is queried with the grid points", bad="the tree is built on the query points", fn=qn)
        kq = Q.arg(ctx, q, "k")
        ctx.check("R3", "%s|nearest-only|%s" % (qn, tag), True if kq in (None, const(1)) else (False if isinstance(kq, tuple) and is_const(kq) else None), "the nearest data point is queried", bad="k=%s" % (show(kq) if isinstance(kq, tuple) else kq), fn=qn)
        v = p.value
        mask = v
        if grid:
            okw = v[0] == "call" and v[1] == ("attr", ("param", "grid"), "where") and len(v[2]) == 1
            ctx.check("R3", "%s|grid-form-returns-where(mask)|%s" % (qn, tag), True if okw else (False if v[0] == "call" and v[1][0] == "attr" and v[1][2] == "where" and v[2] and v[2][0][0] == "unop" else None),
                      "the grid form returns grid.where(mask)", bad="the grid is masked with the negated mask", fn=qn)
            mask = v[2][0] if okw else None
        okc = okel = oksh = None
        if mask is not None and mask[0] == "call" and callee(mask) in ("numpy.less_equal", "numpy.greater_equal", "numpy.less", "numpy.greater") and len(mask[2]) == 2 and not mask[3]:
            mask = ("cmp", {"less_equal": "<=", "greater_equal": ">=", "less": "<", "greater": ">"}[callee(mask).split(".")[1]], mask[2][0], mask[2][1])
        if mask is not None and mask[0] == "unop" and mask[1] in ("~", "not") and mask[2][0] == "cmp" and mask[2][1] in ("<", "<=", ">", ">="):
            # ~(d > m) is d <= m (distances are never NaN)
            mask = ("cmp", {"<": ">=", "<=": ">", ">": "<=", ">=": "<"}[mask[2][1]], mask[2][2], mask[2][3])
        if mask is not None and mask[0] == "unop" and mask[1] in ("~", "not"):
            okc = None
        if mask is not None and mask[0] == "cmp":
            lhs, rhs, op = mask[2], mask[3], mask[1]
            if rhs == ("param", "maxdist"):
                okc = True if op == "<=" else (False if op in ("<", ">", ">=") else None)
            elif lhs == ("param", "maxdist"):
                okc = True if op == ">=" else (False if op in ("<", ">", "<=") else None)
                lhs = rhs
            inner, shp = reshape_target(lhs)
            gshape = Q.sub(("call", ("glob", "verde.mask._get_grid_coordinates"), (("param", "coordinates"), ("param", "grid")), (), 0), 1)
            oksh = True if shp is not None and canon(shp) == canon(gshape) else None
            if inner is not None and inner[0] == "sub" and inner[1] == q and is_int(inner[2]):
                okel = True if inner[2][1] == 0 else False
        ctx.check("R3", "%s|closed-comparison|%s" % (qn, tag), okc, "mask = distance <= maxdist (closed)", bad="the mask uses a different comparison with maxdist", fn=qn)
        ctx.check("R3", "%s|distances-element|%s" % (qn, tag), okel, "distances = element 0 of the query result", bad="element 1 (indices) is compared with maxdist", fn=qn)
        ctx.check("R3", "%s|mask-shape|%s" % (qn, tag), oksh, "the mask has the shape of the query coordinates", fn=qn)


def r4_grid_coordinates(ctx):
    qn = "verde.mask._get_grid_coordinates"
    K.roles_rule(ctx, "R4", [qn], with_return=False, require={qn: [{"meshgrid-operands"}]})
    _both, neither = K.both_neither(ctx, qn, "coordinates", "grid")
    ctx.check("R4", qn + "|rejects-neither", neither, "neither coordinates nor grid raises", bad="neither coordinates nor grid is accepted", fn=qn)
    for p in ctx.paths(qn):
        if p.exit != "return":
            continue
        given = lookup(p.decided, ("cmp", "is", ("param", "coordinates"), NONE)) is False
        v = p.value
        if given:
            ok = v[0] == "tuple" and len(v[1]) == 2 and v[1][0] == ("param", "coordinates") and v[1][1] == ("attr", Q.sub(("param", "coordinates"), 0), "shape")
            ctx.check("R4", qn + "|given-coordinates", True if ok else None, "given coordinates are returned with their own shape", fn=qn)
        else:
            ok = v[0] == "tuple" and len(v[1]) == 2 and v[1][0][0] == "call" and callee(v[1][0]) == "numpy.meshgrid" and v[1][1] == ("attr", Q.sub(v[1][0], 0), "shape")
            ctx.check("R4", qn + "|grid-coordinates", True if ok else None, "grid coordinates are np.meshgrid of the grid's own coordinate vectors, with the mesh shape", fn=qn)
        okc = any(e.kind == "call" and callee(e.data[0]) == "verde.base.utils.check_coordinates" for e in p.events)
        ctx.check("R4", qn + "|check_coordinates|%s" % ("given" if given else "grid"), True if okc else False, "coordinates pass check_coordinates", bad="shape agreement is no longer checked", fn=qn)


def check(ctx):
    K.point_order_contract(ctx, "R1")
    r1_kneighbors(ctx)
    r2_median(ctx)
    r3_distance_mask(ctx)
    r4_grid_coordinates(ctx)
