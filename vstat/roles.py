"""Engine B: role / axis types - a "units of measure" checker for easting (E) vs northing (N) (DESIGN §3.3).

Roles are computed bottom-up over path terms; findings are raised only at typed sinks.  A finding is
(verdict, sink_kind, descriptor, explanation) with verdict True (agrees), False (definite axis clash), None (unknown).
"""
from . import contracts
from .terms import callee, canon, const, is_const, is_int, kw, show, walk, NONE


class A:
    __slots__ = ("kind", "axis")

    def __init__(self, kind, axis="-"):
        self.kind, self.axis = kind, axis

    def __repr__(self):
        return "%s[%s]" % (self.kind, self.axis)

    def __eq__(self, o):
        return isinstance(o, A) and (self.kind, self.axis) == (o.kind, o.axis)

    def __hash__(self):
        return hash((self.kind, self.axis))


class Tup:
    def __init__(self, elts, rest=None):
        self.elts, self.rest = list(elts), rest

    def __repr__(self):
        return "(" + ", ".join(map(repr, self.elts)) + (", *" + repr(self.rest) if self.rest is not None else "") + ")"

    def get(self, i):
        if -len(self.elts) <= i < len(self.elts) and (i >= 0 or self.rest is None):
            return self.elts[i]
        if i >= 0:
            return self.rest
        return None

    def __eq__(self, o):
        return isinstance(o, Tup) and self.elts == o.elts and self.rest == o.rest

    def __hash__(self):
        return hash((tuple(self.elts), self.rest))


def REGION():
    return Tup([A("lo", "E"), A("hi", "E"), A("lo", "N"), A("hi", "N")])


def COORDS():
    return Tup([A("arr", "E"), A("arr", "N")], A("arr", "X"))


def SHAPE():
    return Tup([A("cnt", "N"), A("cnt", "E")])


def SPACING():
    return Tup([A("sp", "N"), A("sp", "E")])


def DIMS():
    return Tup([A("name", "N"), A("name", "E")])


def POINT():
    return Tup([A("val", "E"), A("val", "N")], A("val", "X"))


# parameter roles, keyed by the package-wide parameter names (confirmed against the docstrings by check_docstrings)
PARAMS = {
    "region": REGION, "window_region": REGION,
    "shape": SHAPE, "dims": DIMS, "spacing": SPACING,
    "coordinates": COORDS, "data_coordinates": COORDS, "block_coordinates": COORDS, "force_coords": COORDS,
    "point1": POINT, "point2": POINT, "center": POINT,
    "pad": lambda: Tup([A("pad", "N"), A("pad", "E")]),
    "easting": lambda: A("arr", "E"), "northing": lambda: A("arr", "N"),
    "X": lambda: A("pm", "EN"),
    "longitude": lambda: A("arr", "E"), "latitude": lambda: A("arr", "N"),
}
DOC_ORDER = {   # phrases the docstring of a function taking this parameter must contain (specification drift -> exit 2)
    "region": ["W, E, S, N"],
    "shape": ["n_north, n_east", "(n_north, n_east)", "number of points in the South-North and West-East"],
    "dims": ["northing", "easting"],
}
RETURNS = {
    "verde.coordinates.get_region": REGION,
    "verde.coordinates.pad_region": REGION,
    "verde.projections.project_region": REGION,
    "verde.base.base_classes.get_instance_region": REGION,
    "verde.coordinates.shape_to_spacing": SPACING,
    "verde.coordinates.grid_coordinates": COORDS,
    "verde.coordinates.scatter_points": COORDS,
    "verde.utils.meshgrid_to_1d": COORDS,
    "verde.utils.meshgrid_from_1d": COORDS,
    "verde.base.utils.check_coordinates": None,   # identity
    "verde.coordinates.block_split": lambda: Tup([COORDS(), A("labels")]),
    "verde.coordinates.rolling_window": lambda: Tup([COORDS(), A("indices")]),
    "verde.coordinates.profile_coordinates": lambda: Tup([COORDS(), A("arr", "-")]),
    "verde.base.base_classes.project_coordinates": COORDS,
    "verde.mask._get_grid_coordinates": lambda: Tup([COORDS(), A("shape")]),
    "verde.io._read_surfer_header": lambda: Tup([A("id"), SHAPE(), REGION(), A("range")]),
    "verde.base.utils.check_fit_input": lambda: Tup([COORDS(), A("data"), A("wgt")]),
}
SAME = {"numpy.ravel", "numpy.atleast_1d", "numpy.asarray", "numpy.array", "numpy.squeeze", "numpy.copy",
        "verde.base.utils.check_coordinates", "builtins.tuple", "builtins.list", "builtins.float", "builtins.int",
        "numpy.ascontiguousarray", "numpy.asanyarray"}
COMPARABLE = {"arr", "val", "lo", "hi"}
SAME_METH = {"ravel", "copy", "reshape", "strip", "astype", "flatten", "dropna"}
SAME_ATTR = {"values", "T"}
PLAIN = {"arr", "lo", "hi", "val", "ext", "sp", "pad", "cnt"}
DERIVED_FUNCS = {"numpy.cos", "numpy.sin", "numpy.sqrt", "numpy.log", "numpy.hypot", "numpy.abs", "numpy.exp", "numpy.square",
                 "numpy.power", "builtins.abs"}


_DOC_DS = {}


def _documented_dataset(pkg, qual, param, depth=0):
    """the numpydoc entry of `param` (in the function, or - for an undocumented private helper - in the package functions that hand their own
    parameter on to it) says xarray.Dataset and not DataArray"""
    key = (id(pkg), qual, param)
    if key in _DOC_DS:
        return _DOC_DS[key]
    _DOC_DS[key] = False
    from . import contracts
    f = pkg.functions.get(qual)
    res = False
    if f is not None:
        entry = contracts.numpydoc_params(f.docstring()).get(param)
        if entry:
            res = "Dataset" in entry and "DataArray" not in entry
        elif depth < 2:
            import ast
            short = qual.rsplit(".", 1)[1]
            votes = []
            for g in pkg.functions.values():
                if g.qual == qual:
                    continue
                for n in ast.walk(g.node):
                    if isinstance(n, ast.Call) and ((isinstance(n.func, ast.Name) and n.func.id == short) or (isinstance(n.func, ast.Attribute) and n.func.attr == short)):
                        from .paths import _spread_keywords
                        n = _spread_keywords(n) or n          # f(**dict(grid=grid)) is f(grid=grid)
                        names = f.call_params if f.is_method else f.posparams
                        for i, a in enumerate(n.args):
                            if i < len(names) and names[i] == param and isinstance(a, ast.Name) and a.id in g.params:
                                votes.append(_documented_dataset(pkg, g.qual, a.id, depth + 1))
                        for k in n.keywords:
                            if k.arg == param and isinstance(k.value, ast.Name) and k.value.id in g.params:
                                votes.append(_documented_dataset(pkg, g.qual, k.value.id, depth + 1))
            res = bool(votes) and all(votes)
    _DOC_DS[key] = res
    return res


class Checker:
    def __init__(self, pkg, path, fnqual):
        self.pkg, self.path, self.q = pkg, path, fnqual
        self.decided = path.decided
        self.findings = []
        self.memo = {}

    # ------------------------------------------------------------------ findings
    def note(self, ok, kind, desc, detail=""):
        self.findings.append((ok, kind, desc, detail))

    def axes_agree(self, roles, kind, desc):
        axes = {r.axis for r in roles if isinstance(r, A) and r.axis in ("E", "N")}
        self.note(len(axes) <= 1, kind, desc, " ".join(map(repr, roles)))
        return next(iter(axes)) if len(axes) == 1 else "-"

    def is_dataset(self, base):
        """the function treats `base` as an xarray.Dataset on this path: it reads base.data_vars, or hasattr(base, "data_vars") was decided true"""
        for c, v in self.decided.items():
            if c[0] == "call" and callee(c) == "builtins.hasattr" and c[2] == (base, const("data_vars")):
                return bool(v)
        for e in self.path.events:
            for d in e.data:
                if isinstance(d, tuple) and any(x == ("attr", base, "data_vars") for x in walk(d) if isinstance(x, tuple)):
                    return True
        if base[0] == "param":
            return _documented_dataset(self.pkg, self.q, base[1])
        return False

    def scalar_path(self, name):
        """the path decided that the scalar-or-pair parameter `name` is a scalar"""
        for c, v in self.decided.items():
            if not v:
                continue
            if c[0] == "cmp" and c[1] == "==" and c[3] == const(1) and c[2][0] == "call" and callee(c[2]) == "builtins.len" \
                    and any(x == ("param", name) for x in walk(c[2])):
                return True
            if c[0] == "call" and callee(c) == "numpy.isscalar" and c[2] and c[2][0] == ("param", name):
                return True
        return False

    # ------------------------------------------------------------------ roles
    def role(self, t, env=None):
        env = env or {}
        key = (t, tuple(sorted((repr(k), repr(v)) for k, v in env.items()))) if env else t
        if key in self.memo:
            return self.memo[key]
        r = self._role(t, env)
        self.memo[key] = r
        return r

    def _role(self, t, env):
        k = t[0]
        if t in env:
            return env[t]
        if k == "param":
            n = t[1].lstrip("*")
            if n in PARAMS:
                if n in ("spacing", "pad") and self.scalar_path(n):
                    return A("sp" if n == "spacing" else "pad", "-")
                return PARAMS[n]()
            return None
        if k == "const":
            if t[1] in ("northing", "latitude"):
                return A("name", "N")
            if t[1] in ("easting", "longitude"):
                return A("name", "E")
            return A("const", "-")
        if k in ("tuple", "list"):
            roles = [self.role(e, env) for e in t[1]]
            if len(roles) == 2 and isinstance(roles[0], A) and roles[0].kind == "name" and isinstance(roles[1], A) and roles[1].axis in ("E", "N") \
                    and roles[1].kind in ("arr",):
                self.note(roles[0].axis == roles[1].axis, "name-array-pair", show(canon(t[1][0])),
                          "(dimension name, coordinate array) pair: %s" % roles)
            # a point (easting_k, northing_k) assembled from parallel arrays must take both values at the same position
            if len(t[1]) == 2 and all(x[0] == "sub" and is_int(x[2]) and x[1][0] == "sub" and is_int(x[1][2]) for x in t[1]):
                (e_, n_) = t[1]
                if e_[1][1] == n_[1][1] and e_[1][2] != n_[1][2] and isinstance(roles[0], A) and isinstance(roles[1], A) and {roles[0].axis, roles[1].axis} == {"E", "N"}:
                    self.note(e_[2] == n_[2], "point-index-alignment", show(canon(e_[1][1]))[:50],
                              "point built from position %s of the %s array and position %s of the %s array" % (e_[2][1], roles[0].axis, n_[2][1], roles[1].axis))
            out, rest = [], None
            for e, r in zip(t[1], roles):
                if e[0] == "star":
                    if isinstance(r, Tup) and rest is None and r.rest is None:
                        out.extend(r.elts)
                    elif isinstance(r, Tup) and not r.elts:
                        rest = r.rest
                    elif isinstance(r, Tup) and rest is None:
                        out.extend(r.elts)
                        rest = r.rest
                    else:
                        rest = rest if rest is not None else A("arr", "X")
                else:
                    out.append(r)
            return Tup(out, rest)
        if k == "dict":
            for kk, vv in t[1]:
                if kk is None:
                    self.role(vv, env)
                    continue
                rk, rv = self.role(kk, env), self.role(vv, env)
                if isinstance(rk, A) and rk.kind == "name" and isinstance(rv, A) and rv.axis in ("E", "N") and rv.kind == "arr":
                    self.note(rk.axis == rv.axis, "dict-entry", "key=" + show(canon(kk)), "%s: %s   (%s -> %s)" % (rk, rv, show(kk), show(vv)[:60]))
                elif isinstance(rk, A) and rk.kind == "name" and rk.axis in ("E", "N") and rv is None:
                    self.note(None, "dict-entry", "key=" + show(canon(kk)), "%s: unknown role of %s" % (rk, show(vv)[:60]))
            return A("dict")
        if k == "star":
            return self.role(t[1], env)
        if k == "sub":
            return self.sub(t, env)
        if k == "attr":
            if t[2] in SAME_ATTR:
                return self.role(t[1], env)
            if t[2] in ("dims", "sizes"):
                # the dims of a DataArray (or of one variable of a Dataset) are that variable's axes, in order.  Dataset.dims / Dataset.sizes
                # list the dimensions of ALL variables in order of first appearance (coordinates included): not an axis order of the data
                if t[2] == "sizes" or self.is_dataset(t[1]):
                    return None
                return DIMS()
            if t[2] == "coords":
                return A("coordmap")
            if t[2] == "shape" and t[1] == ("param", "grid"):
                return SHAPE()
            return None
        if k == "elem":
            r = self.role(t[1], env)
            if isinstance(r, Tup) and r.elts and all(e == r.elts[0] for e in r.elts) and (r.rest is None or r.rest == r.elts[0]):
                return r.elts[0]
            if isinstance(r, Tup) and not r.elts and r.rest is not None:
                return r.rest
            return None
        if k == "idx":
            return A("index")
        if k == "prev":
            return self.role(t[3], env)
        if k == "mu":
            r0 = self.role(t[3], env)
            if isinstance(r0, Tup):
                return Tup(r0.elts, r0.rest if r0.rest is not None else A("arr", "X"))
            return r0
        if k == "comp":
            return self.comp(t, env)
        if k == "binop":
            return self.binop(t, env)
        if k == "ifexp":
            a, b = self.role(t[2], env), self.role(t[3], env)
            return a if a == b else None
        if k == "call":
            return self.call(t, env)
        if k == "unop" and t[1] in ("neg", "pos"):
            return self.role(t[2], env)
        if k == "unop" and t[1] in ("~", "not"):
            self.role(t[2], env)
            return None
        if k == "cmp" and t[1] in ("<", "<=", ">", ">="):
            # an ordering comparison between two quantities measured along different horizontal axes is a unit error
            a, b = self.role(t[2], env), self.role(t[3], env)
            if isinstance(a, A) and isinstance(b, A) and a.axis in ("E", "N") and b.axis in ("E", "N") and a.kind in COMPARABLE and b.kind in COMPARABLE:
                self.note(a.axis == b.axis, "compare", "%s between %s and %s" % (t[1], a.kind, b.kind), "%s %s %s   in %s" % (a, t[1], b, show(t)[:90]))
            return None
        if k == "boolop":
            for x in t[2]:
                self.role(x, env)
            return None
        return None

    def sub(self, t, env):
        base = self.role(t[1], env)
        idx = t[2]
        if isinstance(base, Tup):
            if is_int(idx):
                return base.get(idx[1])
            if idx[0] == "slice" and all(is_const(x) for x in idx[1:]):
                lo, hi, st = (x[1] for x in idx[1:])
                if st == -1 and lo is None and hi is None:
                    if base.rest is None:
                        return Tup(base.elts[::-1])
                    return None
                if st in (None, 1):
                    if (lo is None or lo >= 0) and (hi is None or hi >= 0):
                        els = base.elts[slice(lo, hi)]
                        rest = base.rest if hi is None or hi > len(base.elts) else None
                        return Tup(els, rest)
            return None
        if isinstance(base, A) and base.kind == "coordmap":
            n = self.role(idx, env)
            return A("arr", n.axis) if isinstance(n, A) and n.kind == "name" else None
        if isinstance(base, A) and base.kind == "table":
            n = self.role(idx, env)
            return A("arr", n.axis) if isinstance(n, A) and n.kind == "name" else None
        if isinstance(base, A) and base.kind == "pm" and idx[0] == "tuple" and len(idx[1]) == 2 and is_int(idx[1][1]) and idx[1][0][0] == "slice":
            j = idx[1][1][1]
            return A("arr", base.axis[j]) if 0 <= j < len(base.axis) else None
        if isinstance(base, A) and base.kind == "arr" and idx[0] == "tuple" and len(idx[1]) == 2:
            a, b = idx[1]
            if is_int(a) and b[0] == "slice":      # X[k, :] varies along columns = easting direction
                self.note(base.axis != "N", "mesh-slice", "row [k, :] of " + show(canon(t[1]))[:50], "row slice taken from a %s" % base)
                return A("arr", base.axis)
            if a[0] == "slice" and is_int(b):      # X[:, k] varies along rows = northing direction
                self.note(base.axis != "E", "mesh-slice", "column [:, k] of " + show(canon(t[1]))[:50], "column slice taken from a %s" % base)
                return A("arr", base.axis)
            if a[0] == "slice" and b == NONE or a == NONE and b[0] == "slice":
                return base
        if isinstance(base, A) and base.kind == "arr":
            return A("arr", base.axis)
        return None

    def comp(self, t, env):
        elt, it, lid = t[2], t[3], t[4]
        # positions of a zip / enumerate / plain iteration
        srcs = None
        if it[0] == "call" and callee(it) == "builtins.zip":
            srcs = list(it[2])
        elif it[0] == "call" and callee(it) == "builtins.enumerate" and it[2]:
            srcs = [it[2][0]]
        else:
            srcs = [it]
        rs = [self.role(s, env) for s in srcs]
        tups = [r for r in rs if isinstance(r, Tup)]
        if tups and all(r.rest is None for r in tups):
            n = min(len(r.elts) for r in tups)
            out = []
            for i in range(n):
                e2 = dict(env)
                for s, r in zip(srcs, rs):
                    if isinstance(r, Tup):
                        e2[("elem", s, lid)] = r.get(i)
                e2[("idx", lid)] = A("index")
                out.append(self.role(elt, e2))
            return Tup(out)
        if tups:
            # open tuples: fixed prefix + rest
            n = min(len(r.elts) for r in tups)
            out = []
            for i in range(n):
                e2 = dict(env)
                for s, r in zip(srcs, rs):
                    if isinstance(r, Tup):
                        e2[("elem", s, lid)] = r.get(i)
                out.append(self.role(elt, e2))
            e2 = dict(env)
            for s, r in zip(srcs, rs):
                if isinstance(r, Tup):
                    e2[("elem", s, lid)] = r.rest
            return Tup(out, self.role(elt, e2))
        return Tup([], self.role(elt, env))

    def binop(self, t, env):
        op, a, b = t[1], self.role(t[2], env), self.role(t[3], env)
        if isinstance(a, Tup) or isinstance(b, Tup):
            if op == "+" and isinstance(a, Tup) and isinstance(b, Tup):
                if a.rest is None:
                    return Tup(a.elts + b.elts, b.rest)
                return Tup(a.elts, a.rest)
            if op == "+" and isinstance(a, Tup) and b is None:
                return Tup(a.elts, a.rest if a.rest is not None else A("arr", "X"))
            return None
        ka, kb = getattr(a, "kind", None), getattr(b, "kind", None)
        xa, xb = getattr(a, "axis", "-"), getattr(b, "axis", "-")
        if op in ("+", "-") and ka in PLAIN and kb in PLAIN and xa in ("E", "N") and xb in ("E", "N"):
            self.note(xa == xb, "arith", "%s between %s and %s" % (op, ka, kb), "%s %s %s   in %s" % (a, op, b, show(t)[:90]))
        if op == "-" and ka == "hi" and kb == "lo":
            return A("ext", xa if xa == xb else "mixed")
        if op == "-" and ka in ("val", "arr") and kb in ("val", "arr") and xa == xb:
            return A("val" if ka == kb == "val" else "arr", xa)
        if op in ("+", "-") and ka in ("lo", "hi", "val", "arr", "cnt", "ext"):
            if kb == "derived" and ka == "val":
                return A("arr", xa)
            return A(ka, xa)
        if op == "/" and ka == "ext" and kb == "cnt":
            self.note(xa == xb, "arith", "extent / count", "%s / %s   in %s" % (a, b, show(t)[:90]))
            return A("sp", xa)
        if op in ("/", "*") and kb in ("const", "index", None) and a is not None and op == "/":
            return a
        if op == "*" and ka in ("arr",) and kb in ("const", None) and xa == "X":
            return a
        if op == "*" and ka == "cnt" and kb == "sp" or op == "*" and ka == "sp" and kb == "cnt":
            return A("ext", xa if xa == xb or xb == "-" else ("mixed" if xa != "-" else xb))
        axes = {x for x in (xa, xb) if x in ("E", "N", "mixed")}
        return A("derived", axes.pop() if len(axes) == 1 else ("mixed" if axes else "-"))

    def region_arg(self, q, r, desc_term):
        want = REGION()
        name = q.rsplit(".", 1)[1]
        if isinstance(r, Tup) and len(r.elts) == 4 and all(isinstance(e, A) for e in r.elts):
            ok = all(e.axis == w.axis and e.kind == w.kind for e, w in zip(r.elts, want.elts))
            kinds_ok = all(e.kind in ("lo", "hi", "val") for e in r.elts)
            if not ok and not kinds_ok:
                ok = None
            self.note(ok, "region-arg", name, "%s receives %s as its region" % (name, r))
        else:
            self.note(None, "region-arg", name, "%s receives a region of unknown role: %s (%s)" % (name, r, show(desc_term)[:80] if desc_term else ""))

    def call(self, t, env):
        f, args, kws = t[1], t[2], dict((k, v) for k, v in t[3] if k is not None)
        ra = []
        for a in args:
            rr = self.role(a, env)
            if a[0] == "star" and isinstance(rr, Tup) and rr.rest is None:
                ra.extend(rr.elts)
            else:
                ra.append(rr)
        rk = {k: self.role(v, env) for k, v in kws.items()}
        # named access independent of the positional/keyword spelling
        names = contracts.positional_names(self.pkg, t)
        if names is not None and not any(a[0] == "star" for a in args):
            for i, a in enumerate(args):
                if i < len(names) and names[i] not in kws:
                    kws[names[i]] = a
                    rk[names[i]] = self.role(a, env)
        if f[0] == "attr":
            base = self.role(f[1], env)
            m = f[2]
            if m in SAME_METH:
                return base
            if m == "_get_dims":
                return DIMS()
            if m in ("min", "max") and isinstance(base, A):
                return A("lo" if m == "min" else "hi", base.axis)
            if m == "uniform" and len(ra) >= 2:
                ax = self.axes_agree(ra[:2], "uniform-bounds", "uniform(lower, upper)")
                return A("arr", ax)
            if m in ("query", "query_ball_point") and isinstance(base, A) and base.kind == "tree":
                qr = ra[0] if ra else rk.get("x")
                if isinstance(qr, A) and qr.kind == "pm":
                    self.note(qr.axis == base.axis or ("?" in base.axis and None), "tree-query", m, "tree built on %s queried with %s" % (base.axis, qr.axis))
                else:
                    self.note(None, "tree-query", m, "tree=%s query role unknown (%s)" % (base, qr))
                return None
            if m == "readline":
                return A("line", "-")
            if m == "split":
                return base
            if m == "pop" and len(args) == 2:
                return ra[1]
            if m == "where":
                return base
            return None
        if f[0] != "glob":
            if f[0] == "param" and f[1] == "projection":
                two = ra[:2]
                if len(two) == 2 and all(isinstance(r, A) for r in two):
                    self.note(two[0].axis == "E" and two[1].axis == "N", "projection-args", "projection(easting, northing)", "%s" % two)
                else:
                    self.note(None, "projection-args", "projection(easting, northing)", "unknown roles %s for %s" % (two, show(t)[:80]))
                return Tup([A("arr", "E"), A("arr", "N")])
            return None
        q = f[1]
        if q in SAME:
            return ra[0] if ra else None
        if q in ("numpy.min", "numpy.max", "numpy.nanmin", "numpy.nanmax"):
            r = ra[0] if ra else None
            return A("lo" if "min" in q else "hi", r.axis) if isinstance(r, A) else None
        if q == "numpy.meshgrid":
            if len(ra) == 2 and all(isinstance(r, A) and r.axis in ("E", "N") for r in ra):
                ij = kws.get("indexing")
                if ij is not None and ij != const("xy"):
                    self.note(False if ij == const("ij") else None, "meshgrid-operands", "indexing", "indexing=%s" % show(ij))
                self.note(ra[0].axis == "E" and ra[1].axis == "N", "meshgrid-operands", "np.meshgrid(easting, northing)", "%s" % ra)
            else:
                self.note(None, "meshgrid-operands", "np.meshgrid(easting, northing)", "operand roles %s in %s" % (ra, show(t)[:80]))
            return Tup([A("arr", "E"), A("arr", "N")])
        if q == "numpy.linspace":
            ax = self.axes_agree(ra[:3], "linspace-args", "linspace(lo, hi, count)")
            return A("arr", ax)
        if q in ("numpy.transpose", "numpy.atleast_2d", "numpy.column_stack"):
            r = ra[0] if ra else None
            if isinstance(r, Tup) and len(r.elts) >= 2 and all(isinstance(e, A) and e.axis in ("E", "N") for e in r.elts[:2]):
                return A("pm", "".join(e.axis for e in r.elts[:2]))
            return r
        if q == "builtins.zip" and len(ra) == 2 and all(isinstance(x, Tup) for x in ra):
            for a_, b_ in zip(ra[0].elts, ra[1].elts):
                if isinstance(a_, A) and a_.kind == "name" and isinstance(b_, A) and b_.axis in ("E", "N"):
                    self.note(a_.axis == b_.axis, "zip-name-array", "%s" % a_, "zip pairs %s with %s" % (a_, b_))
            return None
        if q == "numpy.ones_like":
            return A("arr", "X")
        if q in ("numpy.greater_equal", "numpy.less_equal", "numpy.greater", "numpy.less"):
            if len(ra) >= 2 and all(isinstance(r, A) for r in ra[:2]):
                self.note(ra[0].axis == ra[1].axis if {ra[0].axis, ra[1].axis} <= {"E", "N"} else None, "bound-compare",
                          "%s(%s, %s)" % (q.split(".")[1], ra[0], ra[1].kind), "%s vs %s" % (ra[0], ra[1]))
            return A("mask")
        if q in DERIVED_FUNCS:
            axes = {r.axis for r in ra if isinstance(r, A) and r.axis in ("E", "N")}
            return A("derived", axes.pop() if len(axes) == 1 else "-")
        if q == "numpy.arctan2":
            if len(ra) >= 2 and all(isinstance(r, A) for r in ra[:2]):
                self.note((ra[0].axis == "N" and ra[1].axis == "E") if {ra[0].axis, ra[1].axis} <= {"E", "N"} else None,
                          "arctan2-args", "arctan2(d_north, d_east)", "%s" % ra[:2])
            else:
                self.note(None, "arctan2-args", "arctan2(d_north, d_east)", "%s" % ra[:2])
            return A("derived", "-")
        if q == "verde.utils.kdtree":
            r = ra[0] if ra else rk.get("coordinates")
            if isinstance(r, Tup) and len(r.elts) >= 2 and all(isinstance(e, A) for e in r.elts[:2]):
                return A("tree", "".join(e.axis for e in r.elts[:2]))
            return A("tree", "?")
        if q == "verde.base.utils.n_1d_arrays":
            r = ra[0] if ra else None
            n = args[1] if len(args) > 1 else kws.get("n")
            if isinstance(r, Tup) and n is not None and is_int(n):
                return Tup((r.elts + [r.rest] * 8)[: n[1]])
            return r
        if q == "verde.coordinates.line_coordinates":
            roles = ra[:2] + [rk[k] for k in ("size", "spacing") if k in rk] + ra[2:4]
            ax = self.axes_agree(roles, "line-args", "line_coordinates(start, stop, size, spacing)")
            return A("arr", ax)
        if q == "verde.coordinates.spacing_to_size":
            ax = self.axes_agree(ra[:3], "line-args", "spacing_to_size(start, stop, spacing)")
            return Tup([A("cnt", ax), A("hi", ax)])
        if q in ("verde.coordinates.grid_coordinates", "verde.coordinates.check_region", "verde.coordinates.scatter_points",
                 "verde.coordinates.shape_to_spacing", "verde.projections.project_region", "verde.coordinates.inside", "verde.coordinates.pad_region"):
            pos = {"verde.coordinates.inside": 1}.get(q, 0)
            r = ra[pos] if len(ra) > pos else rk.get("region")
            term = args[pos] if len(args) > pos else kws.get("region")
            self.region_arg(q, r, term)
            for kwn, want_kind in (("shape", "cnt"), ("spacing", "sp")):
                rr = rk.get(kwn)
                if isinstance(rr, Tup) and len(rr.elts) == 2 and all(isinstance(e, A) for e in rr.elts):
                    ok = rr.elts[0].axis in ("N", "-") and rr.elts[1].axis in ("E", "-")
                    self.note(ok, "shape-spacing-arg", q.rsplit(".", 1)[1] + " " + kwn, "%s= %s" % (kwn, rr))
            if q.endswith("inside"):
                return A("mask")
            return RETURNS[q]() if RETURNS.get(q) else None
        if q == "verde.coordinates.get_region":
            r = ra[0] if ra else None
            if isinstance(r, Tup) and len(r.elts) >= 2 and all(isinstance(e, A) for e in r.elts[:2]):
                self.note(r.elts[0].axis == "E" and r.elts[1].axis == "N", "coords-arg", "get_region", "get_region receives %s" % r)
            elif isinstance(r, Tup) and r.rest is not None and not r.elts:
                pass
            else:
                self.note(None, "coords-arg", "get_region", "get_region receives unknown role %s (%s)" % (r, show(t)[:80]))
            return REGION()
        if q in ("verde.coordinates.block_split", "verde.coordinates.rolling_window", "verde.base.base_classes.project_coordinates",
                 "verde.utils.meshgrid_to_1d", "verde.utils.meshgrid_from_1d", "verde.coordinates.expanding_window", "verde.utils.make_xarray_grid",
                 "verde.mask.convexhull_mask", "verde.mask.distance_mask"):
            r = ra[0] if ra else rk.get("coordinates")
            if isinstance(r, Tup) and len(r.elts) >= 2 and all(isinstance(e, A) for e in r.elts[:2]):
                self.note(r.elts[0].axis == "E" and r.elts[1].axis == "N", "coords-arg", q.rsplit(".", 1)[1], "%s receives %s" % (q.rsplit(".", 1)[1], r))
            if q.endswith("make_xarray_grid") and rk.get("dims") is not None:
                d = rk["dims"]
                if isinstance(d, Tup) and len(d.elts) == 2 and all(isinstance(e, A) and e.kind == "name" for e in d.elts):
                    self.note(d.elts[0].axis == "N" and d.elts[1].axis == "E", "dims-arg", "make_xarray_grid dims", "dims=%s" % d)
            if q == "verde.base.utils.check_coordinates":
                return r
            return RETURNS[q]() if RETURNS.get(q) else None
        if q == "verde.base.utils.check_coordinates":
            return ra[0] if ra else None
        if q in RETURNS and RETURNS[q]:
            return RETURNS[q]()
        if q == "pandas.DataFrame":
            return A("table")
        if q == "verde.utils.grid_to_table":
            return A("table")
        return None


def match(got, want):
    """True / False / None: does the role `got` meet contract `want`?"""
    if isinstance(want, A) and want.kind in ("labels", "indices", "shape", "id", "range", "data", "wgt"):
        return True
    if got is None:
        return None
    if isinstance(want, A):
        if not isinstance(got, A):
            return None
        if got.axis not in ("E", "N") and want.axis in ("E", "N"):
            return None if got.axis in ("-", "?") and got.kind in ("derived", "const") else (False if got.axis in ("mixed",) else None)
        if got.axis != want.axis:
            return False if got.axis in ("E", "N") and want.axis in ("E", "N", "X") and not (want.axis == "X") else (None if want.axis == "X" else False)
        if got.kind == want.kind or {got.kind, want.kind} <= {"arr", "val", "derived"} or got.kind == "derived":
            return True
        if {got.kind, want.kind} <= {"lo", "hi"}:
            return False
        return None
    if isinstance(want, Tup):
        if not isinstance(got, Tup):
            return None
        res = True
        for i, w in enumerate(want.elts):
            g = got.get(i)
            m = match(g, w)
            if m is False:
                return False
            if m is None:
                res = None
        return res
    return None


def check_paths(ctx, rule, qual, paths, ret=None, skip_kinds=(), only_kinds=None, require=(), sweep=False):
    """run the checker over every path of `qual`, recording one (soft) obligation per distinct typed sink found.
    `require`: iterable of sets of sink kinds; for each set at least one sink of one of its kinds must exist in the function,
    else an UNDECIDED obligation is recorded (a role rule that silently finds no sink would pass vacuously)."""
    n = 0
    kinds_seen = set()
    for p in paths:
        ck = Checker(ctx.pkg, p, qual)
        for ev in p.events:
            if ev.kind == "call":
                ck.role(ev.data[0])
            elif ev.kind == "store":
                ck.role(ev.data[2])
                if ev.data[3] == "container" and ev.data[0][0] == "dict":
                    ck.role(("dict", ((ev.data[1], ev.data[2]),)))
            elif ev.kind == "yield":
                ck.role(ev.data[0])
            elif ev.kind == "aug":
                ck.role(ev.data[3])
            # ordering comparisons are typed wherever they occur (mask expressions, index expressions, branch conditions)
            for d in ev.data:
                if isinstance(d, tuple):
                    for x in walk(d):
                        if isinstance(x, tuple) and x and x[0] == "cmp" and x[1] in ("<", "<=", ">", ">="):
                            ck.role(x)
        if p.exit == "return":
            got = ck.role(p.value)
            if ret is not None:
                want = ret()
                m = match(got, want)
                ck.note(m, "return", "role " + repr(want), "returns %s" % (got,))
        seen = set()
        for ok, kind, desc, detail in ck.findings:
            if kind in skip_kinds or (only_kinds is not None and kind not in only_kinds):
                continue
            key = "%s|%s|%s" % (qual, kind, desc)
            kinds_seen.add(kind)
            if sweep and ok is None:
                continue          # a package-wide sweep reports definite clashes only
            if (key, ok, detail) in seen:
                continue
            seen.add((key, ok, detail))
            n += 1
            ctx.check(rule, key, ok, "axis roles agree: " + detail, bad="axis/role clash: " + detail, fn=qual, line=None,
                      undecided="role unknown at a typed sink: " + detail, soft=True)
    for alt in require:
        alt = set(alt)
        ctx.check(rule, "%s|typed-sink-present|%s" % (qual, "/".join(sorted(alt))), True if kinds_seen & alt else None,
                  "the role checker found a typed sink of kind %s in this function (%d sinks in total)" % ("/".join(sorted(alt)), n), fn=qual,
                  undecided="no typed sink of kind %s was found in %s: the axis-role rule would pass vacuously" % ("/".join(sorted(alt)), qual.rsplit(".", 1)[-1]))
    return n
