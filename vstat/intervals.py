"""Definedness by interval abstract interpretation of a kernel branch (DESIGN §3.7, C03.R2)."""
import math

from .terms import callee, show

INF = float("inf")


class Bad(Exception):
    """the expression is definitely not finite on the interval"""


class Unmodelled(Exception):
    """the interval evaluator has no model for a sub-term (-> undecided, never a violation)"""


def _strip(t, masks):
    return t[1] if t[0] == "sub" and t[2] in masks else t


def iv(t, var, I, masks, env=None):
    """interval of term t when the designated sub-term `var` ranges over I (elementwise, masks transparent)"""
    env = env or {}
    if t == var:
        return I
    if t in env:
        return env[t]
    k = t[0]
    if k == "const" and isinstance(t[1], (int, float)) and not isinstance(t[1], bool):
        return (float(t[1]), float(t[1]))
    if k == "sub" and t[2] in masks:
        return iv(t[1], var, I, masks, env)
    if k == "unop" and t[1] == "neg":
        lo, hi = iv(t[2], var, I, masks, env)
        return (-hi, -lo)
    if k == "binop":
        op = t[1]
        if op == "**" and _strip(t[2], masks) == _strip(t[3], masks):
            lo, hi = iv(t[2], var, I, masks, env)
            if lo < 0:
                raise Bad("x**x with a negative base")
            if hi > 143:
                raise Bad("x**x overflows the double range for x up to %g" % hi)
            if hi <= 1:
                return (math.exp(-1 / math.e), 1.0)
            return (math.exp(-1 / math.e), max(1.0, hi ** hi))
        a, b = iv(t[2], var, I, masks, env), iv(t[3], var, I, masks, env)
        if op == "+":
            return (a[0] + b[0], a[1] + b[1])
        if op == "-":
            return (a[0] - b[1], a[1] - b[0])
        if op == "*":
            c = []
            for x in a:
                for y in b:
                    if (x in (INF, -INF) and y == 0) or (y in (INF, -INF) and x == 0):
                        raise Bad("0 * inf")
                    c.append(x * y)
            return (min(c), max(c))
        if op == "**" and b[0] == b[1] and b[0] == int(b[0]) and b[0] >= 0:
            n = int(b[0])
            try:
                c = [a[0] ** n, a[1] ** n] + ([0.0] if a[0] <= 0 <= a[1] else [])
            except OverflowError:
                raise Bad("power overflows the double range") from None
            if max(abs(x) for x in c) > 1e300:
                raise Bad("power overflows the double range")
            return (min(c), max(c))
        if op == "/":
            if b[0] <= 0 <= b[1]:
                raise Bad("division by an interval containing 0")
            c = [x / y for x in a for y in b]
            return (min(c), max(c))
        raise Unmodelled("operator " + op)
    if k == "call":
        name = callee(t)
        if name in ("numpy.log", "math.log") and len(t[2]) == 1:
            lo, hi = iv(t[2][0], var, I, masks, env)
            if lo <= 0:
                raise Bad("log of an interval reaching %g" % lo)
            return (math.log(lo), math.log(hi))
        if name in ("numpy.sqrt", "math.sqrt") and len(t[2]) == 1:
            lo, hi = iv(t[2][0], var, I, masks, env)
            if lo < 0:
                raise Bad("sqrt of a negative interval")
            return (math.sqrt(lo), math.sqrt(hi))
        if name == "numpy.square" and len(t[2]) == 1:
            return iv(("binop", "**", t[2][0], ("const", 2)), var, I, masks, env)
    raise Unmodelled("term " + show(t)[:50])
