"""C11 - blocked cross-validators never split a block and partition the data (DESIGN §4 C11)."""
from .. import q as Q
from ..nf import Builder, Space, Undecided, compare
from ..paths import lookup
from ..terms import callee, canon, const, is_const, is_int, kw, show, walk, NONE
from . import common as K
from .c20 import hidden_state_findings

EXPLANATION = ("provenance (dataflow) of every yielded test set: it is the pre-image, under the block labels, of a set of block ids; delegation of the train/test complement "
               "to scikit-learn; fold provenance; parameter forwarding; argmin of the balance; who-may-call check on random number generators")
RULES = {
    "R1": "every value yielded by _iter_test_indices is np.where(np.isin(labels, block_ids[S]))[0] with labels = block_split(X[:,0], X[:,1], spacing=self.spacing, shape=self.shape)[1] and block_ids = np.unique(labels)",
    "R2": "neither class overrides split; BaseBlockCrossValidator.split re-yields super().split(X, y, groups) unchanged after its column check (train = complement of test by scikit-learn)",
    "R3": "BlockKFold folds = np.split(arange(n_blocks), partition_by_sum(sizes, parts=self.n_splits)) or element 1 of KFold(n_splits=self.n_splits).split(block_ids); sizes[i] counts block_ids[i]",
    "R4": "BlockShuffleSplit: ShuffleSplit(n_splits * balancing, test_size, train_size, random_state) from the same-named attributes; exactly `balancing` draws per yielded split",
    "R5": "the yielded set is test_sets[argmin(balance)], balance = |train_pts/test_pts - train_blocks/test_blocks|, lists appended in step",
    "R6": "randomness only via check_random_state(self.random_state) or a forwarded random_state; no global-state RNG call in the package",
}
ASSUMPTIONS = ["balance quality and exact test-set sizes are value-level (declined); non-emptiness is claimed only through its necessary guard conditions (R7)",
               "sklearn BaseCrossValidator.split derives train as the complement of _iter_test_indices; KFold/ShuffleSplit.split yield (train, test)"]
MS = "verde.model_selection"
BSS, BKF = MS + ".BlockShuffleSplit", MS + ".BlockKFold"
BASE = "verde.base.base_classes.BaseBlockCrossValidator"
X = ("param", "X")
COL0 = ("sub", X, ("tuple", (("slice", NONE, NONE, NONE), const(0))))
COL1 = ("sub", X, ("tuple", (("slice", NONE, NONE, NONE), const(1))))


def block_split_ok(ctx, t, qn):
    """True/False/None: t is block_split((X[:,0], X[:,1]), spacing=self.spacing, shape=self.shape, ...)"""
    if t[0] != "call" or callee(t) != "verde.coordinates.block_split":
        return None, "not a block_split call"
    co = Q.arg(ctx, t, "coordinates")
    if co == ("tuple", (COL1, COL0)):
        return False, "block_split receives (X[:, 1], X[:, 0]): northing as easting"
    if co != ("tuple", (COL0, COL1)):
        return None, "coordinates are %s" % (show(co) if isinstance(co, tuple) else co)
    for nm in ("spacing", "shape"):
        v = Q.arg(ctx, t, nm)
        if v != Q.self_attr(nm):
            if v is None or (isinstance(v, tuple) and (is_const(v) or Q.is_self_attr(v))):
                return False, "block_split receives %s=%s instead of self.%s" % (nm, show(v) if isinstance(v, tuple) else v, nm)
            return None, "%s=%s" % (nm, v)
    r = Q.arg(ctx, t, "region")
    if r not in (None, NONE):
        return None, "region=%s" % show(r)
    return True, ""


def is_unique_of(t, labels):
    """t denotes the sorted unique block ids of `labels`: np.unique(labels) or element 0 of np.unique(labels, return_*=True)"""
    if t[0] == "call" and callee(t) == "numpy.unique" and t[2] and t[2][0] == labels:
        extra = [k for k, v in t[3] if k in ("return_counts", "return_index", "return_inverse") and v != const(False)]
        return not extra
    if t[0] == "sub" and t[2] == const(0) and t[1][0] == "call" and callee(t[1]) == "numpy.unique" and t[1][2] and t[1][2][0] == labels:
        return any(k in ("return_counts", "return_index", "return_inverse") and v == const(True) for k, v in t[1][3])
    return False


def preimage(ctx, t, qn):
    """(ok, selector, why): t == np.where(np.isin(labels, block_ids[S]))[0]"""
    # np.nonzero(m)[0] is np.where(m)[0]; np.flatnonzero(m) is the same for the 1-D label array block_split returns (C08.R4)
    if t[0] == "call" and callee(t) == "numpy.flatnonzero" and len(t[2]) == 1 and not t[3]:
        t = ("sub", ("call", ("glob", "numpy.where"), t[2], (), 0), const(0))
    elif t[0] == "sub" and t[1][0] == "call" and callee(t[1]) == "numpy.nonzero" and len(t[1][2]) == 1 and not t[1][3]:
        t = ("sub", ("call", ("glob", "numpy.where"), t[1][2], (), 0), t[2])
    if not (t[0] == "sub" and t[2] == const(0) and t[1][0] == "call" and callee(t[1]) == "numpy.where" and len(t[1][2]) == 1):
        if t[0] == "sub" and is_int(t[2]) and t[1][0] == "call" and callee(t[1]) == "numpy.where":
            return False, None, "element %d of np.where" % t[2][1]
        u = Q.unwrap(t)
        if u[0] == "elem" or (u[0] == "sub" and u[1][0] == "call" and callee(u[1]) == "builtins.next"):
            return False, None, "block-level split indices are yielded as point indices"
        return None, None, "not np.where(...)[0]: %s" % show(t)[:60]
    inner = t[1][2][0]
    if not (inner[0] == "call" and callee(inner) == "numpy.isin" and len(inner[2]) >= 2):
        return None, None, "np.where argument is not np.isin(...)"
    if kw(inner, "invert") == const(True):
        return False, None, "np.isin(..., invert=True): the complement of the chosen blocks is tested"
    if kw(inner, "assume_unique") == const(True) or (len(inner[2]) >= 3 and inner[2][2] == const(True)):
        # numpy: "assume_unique: if True, the input arrays are BOTH assumed to be unique".  The first operand is the per-point label array,
        # which repeats a block id for every further point of that block: the sort-based shortcut then marks only some points of a block
        return False, None, "np.isin(labels, ids, assume_unique=True): the per-point labels are not unique (a block with two points repeats its id), numpy's shortcut then selects only part of a block"
    labels, sel = inner[2][0], inner[2][1]
    if not (labels[0] == "sub" and is_int(labels[2]) and labels[1][0] == "call" and callee(labels[1]) == "verde.coordinates.block_split"):
        return None, None, "labels are not an element of a block_split result"
    if labels[2][1] != 1:
        return False, None, "labels are element %d of block_split (the block centres)" % labels[2][1]
    okb, whyb = block_split_ok(ctx, labels[1], qn)
    if okb is not True:
        return okb, None, whyb
    if sel[0] == "sub" and is_unique_of(sel[1], labels):
        return True, sel[2], ""
    if sel[0] == "elem" or (sel[0] == "sub" and sel[1][0] == "call" and callee(sel[1]) == "builtins.next") or not any(is_unique_of(x, labels) for x in walk(sel)):
        return False, sel, "test points are selected by positions (%s), not by block ids" % show(sel)[:60]
    return None, sel, "selector %s" % show(sel)[:60]


def r1_whole_blocks(ctx):
    for cq in (BSS, BKF):
        qn = cq + "._iter_test_indices"
        n = 0
        for p in ctx.paths(qn):
            if not p.normal:
                continue
            ys = [e for e in p.events if e.kind == "yield"]
            tag = Q.tags(p.conds) + ("/handler" if any(e.kind == "handler" for e in p.events) else "")
            if not ys:
                ctx.add("R1", "%s|yields|%s" % (qn, tag), "VIOLATED", "a normal path yields no test set", fn=qn, line=p.line)
                continue
            for e in ys:
                n += 1
                t = e.data[0]
                if t[0] == "sub" and (t[1][0] == "list" or (t[1][0] == "comp" and t[1][1] in ("list", "tuple"))):
                    # element of a list grown in the loop: every appended element must be a pre-image
                    if t[1][0] == "comp":
                        cands = [t[1][2]]
                    else:
                        cands = [x[1][2] for x in t[1][1] if x[0] == "star" and x[1][0] == "comp"] + [x for x in t[1][1] if x[0] != "star"]
                    res = [preimage(ctx, c, qn) for c in cands]
                    ok = True if res and all(r[0] is True for r in res) else (False if any(r[0] is False for r in res) else None)
                    why = "; ".join(r[2] for r in res if r[2])
                    sels = [r[1] for r in res]
                else:
                    ok, sel, why = preimage(ctx, t, qn)
                    sels = [sel]
                ctx.check("R1", "%s|yield-is-preimage-of-block-ids|%s" % (qn, tag), ok, "the yielded test set is np.where(np.isin(labels, block_ids[S]))[0]: whole blocks only",
                          bad="the yielded test set is not a union of whole blocks: " + why, fn=qn, line=e.line, undecided=why)
                # the selector is the test half of a split / a fold
                for s in sels:
                    if s is None:
                        continue
                    okt = None
                    if s[0] == "sub" and s[1][0] == "call" and callee(s[1]) == "builtins.next" and is_int(s[2]):
                        okt = True if s[2][1] == 1 else False
                    elif s[0] == "elem":
                        okt = True
                    elif s[0] == "sub" and s[1][0] == "elem" and is_int(s[2]) and s[1][1][0] == "call" and callee(s[1][1]) == ".split":
                        okt = True if s[2][1] == 1 else (False if s[2][1] == 0 else None)      # (train, test) pairs of a block-level split, used directly
                    ctx.check("R1", "%s|selector-is-test-part|%s" % (qn, tag), okt, "block ids are selected by the test element of the split / by a fold",
                              bad="the yielded points belong to the TRAIN blocks of the split", fn=qn, line=e.line)
        if n < (1 if cq == BSS else 4):
            ctx.add("R1", qn + "|yield-count", "UNDECIDED", "fewer yields than expected (%d)" % n, fn=qn)


def r2_complement(ctx):
    for cq in (BSS, BKF):
        c = ctx.pkg.cls(cq)
        ctx.check("R2", cq + "|does-not-override-split", True if "split" not in c.methods else False, "split is inherited", bad="%s overrides split" % cq.rsplit(".", 1)[1])
        mro = ctx.pkg.mro(cq)
        ctx.check("R2", cq + "|derives-from-BaseCrossValidator", True if BASE in mro and "sklearn.model_selection.BaseCrossValidator" in mro else False,
                  "the class derives from BaseBlockCrossValidator and scikit-learn's BaseCrossValidator", bad="the class no longer derives from scikit-learn's BaseCrossValidator")
    qn = BASE + ".split"
    ps = ctx.paths(qn)
    col = any(p.exit == "raise" and p.conds and p.conds[-1][1] and p.conds[-1][0][0] == "cmp" and p.conds[-1][0][1] == "!=" and p.conds[-1][0][3] == const(2) for p in ps)
    ctx.check("R2", qn + "|rejects-non-2-column-X", True if col else False, "X without exactly 2 columns raises", bad="the column check is gone", fn=qn)
    for p in ps:
        if not p.normal:
            continue
        ys = [e.data[0] for e in p.events if e.kind == "yield"]
        sup = [e.data[0] for e in p.events if e.kind == "call" and callee(e.data[0]) == ".split" and e.data[0][1][1][0] == "call" and callee(e.data[0][1][1]) == "builtins.super"]
        ok = None
        if len(sup) == 1 and len(ys) == 1:
            args_ok = sup[0][2] == (X, ("param", "y"), ("param", "groups"))
            y = ys[0]
            el_ok = y[0] == "tuple" and len(y[1]) == 2 and all(a[0] == "sub" and a[1][0] == "elem" and a[1][1] == sup[0] for a in y[1]) and [a[2] for a in y[1]] == [const(0), const(1)]
            sw = y[0] == "tuple" and len(y[1]) == 2 and [a[2] if a[0] == "sub" else None for a in y[1]] == [const(1), const(0)]
            if y[0] == "elem" and y[1] == sup[0]:
                el_ok = True          # `yield from super().split(...)`: the pairs are passed on as they are
            ok = True if args_ok and el_ok else (False if sw else None)
        ctx.check("R2", qn + "|re-yields-super-split", ok, "split yields (train, test) exactly as scikit-learn's BaseCrossValidator.split produces them", bad="train and test are swapped", fn=qn)
    init = BASE + ".__init__"
    _both, nei = K.both_neither(ctx, init, "spacing", "shape")
    ctx.check("R2", init + "|rejects-neither", nei, "neither spacing nor shape raises", bad="neither spacing nor shape is accepted", fn=init)


def r3_folds(ctx):
    qn = BKF + "._iter_test_indices"
    seen = set()
    for p in ctx.paths(qn):
        if not p.normal:
            continue
        loops = [e for e in p.events if e.kind == "loop-enter"]
        ys = [e for e in p.events if e.kind == "yield"]
        if not ys:
            continue
        handler = any(e.kind == "handler" for e in p.events)
        bal = lookup(p.decided, Q.self_attr("balance"))
        kind = "balanced" if bal and not handler else ("fallback" if handler else "unbalanced")
        seen.add(kind)
        # the loop whose element selects the yielded blocks
        yt = ys[0].data[0]
        sel = None
        for x in walk(yt):
            if x[0] == "elem":
                sel = x
                break
        folds = sel[1] if sel else None
        labels = None
        for x in walk(yt):
            if x[0] == "sub" and x[2] == const(1) and x[1][0] == "call" and callee(x[1]) == "verde.coordinates.block_split":
                labels = x
        uniq = None
        if labels is not None:
            cands = [x for x in walk(yt) if is_unique_of(x, labels)]
            uniq = cands[0] if cands else ("call", ("glob", "numpy.unique"), (labels,), (), 0)
        ok, why = None, ""
        if folds is not None and uniq is not None:
            if kind == "balanced":
                if folds[0] == "call" and callee(folds) == "numpy.split" and len(folds[2]) == 2:
                    ar, pts = folds[2]
                    ar_ok = canon(ar) == canon(("call", ("glob", "numpy.arange"), (("attr", uniq, "size"),), (), 0))
                    pbs = pts[0] == "call" and callee(pts) == "verde.utils.partition_by_sum"
                    parts = Q.arg(ctx, pts, "parts") if pbs else None
                    sizes = Q.arg(ctx, pts, "array") if pbs else None
                    sz_ok = None
                    if isinstance(sizes, tuple) and sizes[0] == "sub" and sizes[2] == const(1) and sizes[1][0] == "call" and callee(sizes[1]) == "numpy.unique" \
                            and sizes[1][2] and sizes[1][2][0] == labels and kw(sizes[1], "return_counts") == const(True):
                        shuffled = any(e.kind == "call" and callee(e.data[0]) == ".shuffle" for e in p.events)
                        sz_ok = False if shuffled else True
                        if shuffled:
                            why = "block sizes come from np.unique(..., return_counts=True) (sorted-id order) but the block ids were shuffled afterwards: sizes[i] no longer counts block_ids[i]"
                    bc = [x for x in walk(sizes) if isinstance(x, tuple) and x and x[0] == "call" and callee(x) == "numpy.bincount" and x[2] and x[2][0] == labels] if isinstance(sizes, tuple) else []
                    if bc and sz_ok is None:
                        # np.bincount(labels) counts in the order of the label VALUES: like return_counts it is aligned with the sorted ids only
                        shuffled = any(e.kind == "call" and callee(e.data[0]) == ".shuffle" for e in p.events)
                        sz_ok = False if shuffled else None
                        if shuffled:
                            why = "block sizes come from np.bincount(labels) (label order) but the block ids were shuffled afterwards: sizes[i] no longer counts block_ids[i]"
                    if isinstance(sizes, tuple) and sizes[0] == "comp":
                        el = sizes[2]
                        sz_ok = sizes[3] == uniq or canon(sizes[3]) == canon(uniq)
                        isin = el[1][1] if el[0] == "call" and el[1][0] == "attr" and el[1][2] == "sum" else None
                        sz_ok = bool(sz_ok and isin is not None and isin[0] == "call" and callee(isin) == "numpy.isin" and isin[2][0] == labels and isin[2][1] == ("elem", sizes[3], sizes[4]))
                    if ar_ok and pbs and parts == Q.self_attr("n_splits") and sz_ok:
                        ok = True
                    elif pbs and parts is not None and parts != Q.self_attr("n_splits") and (is_const(parts) or Q.is_self_attr(parts)):
                        ok, why = False, "partition_by_sum is asked for %s parts instead of self.n_splits" % show(parts)
                    elif pbs and sz_ok is False:
                        ok, why = False, why or "block sizes are not counted per block id"
                elif folds[0] == "comp" or (folds[0] == "call" and callee(folds) == ".split"):
                    ok, why = False, "balance=True does not use partition_by_sum"
            else:
                # folds = [i for _, i in KFold(...).split(ids)] looped over, or the split looped over directly (the engine records both as a
                # loop over the split whose element is the pair's component)
                split_call = el = None
                if folds[0] == "comp" and folds[3][0] == "call" and callee(folds[3]) == ".split":
                    split_call, el = folds[3], folds[2]
                    if el[0] == "sub" and el[1] == ("elem", folds[3], folds[4]):
                        el = ("sub", "pair", el[2])
                elif folds[0] == "call" and callee(folds) == ".split":
                    split_call = folds
                    used = [x for x in walk(yt) if isinstance(x, tuple) and x and x[0] == "sub" and x[1] == sel]
                    el = ("sub", "pair", used[0][2]) if used and all(u == used[0] for u in used) else ("other",)
                if split_call is not None:
                    kf = split_call[1][1]
                    ns = Q.arg(ctx, kf, "n_splits") if kf[0] == "call" and callee(kf) == "sklearn.model_selection.KFold" else None
                    on_ids = split_call[2] and canon(split_call[2][0]) == canon(uniq)
                    if el[0] == "sub" and el[1] == "pair" and is_int(el[2]):
                        if el[2][1] == 1 and ns == Q.self_attr("n_splits") and on_ids:
                            ok = True
                        elif el[2][1] == 0:
                            ok, why = False, "folds are the TRAIN parts ([i for i, _ in KFold.split]) of the block-level K-fold"
                        elif ns is not None and ns != Q.self_attr("n_splits") and (is_const(ns) or Q.is_self_attr(ns)):
                            ok, why = False, "KFold is built with n_splits=%s" % show(ns)
                    shuf = Q.arg(ctx, kf, "shuffle") if kf[0] == "call" else None
                    if shuf not in (None, const(False)) and ok is True:
                        ok, why = None, "KFold(shuffle=%s)" % show(shuf)
        ctx.check("R3", "%s|fold-provenance|%s" % (qn, kind), ok, {"balanced": "folds = np.split(arange(n_blocks), partition_by_sum(block sizes, parts=self.n_splits))",
                                                                 "fallback": "fallback folds = test parts of KFold(n_splits=self.n_splits).split(block_ids)",
                                                                 "unbalanced": "folds = test parts of KFold(n_splits=self.n_splits).split(block_ids)"}[kind], bad=why, fn=qn, undecided=why or "fold construction not recognised")
    for k in ("balanced", "fallback", "unbalanced"):
        if k not in seen:
            ctx.add("R3", "%s|path|%s" % (qn, k), "UNDECIDED", "no %s path found" % k, fn=qn)
    big = any(p.exit == "raise" and p.conds and p.conds[-1][1] and p.conds[-1][0][0] == "cmp" and p.conds[-1][0][1] == ">" and p.conds[-1][0][2] == Q.self_attr("n_splits") for p in ctx.paths(qn))
    ctx.check("R3", qn + "|rejects-more-splits-than-blocks", True if big else False, "n_splits > number of blocks raises", bad="more splits than blocks are accepted", fn=qn)
    init = BKF + ".__init__"
    two = any(p.exit == "raise" and p.conds and p.conds[-1][1] and p.conds[-1][0] == ("cmp", "<", ("param", "n_splits"), const(2)) for p in ctx.paths(init))
    ctx.check("R3", init + "|rejects-n_splits<2", True if two else False, "n_splits < 2 raises", bad="n_splits < 2 is accepted", fn=init)


def r4_r5_shuffle(ctx):
    qn = BSS + "._iter_test_indices"
    for p in ctx.paths(qn):
        if not p.normal:
            continue
        ss = [e.data[0] for e in p.events if e.kind == "call" and callee(e.data[0]) == "sklearn.model_selection.ShuffleSplit"]
        if len(ss) != 1:
            ctx.add("R4", qn + "|one-ShuffleSplit", "UNDECIDED", "expected one ShuffleSplit construction", fn=qn)
            continue
        s = ss[0]
        want_n = ("binop", "*", Q.self_attr("n_splits"), Q.self_attr("balancing"))
        n = Q.arg(ctx, s, "n_splits")
        okn = True if isinstance(n, tuple) and canon(n) in (canon(want_n), canon(("binop", "*", Q.self_attr("balancing"), Q.self_attr("n_splits")))) else (False if n == Q.self_attr("n_splits") or (isinstance(n, tuple) and is_const(n)) else None)
        ctx.check("R4", qn + "|ShuffleSplit-n_splits", okn, "n_splits * balancing candidate shuffles are drawn", bad="ShuffleSplit(n_splits=%s): next() runs out of candidates / too few are compared" % (show(n) if isinstance(n, tuple) else n), fn=qn)
        for nm in ("test_size", "train_size", "random_state"):
            v = Q.arg(ctx, s, nm)
            ctx.check("R4", "%s|ShuffleSplit-%s" % (qn, nm), True if v == Q.self_attr(nm) else (False if v is None or (isinstance(v, tuple) and (is_const(v) or Q.is_self_attr(v))) else None),
                      "%s comes from self.%s" % (nm, nm), bad="ShuffleSplit receives %s=%s" % (nm, show(v) if isinstance(v, tuple) else "the default"), fn=qn)
        loops = [e for e in p.events if e.kind == "loop-enter"]
        rng = [l.data[1] for l in loops if l.data[1][0] == "call" and callee(l.data[1]) == "builtins.range"]
        ok = True if len(rng) >= 2 and rng[0][2] == (Q.self_attr("n_splits"),) and rng[1][2] == (Q.self_attr("balancing"),) else (False if len(rng) >= 2 and rng[0][2] == (Q.self_attr("balancing"),) else None)
        ctx.check("R4", qn + "|loops", ok, "n_splits yields, each after exactly `balancing` draws", bad="the loops run balancing x n_splits", fn=qn)
        nx = [e.data[0] for e in p.events if e.kind == "call" and callee(e.data[0]) == "builtins.next"]
        spl = [e.data[0] for e in p.events if e.kind == "call" and callee(e.data[0]) == ".split" and e.data[0][1][1] == s]
        ctx.check("R4", qn + "|one-draw-per-candidate", True if len(nx) == 1 and spl and nx[0][2] == (spl[0],) else None, "each candidate is the next (train, test) pair of the block-level ShuffleSplit", fn=qn)
        # R5
        am = [e.data[0] for e in p.events if e.kind == "call" and callee(e.data[0]) in ("numpy.argmin", "numpy.argmax", "numpy.nanargmin", "numpy.nanargmax")]
        ys = [e.data[0] for e in p.events if e.kind == "yield"]
        ok = None
        if len(am) == 1 and len(ys) == 1:
            y = ys[0]
            ok = True if callee(am[0]) == "numpy.argmin" and y[0] == "sub" and y[2] == am[0] else (False if callee(am[0]) in ("numpy.argmax", "numpy.nanargmax") else None)
        ctx.check("R5", qn + "|best-is-argmin-of-balance", ok, "the yielded candidate is test_sets[argmin(balance)]", bad="the WORST balanced candidate (argmax) is yielded", fn=qn)
        if len(am) == 1 and len(ys) == 1 and ys[0][0] == "sub":
            bl, tl = am[0][2][0], ys[0][1]

            cb, ct = Q.grown(bl), Q.grown(tl)
            ctx.check("R5", qn + "|lists-in-step", True if cb is not None and ct is not None and cb[4] == ct[4] else None, "balance and test_sets are appended once per candidate in the same loop", fn=qn)
            if cb is not None and len(nx) == 1:
                sp = Space()
                tr_b, te_b = Q.sub(nx[0], 0), Q.sub(nx[0], 1)
                env = {}
                for x in walk(cb[2]):
                    if x[0] == "attr" and x[2] == "size":
                        inner = x[1]
                        if inner == tr_b:
                            env[x] = sp.sym("train_blocks")
                        elif inner == te_b:
                            env[x] = sp.sym("test_blocks")
                        elif inner[0] == "sub" and inner[1][0] == "call" and callee(inner[1]) == "numpy.where":
                            sel = [y_ for y_ in walk(inner) if y_ in (tr_b, te_b)]
                            if sel:
                                env[x] = sp.sym("train_points" if sel[0] == tr_b else "test_points")
                try:
                    got = Builder(sp).nf(cb[2], env)
                    want = sp.fn("abs", sp.sym("train_points") / sp.sym("test_points") - sp.sym("train_blocks") / sp.sym("test_blocks"))
                    alt = sp.fn("abs", sp.sym("train_blocks") / sp.sym("test_blocks") - sp.sym("train_points") / sp.sym("test_points"))
                    okf = True if got == want or got == alt else compare(sp, got, want)
                    inner = sp.sym("train_points") / sp.sym("test_points") - sp.sym("train_blocks") / sp.sym("test_blocks")
                    if okf is None and (got == inner or got == -inner):
                        okf = False       # the signed difference: argmin then prefers the most negative imbalance instead of the smallest one
                except Undecided:
                    okf, got = None, "?"
                ctx.check("R5", qn + "|balance-formula", okf, "balance = |train_points/test_points - train_blocks/test_blocks|", bad="balance is %s" % repr(got)[:120], fn=qn)
    init = BSS + ".__init__"
    b1 = any(p.exit == "raise" and p.conds and p.conds[-1][1] and p.conds[-1][0] == ("cmp", "<", ("param", "balancing"), const(1)) for p in ctx.paths(init))
    ctx.check("R4", init + "|rejects-balancing<1", True if b1 else False, "balancing < 1 raises", bad="balancing < 1 is accepted", fn=init)


def r6_rng(ctx):
    finds = [f for f in hidden_state_findings(ctx.pkg, ctx.an) if "RNG" in f[3]]
    ctx.check("R6", "verde|no-global-rng", False if finds else True, "no function of the package calls a global-state random number generator",
              bad="%s in %s" % (finds[0][3], finds[0][1]) if finds else "", fn=finds[0][1] if finds and finds[0][1] in ctx.pkg.functions else None, line=finds[0][2] if finds else None)
    qn = BKF + "._iter_test_indices"
    okk = None
    for p in ctx.paths(qn):
        if not p.normal or lookup(p.decided, Q.self_attr("shuffle")) is not True:
            continue
        sh = [e.data[0] for e in p.events if e.kind == "call" and callee(e.data[0]) == ".shuffle"]
        if sh:
            r = sh[0][1][1]
            good = r[0] == "call" and callee(r) in ("sklearn.utils.check_random_state", "sklearn.utils.validation.check_random_state") and r[2] == (Q.self_attr("random_state"),)
            okk = True if good and okk is not False else (False if r[0] == "call" and r[2] and is_const(r[2][0]) else okk)
            tgt = sh[0][2][0] if sh[0][2] else None
            fresh = tgt is not None and ((tgt[0] == "call" and callee(tgt) == "numpy.unique") or (tgt[0] == "sub" and tgt[1][0] == "call" and callee(tgt[1]) == "numpy.unique"))
            ctx.check("R6", qn + "|shuffles-its-own-array", True if fresh else None, "the shuffled array is the freshly computed block id array", fn=qn)
        else:
            okk = False
    ctx.check("R6", qn + "|shuffle-uses-random_state", okk, "shuffle=True permutes the block ids with check_random_state(self.random_state)", bad="shuffle=True does not use self.random_state (not reproducible) or does not shuffle", fn=qn)
    # a seed gives the same folds on every split() call only if the object keeps the SEED: a generator object created once in
    # the constructor is consumed by the first split and the second one differs (and clone() copies a half-used generator)
    for cq in (BSS, BKF):
        init = ctx.pkg.find_method(cq, "__init__")
        if init is None:
            continue
        vals = {e.data[2] for p in ctx.paths(init.qual) if p.normal for e in p.events if e.kind == "setattr" and e.data[0] == Q.SELF and e.data[1] == "random_state"}
        seeded = any(v[0] == "call" and callee(v) in ("sklearn.utils.check_random_state", "sklearn.utils.validation.check_random_state", "numpy.random.RandomState", "numpy.random.default_rng") for v in vals)
        ctx.check("R6", cq + ".__init__|keeps-the-seed", True if vals == {("param", "random_state")} else (False if seeded else None), "the constructor stores random_state as given",
                  bad="the constructor stores a generator object instead of the seed: consecutive split() calls on one instance give different folds", fn=init.qual)
    qn = MS + ".train_test_split"
    for p in ctx.paths(qn):
        if p.exit != "return":
            continue
        blocked = lookup(p.decided, ("boolop", "And", (("cmp", "is", ("param", "spacing"), NONE), ("cmp", "is", ("param", "shape"), NONE)))) is False
        cons = [e.data[0] for e in p.events if e.kind == "call" and callee(e.data[0]) in ("sklearn.model_selection.ShuffleSplit", BSS)]
        tag = "blocked" if blocked else "plain"
        ok = None
        if len(cons) == 1:
            ok = True if any(k is None and v == ("param", "**kwargs") for k, v in cons[0][3]) else False
        ctx.check("R6", "%s|kwargs-forwarded|%s" % (qn, tag), ok, "random_state/test_size travel through **kwargs to the splitter", bad="**kwargs (random_state, test_size) are not forwarded", fn=qn)


def r7_partition_guards(ctx):
    """np.split(arange(n), idx) has only non-empty parts iff idx is strictly increasing inside 1..n-1.  partition_by_sum returns the
    np.searchsorted(..., side='right') positions of multiples of total // parts in the cumulative sum: position 0 is possible (first
    element above the ideal sum), position n is not (the ideal values stay below the total).  So two guards are necessary on the way
    to the return: no repeated split points, and no split point at 0."""
    qn = "verde.utils.partition_by_sum"
    ps = ctx.paths(qn)
    rets = [p for p in ps if p.exit == "return"]
    for p in rets:
        v = p.value
        from_ss = v[0] == "call" and callee(v) == "numpy.searchsorted"
        if not from_ss:
            ctx.add("R7", qn + "|split-points", "UNDECIDED", "the split points are not a direct np.searchsorted result: %s" % show(v)[:80], fn=qn)
            continue
        side = kw(v, "side")
        ctx.check("R7", qn + "|searchsorted-side-right", True if side == const("right") else (False if side in (None, const("left")) else None),
                  "split points are inserted to the right (a part that reaches the ideal sum exactly keeps its last element)",
                  bad="searchsorted(side='left'): parts that hit the ideal sum exactly lose their last element", fn=qn)
        # premise of "a split point at n is impossible": the searched values are k * (total // parts) for k < parts, all strictly below the
        # total (floor division).  With a rounded or true quotient (parts - 1) * ideal can reach the total, side="right" then returns n and the
        # LAST part is empty - which neither of the two guards below excludes.
        probe = v[2][1] if len(v[2]) > 1 else None
        cs = v[2][0] if v[2] else None
        total = ("sub", cs, const(-1)) if cs is not None else None
        floor_ok = None
        if probe is not None and total is not None:
            quot = [x for x in walk(probe) if isinstance(x, tuple) and x and x[0] == "binop" and x[1] in ("//", "/") and x[2] == total and x[3] == ("param", "parts")]
            if quot and all(x[1] == "//" for x in quot) and not any(isinstance(x, tuple) and x and x[0] == "call" and callee(x) in ("builtins.round", "numpy.round", "numpy.rint", "numpy.ceil", "math.ceil") for x in walk(probe)):
                floor_ok = True
            elif quot:
                floor_ok = False
        ctx.check("R7", qn + "|ideal-sum-is-floored", floor_ok, "the searched sums are multiples of total // parts (strictly below the total for k < parts), so no split point can equal n",
                  bad="the ideal part sum is not the floor of total / parts: (parts - 1) * ideal can reach the total, searchsorted(side='right') then returns n and np.split leaves the last fold empty", fn=qn)
        guards = [c for c, _val in p.conds]          # decisions are literals: the polarity depends on how the guard is spelled
        dup = any(any(x[0] == "call" and callee(x) == "numpy.unique" and x[2] == (v,) for x in walk(g)) or any(x[0] == "call" and callee(x) == "numpy.diff" and x[2] and x[2][0] == v for x in walk(g)) for g in guards)
        def is_zero(g):
            for x in walk(g):
                if x[0] == "cmp" and x[1] in ("==", "<", "<=", "in", ">", ">=", "!=") and any(y == v or (y[0] == "sub" and y[1] == v) or (y[0] == "call" and y[1][0] == "attr" and y[1][1] == v and y[1][2] == "min") or (y[0] == "call" and callee(y) in ("numpy.min", "numpy.amin") and y[2] == (v,)) for y in (x[2], x[3])) \
                        and any(is_const(y) and y[1] in (0, 1) for y in (x[2], x[3])):
                    return True
                if x[0] == "call" and callee(x) == "numpy.diff" and x[2] and x[2][0][0] == "call" and callee(x[2][0]) in ("numpy.concatenate", "numpy.r_", "numpy.append", "numpy.insert", "numpy.hstack"):
                    return True
            return False
        zero = any(is_zero(g) for g in guards)
        # decisions of the return path that look at the split points in a way neither test above recognises (np.all(points), a comparison of
        # neighbours, ...) could be either guard written differently: the verdict "missing" needs every such decision to be accounted for
        def is_dup(g):
            return any(x[0] == "call" and callee(x) == "numpy.unique" and x[2] == (v,) for x in walk(g)) or any(x[0] == "call" and callee(x) == "numpy.diff" and x[2] and x[2][0] == v for x in walk(g))
        other = [g for g in guards if any(x == v for x in walk(g)) and not is_dup(g) and not is_zero(g)]
        if not zero and other:
            zero = None
        if not dup and other:
            dup = None
        ctx.check("R7", qn + "|rejects-repeated-split-points", True if dup else (None if dup is None else False), "repeated split points (an empty middle part) raise before the return",
                  bad="repeated split points are returned: np.split then produces an empty fold", fn=qn)
        ctx.check("R7", qn + "|rejects-split-point-at-0", True if zero else (None if zero is None else False), "a split point at 0 (an empty first part) raises before the return",
                  bad="a split point at 0 is returned when the first element exceeds total // parts: np.split then produces an empty first fold "
                      "(BlockKFold yields an empty test set, e.g. 50 points in the first block and 1 in each of 3 others, n_splits=2)", fn=qn)
    if not rets:
        ctx.add("R7", qn + "|returns", "UNDECIDED", "no return path", fn=qn)
    many = any(p.exit == "raise" and p.conds and p.conds[-1][1] and p.conds[-1][0][0] == "cmp" and p.conds[-1][0][1] == ">" and p.conds[-1][0][2] == ("param", "parts") for p in ps)
    ctx.check("R7", qn + "|rejects-more-parts-than-elements", True if many else False, "more parts than elements raise", bad="more parts than elements are accepted", fn=qn)
    # the caller turns the ValueError into the documented fallback
    qn2 = BKF + "._iter_test_indices"
    fb = [p for p in ctx.paths(qn2) if any(e.kind == "handler" and e.data[1] == ("glob", "builtins.ValueError") for e in p.events)]
    okw = fb and all(any(e.kind == "call" and callee(e.data[0]) == "warnings.warn" for e in p.events) for p in fb)
    ctx.check("R7", qn2 + "|ValueError-falls-back-with-a-warning", True if okw else (False if not fb else None), "an unbalanceable layout falls back to equal block counts with a warning",
              bad="the ValueError of partition_by_sum is not caught: BlockKFold raises instead of falling back", fn=qn2)


RULES["R7"] = ("partition_by_sum rejects repeated split points and a split point at 0 before returning (necessary for non-empty folds of np.split); "
               "BlockKFold catches the ValueError and falls back to equal block counts with a warning")


def check(ctx):
    r7_partition_guards(ctx)
    r1_whole_blocks(ctx)
    r2_complement(ctx)
    r3_folds(ctx)
    r4_r5_shuffle(ctx)
    r6_rng(ctx)
